'''Small AST helpers used everywhere.'''

import ast


def dotted(node):
    '''Dotted name of a Name/Attribute chain ('numpy.linalg.norm'), else None.'''
    parts = []
    while isinstance(node, ast.Attribute):
        parts.append(node.attr)
        node = node.value
    if isinstance(node, ast.Name):
        parts.append(node.id)
        return '.'.join(reversed(parts))
    return None


def callee(call):
    '''Dotted name of the callee of a Call node, else None.'''
    return dotted(call.func) if isinstance(call, ast.Call) else None


def method_name(call):
    """Last component of the callee even when the receiver is not a dotted name (f(x).g(...) -> 'g')."""
    if not isinstance(call, ast.Call):
        return None
    f = call.func
    if isinstance(f, ast.Attribute):
        return f.attr
    if isinstance(f, ast.Name):
        return f.id
    return None


def last(name):
    return name.rsplit('.', 1)[-1] if name else None


def src(node):
    '''Normalised source text of a node (whitespace/quote independent).'''
    try:
        return ast.unparse(node)
    except Exception:  # pragma: no cover
        return ast.dump(node)


def stmt_text(node, limit=160):
    '''First line of the normalised text of a statement, for keys and reports.'''
    t = src(node)
    if isinstance(node, (ast.If, ast.While)):
        t = ('if ' if isinstance(node, ast.If) else 'while ') + src(node.test) + ':'
    elif isinstance(node, (ast.For, ast.AsyncFor)):
        t = 'for ' + src(node.target) + ' in ' + src(node.iter) + ':'
    elif isinstance(node, (ast.With, ast.AsyncWith)):
        t = 'with ' + ', '.join(src(i) for i in node.items) + ':'
    elif isinstance(node, ast.Try):
        t = 'try:'
    elif isinstance(node, (ast.FunctionDef, ast.AsyncFunctionDef)):
        t = 'def ' + node.name + '(' + src(node.args) + '):'
    elif isinstance(node, ast.ClassDef):
        t = 'class ' + node.name + ':'
    t = ' '.join(t.split())
    return t if len(t) <= limit else t[:limit - 3] + '...'


def walk_no_nested(node, include_self=True):
    '''ast.walk that does not descend into nested function/class/lambda scopes.'''
    todo = [node] if include_self else list(ast.iter_child_nodes(node))
    first = True
    while todo:
        n = todo.pop()
        yield n
        if not first and isinstance(n, (ast.FunctionDef, ast.AsyncFunctionDef, ast.Lambda, ast.ClassDef)):
            continue
        first = False
        todo.extend(ast.iter_child_nodes(n))


def calls_in(node, nested=True):
    it = ast.walk(node) if nested else walk_no_nested(node)
    for n in it:
        if isinstance(n, ast.Call):
            yield n


def names_loaded(node):
    return {n.id for n in ast.walk(node) if isinstance(n, ast.Name) and isinstance(n.ctx, ast.Load)}


def names_stored(node):
    return {n.id for n in ast.walk(node) if isinstance(n, ast.Name) and isinstance(n.ctx, (ast.Store, ast.Del))}


def target_names(target):
    '''Names bound by an assignment target (tuples/starred unpacked).'''
    out = []
    for n in ast.walk(target):
        if isinstance(n, ast.Name) and isinstance(n.ctx, ast.Store):
            out.append(n.id)
    return out


def const(node, default=None):
    '''Python value of a literal constant node (incl. negative numbers), else default.'''
    if isinstance(node, ast.Constant):
        return node.value
    if isinstance(node, ast.UnaryOp) and isinstance(node.op, ast.USub) and isinstance(node.operand, ast.Constant) \
            and isinstance(node.operand.value, (int, float)):
        return -node.operand.value
    return default


def is_const(node):
    return isinstance(node, ast.Constant) or (isinstance(node, ast.UnaryOp) and isinstance(node.op, ast.USub) and isinstance(node.operand, ast.Constant))


def params(fn):
    '''Positional parameter names of a FunctionDef/Lambda (incl. self), kw-only names, vararg, kwarg.'''
    a = fn.args
    pos = [x.arg for x in a.posonlyargs + a.args]
    kwonly = [x.arg for x in a.kwonlyargs]
    return pos, kwonly, (a.vararg.arg if a.vararg else None), (a.kwarg.arg if a.kwarg else None)


def arity(fn):
    '''(min positional, max positional or None if *args) of a def/lambda, counting self.'''
    a = fn.args
    npos = len(a.posonlyargs) + len(a.args)
    return npos - len(a.defaults), (None if a.vararg else npos)


def body_of(fn):
    '''Statement list of a def, or [Return(expr)] for a lambda.'''
    if isinstance(fn, ast.Lambda):
        r = ast.Return(value=fn.body)
        ast.copy_location(r, fn.body)
        return [r]
    return fn.body


def strip_docstring(body):
    if body and isinstance(body[0], ast.Expr) and isinstance(body[0].value, ast.Constant) and isinstance(body[0].value.value, str):
        return body[1:]
    return body


def same(a, b):
    '''Structural equality of two AST nodes (ignoring positions).'''
    return ast.dump(a) == ast.dump(b)


def find_stmts(body, pred):
    '''All statements (recursively, not into nested defs) satisfying pred.'''
    out = []
    for s in body:
        if pred(s):
            out.append(s)
        for field in ('body', 'orelse', 'finalbody'):
            sub = getattr(s, field, None)
            if isinstance(sub, list) and sub and isinstance(sub[0], ast.stmt) and not isinstance(s, (ast.FunctionDef, ast.AsyncFunctionDef, ast.ClassDef)):
                out.extend(find_stmts(sub, pred))
        if isinstance(s, ast.Try):
            for h in s.handlers:
                out.extend(find_stmts(h.body, pred))
        if isinstance(s, ast.Match):
            for c in s.cases:
                out.extend(find_stmts(c.body, pred))
    return out


def single_def(fn, name, before=None):
    '''The value of the only binding `name = value` in the function's own scope (optionally: located before line `before`), else None.'''
    found = []
    for n in walk_no_nested(fn):
        if isinstance(n, ast.Name) and n.id == name and isinstance(n.ctx, (ast.Store, ast.Del)):
            found.append(n)
    if len(found) != 1:
        return None
    for n in walk_no_nested(fn):
        if isinstance(n, ast.Assign) and len(n.targets) == 1 and n.targets[0] is found[0]:
            return n.value if before is None or n.lineno < before else None
        if isinstance(n, ast.AnnAssign) and n.target is found[0] and n.value is not None:
            return n.value if before is None or n.lineno < before else None
    return None


def resolved(fn, expr, before=None):
    '''expr, or the right-hand side of its only binding when expr is a local name bound exactly once (before line `before`).'''
    seen = 0
    while isinstance(expr, ast.Name) and seen < 5:
        v = single_def(fn, expr.id, before)
        if v is None:
            break
        expr = v
        seen += 1
    return expr


def deep_resolved(fn, expr, before=None, depth=6):
    '''A copy of expr in which every local name that is bound exactly once in fn (by a plain assignment) is replaced by its
    right-hand side, recursively: what the expression denotes in terms of parameters, attributes and multiply-bound names.'''
    import copy

    class T(ast.NodeTransformer):
        def __init__(self, d):
            self.d = d

        def visit_Name(self, n):
            if isinstance(n.ctx, ast.Load) and self.d > 0:
                v = single_def(fn, n.id, before)
                if v is not None:
                    return T(self.d - 1).visit(copy.deepcopy(v))
            return n
    return T(depth).visit(copy.deepcopy(expr))
