'''Small AST helpers used everywhere.'''

import ast


def dotted(node):
    '''Dotted name of a Name/Attribute chain ('numpy.linalg.norm'), else None.'''
    parts = []
    while isinstance(node, ast.Attribute):
        parts.append(node.attr)
        node = node.value
    if isinstance(node, ast.Name):
        parts.append(node.id)
        return '.'.join(reversed(parts))
    return None


def callee(call):
    '''Dotted name of the callee of a Call node, else None.'''
    return dotted(call.func) if isinstance(call, ast.Call) else None


def method_name(call):
    """Last component of the callee even when the receiver is not a dotted name (f(x).g(...) -> 'g')."""
    if not isinstance(call, ast.Call):
        return None
    f = call.func
    if isinstance(f, ast.Attribute):
        return f.attr
    if isinstance(f, ast.Name):
        return f.id
    return None


def last(name):
    return name.rsplit('.', 1)[-1] if name else None


def src(node):
    '''Normalised source text of a node (whitespace/quote independent).'''
    try:
        return ast.unparse(node)
    except Exception:  # pragma: no cover
        return ast.dump(node)


def stmt_text(node, limit=160):
    '''First line of the normalised text of a statement, for keys and reports.'''
    t = src(node)
    if isinstance(node, (ast.If, ast.While)):
        t = ('if ' if isinstance(node, ast.If) else 'while ') + src(node.test) + ':'
    elif isinstance(node, (ast.For, ast.AsyncFor)):
        t = 'for ' + src(node.target) + ' in ' + src(node.iter) + ':'
    elif isinstance(node, (ast.With, ast.AsyncWith)):
        t = 'with ' + ', '.join(src(i) for i in node.items) + ':'
    elif isinstance(node, ast.Try):
        t = 'try:'
    elif isinstance(node, (ast.FunctionDef, ast.AsyncFunctionDef)):
        t = 'def ' + node.name + '(' + src(node.args) + '):'
    elif isinstance(node, ast.ClassDef):
        t = 'class ' + node.name + ':'
    t = ' '.join(t.split())
    return t if len(t) <= limit else t[:limit - 3] + '...'


def walk_no_nested(node, include_self=True):
    '''ast.walk that does not descend into nested function/class/lambda scopes.'''
    todo = [node] if include_self else list(ast.iter_child_nodes(node))
    first = True
    while todo:
        n = todo.pop()
        yield n
        if not first and isinstance(n, (ast.FunctionDef, ast.AsyncFunctionDef, ast.Lambda, ast.ClassDef)):
            continue
        first = False
        todo.extend(ast.iter_child_nodes(n))


def calls_in(node, nested=True):
    it = ast.walk(node) if nested else walk_no_nested(node)
    for n in it:
        if isinstance(n, ast.Call):
            yield n


def names_loaded(node):
    return {n.id for n in ast.walk(node) if isinstance(n, ast.Name) and isinstance(n.ctx, ast.Load)}


def names_stored(node):
    return {n.id for n in ast.walk(node) if isinstance(n, ast.Name) and isinstance(n.ctx, (ast.Store, ast.Del))}


def target_names(target):
    '''Names bound by an assignment target (tuples/starred unpacked).'''
    out = []
    for n in ast.walk(target):
        if isinstance(n, ast.Name) and isinstance(n.ctx, ast.Store):
            out.append(n.id)
    return out


def const(node, default=None):
    '''Python value of a literal constant node (incl. negative numbers), else default.'''
    if isinstance(node, ast.Constant):
        return node.value
    if isinstance(node, ast.UnaryOp) and isinstance(node.op, ast.USub) and isinstance(node.operand, ast.Constant) \
            and isinstance(node.operand.value, (int, float)):
        return -node.operand.value
    return default


def is_const(node):
    return isinstance(node, ast.Constant) or (isinstance(node, ast.UnaryOp) and isinstance(node.op, ast.USub) and isinstance(node.operand, ast.Constant))


def params(fn):
    '''Positional parameter names of a FunctionDef/Lambda (incl. self), kw-only names, vararg, kwarg.'''
    a = fn.args
    pos = [x.arg for x in a.posonlyargs + a.args]
    kwonly = [x.arg for x in a.kwonlyargs]
    return pos, kwonly, (a.vararg.arg if a.vararg else None), (a.kwarg.arg if a.kwarg else None)


def arity(fn):
    '''(min positional, max positional or None if *args) of a def/lambda, counting self.'''
    a = fn.args
    npos = len(a.posonlyargs) + len(a.args)
    return npos - len(a.defaults), (None if a.vararg else npos)


def body_of(fn):
    '''Statement list of a def, or [Return(expr)] for a lambda.'''
    if isinstance(fn, ast.Lambda):
        r = ast.Return(value=fn.body)
        ast.copy_location(r, fn.body)
        return [r]
    return fn.body


def strip_docstring(body):
    if body and isinstance(body[0], ast.Expr) and isinstance(body[0].value, ast.Constant) and isinstance(body[0].value.value, str):
        return body[1:]
    return body


def same(a, b):
    '''Structural equality of two AST nodes (ignoring positions).'''
    return ast.dump(a) == ast.dump(b)


def find_stmts(body, pred):
    '''All statements (recursively, not into nested defs) satisfying pred.'''
    out = []
    for s in body:
        if pred(s):
            out.append(s)
        for field in ('body', 'orelse', 'finalbody'):
            sub = getattr(s, field, None)
            if isinstance(sub, list) and sub and isinstance(sub[0], ast.stmt) and not isinstance(s, (ast.FunctionDef, ast.AsyncFunctionDef, ast.ClassDef)):
                out.extend(find_stmts(sub, pred))
        if isinstance(s, ast.Try):
            for h in s.handlers:
                out.extend(find_stmts(h.body, pred))
        if isinstance(s, ast.Match):
            for c in s.cases:
                out.extend(find_stmts(c.body, pred))
    return out


def empty_container(v):
    if isinstance(v, (ast.Dict, ast.List, ast.Set)) and not (v.keys if isinstance(v, ast.Dict) else v.elts):
        return True
    return isinstance(v, ast.Call) and not v.args and not v.keywords and last(dotted(v.func) or '') in ('dict', 'list', 'set', 'IDSet', 'IDDict', 'OrderedDict', 'deque', 'defaultdict', 'bytearray')


def single_def(fn, name, before=None):
    '''The value of the only binding `name = value` in the function's own scope (optionally: located before line `before`), else None.'''
    found = []
    for n in walk_no_nested(fn):
        if isinstance(n, ast.Name) and n.id == name and isinstance(n.ctx, (ast.Store, ast.Del)):
            found.append(n)
    if len(found) != 1:
        return None
    a = getattr(fn, 'args', None)
    if a is not None and name in [x.arg for x in a.posonlyargs + a.args + a.kwonlyargs + ([a.vararg] if a.vararg else []) + ([a.kwarg] if a.kwarg else [])]:
        return None     # a parameter that is re-bound has two definitions
    mut = getattr(fn, '_mutated_cache', None)       # an object that is filled in place is not what its initial value says
    if mut is None:
        from .normalize import MUTATORS
        mut = set()

        def root(r):
            while isinstance(r, (ast.Attribute, ast.Subscript, ast.Starred)):
                r = r.value
            return r.id if isinstance(r, ast.Name) else None
        for st in ast.walk(fn):
            if isinstance(st, (ast.Subscript, ast.Attribute)) and isinstance(st.ctx, (ast.Store, ast.Del)):
                mut.add(root(st))
            elif isinstance(st, ast.AugAssign):
                mut.add(root(st.target))
            elif isinstance(st, ast.Call):
                if isinstance(st.func, ast.Attribute) and st.func.attr in MUTATORS:
                    mut.add(root(st.func.value))
                for kw in st.keywords:
                    if kw.arg == 'out':
                        mut.update(sub.id for sub in ast.walk(kw.value) if isinstance(sub, ast.Name))
        try:
            fn._mutated_cache = mut
        except Exception:
            pass
    if name in mut:
        return None
    for n in walk_no_nested(fn):
        v = None
        if isinstance(n, ast.Assign) and len(n.targets) == 1 and n.targets[0] is found[0]:
            v = n.value
        elif isinstance(n, ast.Assign) and len(n.targets) == 1 and isinstance(n.targets[0], (ast.Tuple, ast.List)) and isinstance(n.value, ast.Call) \
                and any(t is found[0] for t in n.targets[0].elts) and not any(isinstance(t, ast.Starred) for t in n.targets[0].elts):
            # a, b = f(...): `a` denotes f(...)[0]
            k = [i for i, t in enumerate(n.targets[0].elts) if t is found[0]][0]
            v = ast.Subscript(value=n.value, slice=ast.Constant(value=k), ctx=ast.Load())
            ast.copy_location(v, n.value)
            ast.fix_missing_locations(v)
        elif isinstance(n, ast.AnnAssign) and n.target is found[0] and n.value is not None:
            v = n.value
        if v is not None:
            if empty_container(v):
                return None     # an empty container bound to a name is there to be filled (possibly by a callee)
            return v if before is None or n.lineno < before else None
    return None


def resolved(fn, expr, before=None):
    '''expr, or the right-hand side of its only binding when expr is a local name bound exactly once (before line `before`).'''
    seen = 0
    while isinstance(expr, ast.Name) and seen < 5:
        v = single_def(fn, expr.id, before)
        if v is None:
            break
        expr = v
        seen += 1
    return expr


def deep_resolved(fn, expr, before=None, depth=6):
    '''A copy of expr in which every local name that is bound exactly once in fn (by a plain assignment) is replaced by its
    right-hand side, recursively: what the expression denotes in terms of parameters, attributes and multiply-bound names.'''
    import copy

    class T(ast.NodeTransformer):
        def __init__(self, d):
            self.d = d

        def visit_Name(self, n):
            if isinstance(n.ctx, ast.Load) and self.d > 0:
                v = single_def(fn, n.id, before)
                if v is not None:
                    return T(self.d - 1).visit(copy.deepcopy(v))
            return n
    return T(depth).visit(copy.deepcopy(expr))


def resolved_return(fn, which=-1):
    '''What the function returns (its last return by default), with local names bound once replaced by their right-hand sides.'''
    rets = [n for n in walk_no_nested(fn) if isinstance(n, ast.Return) and n.value is not None]
    rets.sort(key=lambda r: (r.lineno, r.col_offset))
    return deep_resolved(fn, rets[which].value) if rets else None


def if_branches(block, ifstmt):
    '''(statements executed when the test holds, statements executed when it does not) for an if statement of `block`: the else branch, or -
    when the if body always leaves (ends in return/raise/continue/break) and there is no else - the statements that follow it.'''
    body = list(ifstmt.body)
    if ifstmt.orelse:
        return body, list(ifstmt.orelse)
    if body and isinstance(body[-1], (ast.Return, ast.Raise, ast.Continue, ast.Break)):
        k = next((i for i, s_ in enumerate(block) if s_ is ifstmt), None)
        return body, list(block[k + 1:]) if k is not None else []
    return body, []
