'''Source model of <root>/src/nutils: modules, classes (with MRO), functions, aliases.

Parsed from the working tree on every run.  Name based: there is no type inference
offline (no mypy/pyright in this sandbox), so classes are resolved through the
module's import aliases and by name.
'''

import ast
import hashlib
import os

from . import AnalysisError
from .astutil import dotted, body_of


_AST_CACHE = {}   # sha1 of source -> parsed tree (trees are never mutated by the rules)


class Module:
    def __init__(self, name, path, relpath, source, form='raw', helpers=None, functions=None):
        self.name = name            # 'nutils.evaluable'
        self.short = name.split('.', 1)[1] if '.' in name else name  # 'evaluable', 'matrix._base'
        self.path = path
        self.relpath = relpath      # 'src/nutils/evaluable.py'
        self.source = source
        self.sha1 = hashlib.sha1(source.encode()).hexdigest()
        tree = _AST_CACHE.get(self.sha1)
        if tree is None:
            tree = _AST_CACHE[self.sha1] = ast.parse(source, filename=path)
        if form != 'raw':   # a behaviour-preserving normal form of the same source (sa/normalize.py); positions are those of the source
            key = (self.sha1, form, helpers, functions)
            if key not in _AST_CACHE:
                from .normalize import normalize
                _AST_CACHE[key] = normalize(tree, form, source, path, helpers, functions, self.short)
            tree = _AST_CACHE[key]
        self.tree = tree
        self.form = form
        self.imports = {}           # local name -> dotted target
        self.classes = {}           # name -> ClassInfo (top level)
        self.functions = {}         # name -> FuncInfo (top level defs and name = lambda)
        self.assigns = {}           # name -> value node of the last top-level assignment

    def __repr__(self):
        return f'<Module {self.name}>'


class FuncInfo:
    def __init__(self, module, qualname, node, cls=None, name=None):
        self.module = module
        self.qualname = qualname    # 'Class.method' / 'func' / 'func.<locals>.inner'
        self.node = node            # FunctionDef | AsyncFunctionDef | Lambda
        self.cls = cls
        self.name = name or getattr(node, 'name', '<lambda>')

    @property
    def key(self):
        return f'{self.module.short}:{self.qualname}'

    @property
    def body(self):
        return body_of(self.node)

    @property
    def decorators(self):
        return [dotted(d.func if isinstance(d, ast.Call) else d) or ast.unparse(d) for d in getattr(self.node, 'decorator_list', [])]

    @property
    def lineno(self):
        return self.node.lineno

    def where(self, node=None):
        n = node if node is not None and hasattr(node, 'lineno') else self.node
        return f'{self.module.relpath}:{n.lineno}'

    def __repr__(self):
        return f'<Func {self.key}>'


class Member:
    '''A class-body binding.'''

    def __init__(self, name, kind, node, func=None):
        self.name = name
        self.kind = kind    # 'def' | 'lambda' | 'alias' | 'value' | 'annotation'
        self.node = node    # the statement
        self.func = func    # FuncInfo for def/lambda


class ClassInfo:
    def __init__(self, module, node):
        self.module = module
        self.node = node
        self.name = node.name
        self.base_exprs = [dotted(b) or ast.unparse(b) for b in node.bases]
        self.bases = []         # resolved ClassInfo
        self.members = {}       # name -> Member (last binding wins)
        self.fields = []        # annotated fields in order: (name, annotation text, has default)
        self.keywords = {k.arg: k.value for k in node.keywords}

    @property
    def key(self):
        return f'{self.module.short}:{self.name}'

    def __repr__(self):
        return f'<Class {self.key}>'


class Model:
    def __init__(self, root='/repo', package='nutils', form='raw', only_modules=None, helpers=None, only_functions=None):
        self.form = form                    # normal form (sa/normalize.py) of the modules named in only_modules (all when None)
        self.only_modules = only_modules
        self.only_functions = only_functions    # {module short name: frozenset of qualnames} to rewrite (whole module when absent)
        self.helpers = helpers
        self.root = os.path.abspath(root)
        self.pkgdir = os.path.join(self.root, 'src', package)
        if not os.path.isdir(self.pkgdir):
            raise AnalysisError(f'package directory {self.pkgdir} not found')
        self.package = package
        self.modules = {}       # short name -> Module ('evaluable', 'matrix._base', 'matrix')
        self.functions = {}     # key -> FuncInfo (all, incl. nested and methods)
        self.classes = {}       # key -> ClassInfo (top-level classes)
        self._mro = {}
        self._load()
        self._link()

    # -- loading -------------------------------------------------------------

    def _load(self):
        for dirpath, dirnames, filenames in os.walk(self.pkgdir):
            dirnames[:] = sorted(d for d in dirnames if d != '__pycache__')
            for fn in sorted(filenames):
                if not fn.endswith('.py'):
                    continue
                path = os.path.join(dirpath, fn)
                rel = os.path.relpath(path, self.root)
                parts = os.path.relpath(path, os.path.dirname(self.pkgdir))[:-3].split(os.sep)
                if parts[-1] == '__init__':
                    parts = parts[:-1]
                name = '.'.join(parts)
                with open(path, encoding='utf-8') as f:
                    source = f.read()
                try:
                    short = name.split('.', 1)[1] if '.' in name else name
                    form = self.form if self.only_modules is None or short in self.only_modules else 'raw'
                    m = Module(name, path, rel, source, form, self.helpers, (self.only_functions or {}).get(short))
                except SyntaxError as e:
                    raise AnalysisError(f'{rel} does not parse: {e}')
                self.modules[m.short] = m
                self._scan_module(m)

    def _scan_module(self, m):
        pkgparts = m.name.split('.')
        is_pkg = m.path.endswith('__init__.py')
        for node in ast.walk(m.tree):
            if isinstance(node, ast.Import):
                for a in node.names:
                    m.imports.setdefault(a.asname or a.name.split('.')[0], a.name if a.asname else a.name.split('.')[0])
            elif isinstance(node, ast.ImportFrom):
                base = pkgparts if is_pkg else pkgparts[:-1]
                if node.level:
                    base = base[:len(base) - (node.level - 1)] if node.level > 1 else base
                    modname = '.'.join(base + ([node.module] if node.module else []))
                else:
                    modname = node.module
                for a in node.names:
                    m.imports.setdefault(a.asname or a.name, f'{modname}.{a.name}')
        for stmt in m.tree.body:
            self._scan_stmt(m, stmt, None, '')
        # conditional definitions at module level (if/else, try/except): the else/handler branch (production
        # configuration) is scanned first and existing bindings are kept
        for stmt in m.tree.body:
            if isinstance(stmt, (ast.If, ast.Try)):
                branches = [stmt.orelse, stmt.body] if isinstance(stmt, ast.If) else [stmt.body] + [h.body for h in stmt.handlers] + [stmt.orelse]
                for br in branches:
                    for sub in br:
                        if isinstance(sub, (ast.FunctionDef, ast.AsyncFunctionDef)) and sub.name not in m.functions:
                            self._scan_stmt(m, sub, None, '')
                        elif isinstance(sub, ast.ClassDef) and sub.name not in m.classes and sub.name not in m.assigns:
                            self._scan_stmt(m, sub, None, '')
                        elif isinstance(sub, ast.Assign) and len(sub.targets) == 1 and isinstance(sub.targets[0], ast.Name) and sub.targets[0].id not in m.assigns \
                                and sub.targets[0].id not in m.classes and sub.targets[0].id not in m.functions:
                            self._scan_stmt(m, sub, None, '')

    def _scan_stmt(self, m, stmt, cls, prefix):
        if isinstance(stmt, (ast.FunctionDef, ast.AsyncFunctionDef)):
            f = FuncInfo(m, prefix + stmt.name, stmt, cls)
            self.functions[f.key] = f
            if cls is not None:
                cls.members[stmt.name] = Member(stmt.name, 'def', stmt, f)
            elif not prefix:
                m.functions[stmt.name] = f
            self._scan_nested(m, stmt, f.qualname + '.<locals>.')
        elif isinstance(stmt, ast.ClassDef):
            c = ClassInfo(m, stmt)
            if cls is None and not prefix:
                m.classes[c.name] = c
                self.classes[c.key] = c
            for s in stmt.body:
                self._scan_stmt(m, s, c, prefix + stmt.name + '.')
        elif isinstance(stmt, ast.Assign):
            for t in stmt.targets:
                if isinstance(t, ast.Name):
                    self._bind(m, t.id, stmt.value, stmt, cls, prefix)
                elif isinstance(t, ast.Tuple) and isinstance(stmt.value, ast.Tuple) and len(t.elts) == len(stmt.value.elts):
                    for tt, vv in zip(t.elts, stmt.value.elts):
                        if isinstance(tt, ast.Name):
                            self._bind(m, tt.id, vv, stmt, cls, prefix)
        elif isinstance(stmt, ast.AnnAssign) and isinstance(stmt.target, ast.Name):
            if cls is not None:
                cls.fields.append((stmt.target.id, ast.unparse(stmt.annotation), stmt.value is not None))
                if stmt.value is not None:
                    self._bind(m, stmt.target.id, stmt.value, stmt, cls, prefix)
                else:
                    cls.members.setdefault(stmt.target.id, Member(stmt.target.id, 'annotation', stmt))
            elif stmt.value is not None:
                self._bind(m, stmt.target.id, stmt.value, stmt, cls, prefix)

    def _bind(self, m, name, value, stmt, cls, prefix):
        if isinstance(value, ast.Lambda):
            f = FuncInfo(m, prefix + name, value, cls, name=name)
            self.functions[f.key] = f
            if cls is not None:
                cls.members[name] = Member(name, 'lambda', stmt, f)
            elif not prefix:
                m.functions[name] = f
                m.assigns[name] = value
        else:
            kind = 'alias' if isinstance(value, (ast.Name, ast.Attribute)) else 'value'
            if cls is not None:
                cls.members[name] = Member(name, kind, stmt)
                cls.members[name].value = value
            elif not prefix:
                m.assigns[name] = value

    def _scan_nested(self, m, fn, prefix):
        for node in ast.iter_child_nodes(fn):
            self._scan_nested_node(m, node, prefix)

    def _scan_nested_node(self, m, node, prefix):
        if isinstance(node, (ast.FunctionDef, ast.AsyncFunctionDef)):
            f = FuncInfo(m, prefix + node.name, node, None)
            self.functions[f.key] = f
            self._scan_nested(m, node, f.qualname + '.<locals>.')
        elif isinstance(node, ast.ClassDef):
            for s in node.body:
                self._scan_stmt(m, s, ClassInfo(m, node), prefix + node.name + '.')
        elif isinstance(node, ast.Lambda):
            return
        else:
            for sub in ast.iter_child_nodes(node):
                self._scan_nested_node(m, sub, prefix)

    # -- linking -------------------------------------------------------------

    def _link(self):
        for c in self.classes.values():
            for b in c.base_exprs:
                r = self.resolve_class(c.module, b)
                if r is not None:
                    c.bases.append(r)

    def module(self, short):
        m = self.modules.get(short)
        if m is None:
            raise AnalysisError(f'anchor module nutils.{short} not found under {self.pkgdir}')
        return m

    def resolve(self, module, name):
        '''Resolve a dotted name used in `module` to ('class', ClassInfo) / ('func', FuncInfo) /
        ('module', Module) / ('external', dotted) / None.'''
        if not name:
            return None
        parts = name.split('.')
        head = parts[0]
        cur = None
        if head in module.classes:
            cur = ('class', module.classes[head])
        elif head in module.functions:
            cur = ('func', module.functions[head])
        elif head in module.imports:
            cur = self._resolve_abs(module.imports[head])
        elif head in module.assigns and isinstance(module.assigns[head], (ast.Name, ast.Attribute)):
            tgt = dotted(module.assigns[head])
            if tgt and tgt != name:
                cur = self.resolve(module, tgt)
        if cur is None:
            return None
        for p in parts[1:]:
            kind, obj = cur
            if kind == 'module':
                if p in obj.classes:
                    cur = ('class', obj.classes[p])
                elif p in obj.functions:
                    cur = ('func', obj.functions[p])
                elif p in obj.imports:
                    cur = self._resolve_abs(obj.imports[p])
                elif obj.short + '.' + p in self.modules:
                    cur = ('module', self.modules[obj.short + '.' + p])
                elif p in obj.assigns and isinstance(obj.assigns[p], (ast.Name, ast.Attribute)):
                    cur = self.resolve(obj, dotted(obj.assigns[p]))
                else:
                    return None
            elif kind == 'class':
                found = self.lookup(obj, p)
                if found and found[1].func is not None:
                    cur = ('func', found[1].func)
                else:
                    return None
            elif kind == 'external':
                cur = ('external', obj + '.' + p)
            else:
                return None
            if cur is None:
                return None
        return cur

    def _resolve_abs(self, absname):
        pk = self.package
        if absname == pk:
            return ('module', self.modules.get('nutils')) if 'nutils' in self.modules else ('external', absname)
        if absname.startswith(pk + '.'):
            rest = absname[len(pk) + 1:]
            if rest in self.modules:
                return ('module', self.modules[rest])
            if '.' in rest:
                modname, attr = rest.rsplit('.', 1)
                if modname in self.modules:
                    m = self.modules[modname]
                    if attr in m.classes:
                        return ('class', m.classes[attr])
                    if attr in m.functions:
                        return ('func', m.functions[attr])
                    return None
            else:
                # from . import x  where x is defined in nutils/__init__ (rare)
                return None
        return ('external', absname)

    def resolve_class(self, module, name):
        r = self.resolve(module, name)
        if r and r[0] == 'class':
            return r[1]
        return None

    def cls(self, key):
        c = self.classes.get(key)
        if c is None:
            raise AnalysisError(f'anchor class {key} not found')
        return c

    def func(self, key):
        f = self.functions.get(key)
        if f is None:
            raise AnalysisError(f'anchor function {key} not found')
        return f

    def mro(self, c):
        if c.key in self._mro:
            return self._mro[c.key]
        self._mro[c.key] = [c]  # cycle guard
        seqs = [list(self.mro(b)) for b in c.bases] + [list(c.bases)]
        res = [c]
        seqs = [s for s in seqs if s]
        while seqs:
            for s in seqs:
                cand = s[0]
                if not any(cand in t[1:] for t in seqs):
                    break
            else:
                cand = seqs[0][0]  # inconsistent: fall back to first
            res.append(cand)
            seqs = [[x for x in s if x is not cand] for s in seqs]
            seqs = [s for s in seqs if s]
        self._mro[c.key] = res
        return res

    def lookup(self, c, name):
        '''(owner, Member) of attribute `name` through the MRO, else None.'''
        for k in self.mro(c):
            if name in k.members:
                return k, k.members[name]
        return None

    def issubclass(self, c, base):
        return base in self.mro(c)

    def subclasses(self, base, strict=False):
        out = [c for c in self.classes.values() if base in self.mro(c) and not (strict and c is base)]
        return sorted(out, key=lambda c: (c.module.short, c.node.lineno))

    def methods_named(self, name, module=None):
        out = []
        for c in self.classes.values():
            if module is not None and c.module.short != module:
                continue
            mem = c.members.get(name)
            if mem is not None:
                out.append((c, mem))
        return sorted(out, key=lambda cm: (cm[0].module.short, cm[0].node.lineno))

    def stats(self):
        return {'modules': len(self.modules), 'classes': len(self.classes), 'functions': len(self.functions),
                'lines': sum(m.source.count('\n') for m in self.modules.values())}

    def digest(self):
        h = hashlib.sha1()
        for k in sorted(self.modules):
            h.update(k.encode() + b'\0' + self.modules[k].sha1.encode())
        return h.hexdigest()
