'''Canonical forms of einsum subscript strings (numpy style 'ij,jk->ik' incl. ellipsis; nutils
style with upper-case group letters is treated the same way: every distinct character is an index).'''


def canon(fmt):
    '''Rename index letters by order of first appearance; keep ',', '->', '.' and spaces removed.'''
    fmt = fmt.replace(' ', '')
    m = {}
    out = []
    for ch in fmt:
        if ch in ',->.':
            out.append(ch)
            continue
        if ch not in m:
            m[ch] = chr(ord('a') + len(m)) if len(m) < 26 else chr(ord('A') + len(m) - 26)
        out.append(m[ch])
    return ''.join(out)


def split(fmt):
    fmt = fmt.replace(' ', '')
    if '->' in fmt:
        ins, out = fmt.split('->')
    else:
        ins, out = fmt, None
    return ins.split(','), out


def canon_operands(fmt, operands):
    '''Canonical form that is also invariant under reordering of the operands: operands are sorted
    by their text, indices renamed by first appearance in the sorted order + output.'''
    ins, out = split(fmt)
    if len(ins) != len(operands):
        return None
    pairs = sorted(zip(operands, ins), key=lambda p: (p[0], p[1]))
    s = ','.join(i for _, i in pairs) + ('->' + out if out is not None else '')
    return canon(s), tuple(o for o, _ in pairs)
