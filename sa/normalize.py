'''Behaviour-preserving normal forms of the parsed tree.

A structural rule that matches the spelling of a statement fires on a refactoring that only introduces a local
name for a subexpression, or moves three lines into a private helper.  Such an alarm is a false alarm, so the
checks decide an obligation on the source as written AND on normal forms of it; the obligation holds when it
holds in any one of them (every form is a rewriting of the same program that preserves behaviour under the
assumptions listed below, and a rule that passes certifies its clause for the program it was shown).

Forms (see `FORMS`):
  raw       the tree as parsed
  proj      single-assignment locals whose right-hand side is call-free (names, attributes, subscripts, constants,
            arithmetic, comparisons) are substituted into their uses, the assignment is dropped
  once      proj + single-assignment locals that are used exactly once (any right-hand side)
  all       every admissible single-assignment local
  +helpers  the same, after calls of small private helpers of the same class/module have been expanded at the
            call site (and the helper dropped when no other reference to it remains)

Admissible local `n = e` (statement D at position i of block B):
  * n is bound exactly once in the function, is no parameter, not global/nonlocal, not read in a nested def/lambda,
    not read before D in a loop, and every read of n sits in B[i+1:] (so D dominates it);
  * no name read by e is re-bound, deleted, mutated through a subscript/attribute store, an augmented assignment, a
    mutating method (append, sort, update, ...) or an `out=` argument between D and the last statement of B that reads n;
  * n itself is not mutated in those ways (substituting a constructor call for a mutated object would duplicate it);
  * e contains no yield/await/walrus, no call of an iterator/clock/IO primitive (next, iter, pop, read, time, ...), and a
    generator expression only when n is read once;
  * a right-hand side that contains a call is evaluated once (or consists of calls known to be free of effects: sorted, len,
    numpy.*, ...) and keeps its place in the order of evaluation: all reads of n sit in ONE statement S of
    B, only call-free assignments stand between D and S, n is not read inside a loop body or comprehension element of S, and when
    S is compound (if/for/with) its header reads n (so the call is still evaluated before the body is entered), and no other call
    of S finishes before the first read of n (`with fork(k), wrap(rng)` keeps `rng = range(k)` in front of the fork).  Ordering rules
    (lock before load, test before use) therefore see the same order in every form.
Assumption (stated in DESIGN.md): a call-free right-hand side (attribute/subscript chain) denotes the same value at D and at
the reads unless one of the mutations above is visible in the function; evaluation order inside one statement is not tracked.
`L = [comprehension]` directly followed by `L.sort()` is read as `L = sorted(generator)`; an accumulation loop directly after the
initialisation of its accumulator (`D = {}; for ..: D[k] = v`, `L = []; for ..: L.append(v)`, `n = 0; for ..: n += v`) is read as the comprehension, and a search loop
(`for t in i: if c: return True` followed by `return False`) as `return any(c for t in i)` (dually all()).
A complete if/elif/else chain whose branches each consist of one assignment to the same otherwise unbound name is
first rewritten into one assignment of a conditional expression; `a, b = x, y` with disjoint names is split.

Helper expansion: a call `self.h(args)` / `Cls.h(args)` / `h(args)` of a function whose name starts with an
underscore (not a dunder), defined in the same class (or module), without decorators other than staticmethod, without
defaults used, *args, **kwargs, nested defs, loops, try or with, whose parameters are not re-bound, is expanded when
  (a) the body is `return e` and the call is an expression: e with the parameters replaced by the arguments; or
  (b) the call is an expression statement and the body consists of statements without `return` (typically guards that
      raise): the statements with the parameters replaced.
Arguments must be names, attributes, constants or call-free expressions when the parameter is read more than once.
'''

import ast
import copy

from .astutil import walk_no_nested

FORMS = ('raw', 'names', 'canon', 'names+canon', 'names+vocab', 'vocab', 'vocab+proj', 'proj', 'once', 'all', 'helpers', 'vocab+proj+helpers', 'all+helpers', 'names+vocab+proj', 'names+all')

MUTATORS = {'append', 'extend', 'insert', 'remove', 'pop', 'popleft', 'popitem', 'clear', 'sort', 'reverse', 'update', 'add', 'discard',
            'setdefault', 'setflags', 'fill', 'resize', 'put', 'itemset', 'appendleft', 'write', 'send', 'close', '__setitem__',
            'difference_update', 'intersection_update', 'symmetric_difference_update', 'seek', 'truncate', 'flush', 'release', 'acquire'}
IMPURE_CALLEES = {'next', 'iter', 'pop', 'popleft', 'popitem', 'read', 'readline', 'readlines', 'recv', 'time', 'perf_counter', 'monotonic',
                  'input', 'fork', 'open', 'random', 'urandom', 'getpid', 'mkstemp', 'mkdtemp', 'count', 'send', 'write', 'wait', 'waitpid',
                  'setdefault', 'append', 'extend', 'update', 'add', 'remove', 'sort', 'acquire', 'release', 'accumulate', 'zip', 'map',
                  'filter', 'enumerate', 'reversed', 'chain', 'groupby', 'product', 'islice', 'tee', 'load', 'loads', 'dump', 'dumps', 'sleep', 'kill', 'seek', 'touch',
                  'mkdir', 'unlink', 'replay', 'lock', 'unlock'}
# zip/map/enumerate/... return one-shot iterators: substituting them into two reads would be wrong, into one read is fine (handled below)
PURE_CALLEES = {'sorted', 'len', 'abs', 'min', 'max', 'sum', 'tuple', 'list', 'set', 'frozenset', 'dict', 'str', 'int', 'float', 'bool', 'complex', 'isinstance',
                'issubclass', 'getattr', 'hasattr', 'type', 'repr', 'format', 'join', 'split', 'strip', 'startswith', 'endswith', 'get', 'keys', 'values', 'items',
                'index', 'all', 'any', 'divmod', 'round', 'range', 'hex', 'encode', 'decode', 'digest', 'hexdigest', 'lower', 'upper', 'replace'}
PURE_PREFIXES = ('numpy.', 'math.', 'builtins.', 'operator.', 'numbers.', 'fractions.')
ONE_SHOT = {'iter', 'zip', 'map', 'filter', 'enumerate', 'reversed', 'chain', 'groupby', 'product', 'islice', 'accumulate', 'count'}


def _own_nodes(fn):
    '''Nodes of the function's own scope (not nested defs/lambdas/classes; comprehensions included).'''
    for s in fn.body:
        yield from walk_no_nested(s)


def _root_name(node):
    while isinstance(node, (ast.Attribute, ast.Subscript, ast.Starred)):
        node = node.value
    return node.id if isinstance(node, ast.Name) else None


def _bindings(fn):
    '''name -> number of binding occurrences in the function's own scope; also names declared global/nonlocal.'''
    n = {}
    special = set()

    def bind(name):
        n[name] = n.get(name, 0) + 1
    a = fn.args
    for x in a.posonlyargs + a.args + a.kwonlyargs + ([a.vararg] if a.vararg else []) + ([a.kwarg] if a.kwarg else []):
        bind(x.arg)
    for node in _own_nodes(fn):
        if isinstance(node, ast.Name) and isinstance(node.ctx, (ast.Store, ast.Del)):
            bind(node.id)
        elif isinstance(node, (ast.FunctionDef, ast.AsyncFunctionDef, ast.ClassDef)):
            bind(node.name)
        elif isinstance(node, (ast.Import, ast.ImportFrom)):
            for al in node.names:
                bind((al.asname or al.name).split('.')[0])
        elif isinstance(node, ast.ExceptHandler) and node.name:
            bind(node.name)
        elif isinstance(node, (ast.Global, ast.Nonlocal)):
            special.update(node.names)
        elif isinstance(node, (ast.MatchAs, ast.MatchStar)) and node.name:
            bind(node.name)
        elif isinstance(node, ast.MatchMapping) and node.rest:
            bind(node.rest)
    return n, special


def _nested_reads(fn):
    out = set()
    for node in _own_nodes(fn):
        if isinstance(node, (ast.FunctionDef, ast.AsyncFunctionDef, ast.Lambda, ast.ClassDef)):
            for sub in ast.walk(node):
                if isinstance(sub, ast.Name):
                    out.add(sub.id)
    return out


def _mutated_names(stmts):
    '''Names that are (possibly) mutated or re-bound by the statements (own scope and nested).'''
    out = set()
    for s in stmts:
        for node in ast.walk(s):
            if isinstance(node, ast.Name) and isinstance(node.ctx, (ast.Store, ast.Del)):
                out.add(node.id)
            elif isinstance(node, (ast.Subscript, ast.Attribute)) and isinstance(node.ctx, (ast.Store, ast.Del)):
                r = _root_name(node)
                if r:
                    out.add(r)
            elif isinstance(node, ast.AugAssign):
                r = _root_name(node.target)
                if r:
                    out.add(r)
            elif isinstance(node, ast.Call):
                if isinstance(node.func, ast.Attribute) and node.func.attr in MUTATORS:
                    r = _root_name(node.func.value)
                    if r:
                        out.add(r)
                for kw in node.keywords:
                    if kw.arg == 'out':
                        for sub in ast.walk(kw.value):
                            if isinstance(sub, ast.Name):
                                out.add(sub.id)
            elif isinstance(node, (ast.For, ast.AsyncFor, ast.comprehension)):
                pass    # the targets are Store names, seen above
    return out


def _callee_last(call):
    f = call.func
    if isinstance(f, ast.Attribute):
        return f.attr
    if isinstance(f, ast.Name):
        return f.id
    return None


def _expr_class(e):
    '''('proj' | 'call' | 'oneshot' | None): None = never substitute.'''
    cls = 'proj'
    from .astutil import empty_container
    if empty_container(e):
        return None     # an empty container bound to a name is there to be filled (possibly by a callee)
    for node in ast.walk(e):
        if isinstance(node, (ast.Yield, ast.YieldFrom, ast.Await, ast.NamedExpr)):
            return None
        if isinstance(node, ast.GeneratorExp):
            cls = 'oneshot'
        if isinstance(node, ast.Call):
            last = _callee_last(node)
            if last in ONE_SHOT:
                cls = 'oneshot'
            elif last in IMPURE_CALLEES:
                return None
            elif cls == 'proj':
                cls = 'call'
        if isinstance(node, (ast.ListComp, ast.SetComp, ast.DictComp, ast.List, ast.Dict, ast.Set)) and cls == 'proj':
            cls = 'call'    # builds a fresh object
    return cls


def _free_names(e):
    bound = set()
    for node in ast.walk(e):
        if isinstance(node, ast.comprehension):
            for t in ast.walk(node.target):
                if isinstance(t, ast.Name):
                    bound.add(t.id)
        elif isinstance(node, ast.Lambda):
            a = node.args
            bound.update(x.arg for x in a.posonlyargs + a.args + a.kwonlyargs)
    return {n.id for n in ast.walk(e) if isinstance(n, ast.Name) and isinstance(n.ctx, ast.Load)} - bound, bound


class _Subst(ast.NodeTransformer):
    def __init__(self, mapping):
        self.mapping = mapping
        self.count = 0

    def visit_Name(self, node):
        if isinstance(node.ctx, ast.Load) and node.id in self.mapping:
            self.count += 1
            new = copy.deepcopy(self.mapping[node.id])
            for sub in ast.walk(new):
                if hasattr(sub, 'lineno') or isinstance(sub, (ast.expr, ast.stmt)):
                    ast.copy_location(sub, node)
            return new
        return node


def _blocks(fn):
    '''Every statement list of the function's own scope.'''
    todo = [fn.body]
    while todo:
        b = todo.pop()
        yield b
        for s in b:
            if isinstance(s, (ast.FunctionDef, ast.AsyncFunctionDef, ast.ClassDef)):
                continue
            for field in ('body', 'orelse', 'finalbody'):
                sub = getattr(s, field, None)
                if isinstance(sub, list) and sub and isinstance(sub[0], ast.stmt):
                    todo.append(sub)
            if isinstance(s, ast.Try):
                for h in s.handlers:
                    todo.append(h.body)
            if isinstance(s, ast.Match):
                for c in s.cases:
                    todo.append(c.body)


def _collapse_conditional_definitions(fn):
    changed = False
    counts, special = _bindings(fn)
    for b in _blocks(fn):
        for i, s in enumerate(b):
            if not isinstance(s, ast.If):
                continue
            branches, cur = [], s
            name = None
            ok = True
            while True:
                if len(cur.body) != 1 or not isinstance(cur.body[0], ast.Assign) or len(cur.body[0].targets) != 1 \
                        or not isinstance(cur.body[0].targets[0], ast.Name):
                    ok = False
                    break
                nm = cur.body[0].targets[0].id
                if name is None:
                    name = nm
                elif nm != name:
                    ok = False
                    break
                branches.append((cur.test, cur.body[0].value))
                if len(cur.orelse) == 1 and isinstance(cur.orelse[0], ast.If):
                    cur = cur.orelse[0]
                    continue
                if len(cur.orelse) == 1 and isinstance(cur.orelse[0], ast.Assign) and len(cur.orelse[0].targets) == 1 \
                        and isinstance(cur.orelse[0].targets[0], ast.Name) and cur.orelse[0].targets[0].id == name:
                    final = cur.orelse[0].value
                else:
                    ok = False
                break
            if not ok or name in special:
                continue    # (other bindings of the name do not matter: the chain as a whole is one conditional assignment)
            expr = final
            for test, val in reversed(branches):
                expr = ast.IfExp(test=test, body=val, orelse=expr)
            new = ast.Assign(targets=[ast.Name(id=name, ctx=ast.Store())], value=expr)
            ast.copy_location(new, s)
            ast.fix_missing_locations(new)
            b[i] = new
            counts[name] = 1
            changed = True
    return changed


def _split_tuple_assignments(fn):
    for b in _blocks(fn):
        i = 0
        while i < len(b):
            s = b[i]
            if isinstance(s, ast.Assign) and len(s.targets) == 1 and isinstance(s.targets[0], ast.Tuple) and isinstance(s.value, ast.Tuple) \
                    and len(s.targets[0].elts) == len(s.value.elts) and all(isinstance(t, ast.Name) for t in s.targets[0].elts):
                tn = {t.id for t in s.targets[0].elts}
                vn = {n.id for n in ast.walk(s.value) if isinstance(n, ast.Name)}
                if len(tn) == len(s.targets[0].elts) and not (tn & vn):
                    news = []
                    for t, v in zip(s.targets[0].elts, s.value.elts):
                        a = ast.Assign(targets=[t], value=v)
                        ast.copy_location(a, s)
                        news.append(a)
                    b[i:i + 1] = news
                    i += len(news)
                    continue
            i += 1


_VOCAB = None


def vocabulary():
    '''Identifiers that occur anywhere in the rule sources and oracles (code, strings, comments): a local name outside this
    set cannot be something a rule anchors on by name, so substituting it away gives the form closest to what the rules were
    written against, whatever its right-hand side is.'''
    global _VOCAB
    if _VOCAB is None:
        import os
        import re
        here = os.path.dirname(os.path.dirname(os.path.abspath(__file__)))
        words = set()
        for sub in ('rules', 'oracles'):
            d = os.path.join(here, sub)
            for fn in sorted(os.listdir(d)) if os.path.isdir(d) else ():
                if fn.endswith(('.py', '.json')):
                    with open(os.path.join(d, fn), encoding='utf-8') as f:
                        words.update(re.findall(r'[A-Za-z_][A-Za-z0-9_]*', f.read()))
        _VOCAB = words
    return _VOCAB


def _list_then_sort(fn):
    '''`L = [comprehension]` directly followed by `L.sort()` (no arguments) is `L = sorted(generator)`.'''
    for b in _blocks(fn):
        i = 0
        while i + 1 < len(b):
            s, t = b[i], b[i + 1]
            if isinstance(s, ast.Assign) and len(s.targets) == 1 and isinstance(s.targets[0], ast.Name) and isinstance(s.value, (ast.ListComp, ast.List)) \
                    and isinstance(t, ast.Expr) and isinstance(t.value, ast.Call) and isinstance(t.value.func, ast.Attribute) and t.value.func.attr == 'sort' \
                    and isinstance(t.value.func.value, ast.Name) and t.value.func.value.id == s.targets[0].id and not t.value.args and not t.value.keywords:
                arg = ast.GeneratorExp(elt=s.value.elt, generators=s.value.generators) if isinstance(s.value, ast.ListComp) else s.value
                s.value = ast.Call(func=ast.Name(id='sorted', ctx=ast.Load()), args=[arg], keywords=[])
                ast.copy_location(s.value, s)
                ast.fix_missing_locations(s)
                del b[i + 1]
            i += 1


def _loops_to_comprehensions(fn):
    '''An accumulation loop directly after the initialisation of its accumulator is the comprehension it spells out:
        D = {} ; for T in I: D[K] = V              ->  D = {K: V for T in I}
        L = [] ; for T in I: L.append(V)           ->  L = [V for T in I]          (also under one `if C:` -> `... if C`)
        N = 0  ; for T in I: N += V                ->  N = sum(V for T in I)       (also `if C: N += 1` -> sum(1 for T in I if C))
    provided the loop has no else/break/continue, its body is that single statement, and neither the iterable nor K, V, C read the accumulator.'''
    def reads(node, name):
        return any(isinstance(n, ast.Name) and n.id == name for n in ast.walk(node))
    for b in _blocks(fn):
        i = 0
        while i + 1 < len(b):
            init, lp = b[i], b[i + 1]
            i += 1
            if not (isinstance(init, ast.Assign) and len(init.targets) == 1 and isinstance(init.targets[0], ast.Name) and isinstance(lp, ast.For) and not lp.orelse and len(lp.body) == 1):
                continue
            acc = init.targets[0].id
            if reads(lp.iter, acc) or reads(lp.target, acc) or any(isinstance(n, (ast.Break, ast.Continue, ast.Return, ast.Yield)) for n in ast.walk(lp)):
                continue
            st, cond = lp.body[0], None
            if isinstance(st, ast.If) and not st.orelse and len(st.body) == 1 and not reads(st.test, acc):
                st, cond = st.body[0], st.test
            gen = ast.comprehension(target=lp.target, iter=lp.iter, ifs=[cond] if cond is not None else [], is_async=0)
            new = None
            v = init.value
            empty_dict = (isinstance(v, ast.Dict) and not v.keys) or (isinstance(v, ast.Call) and ast.unparse(v) == 'dict()')
            empty_list = (isinstance(v, ast.List) and not v.elts) or (isinstance(v, ast.Call) and ast.unparse(v) == 'list()')
            if empty_dict and cond is None and isinstance(st, ast.Assign) and len(st.targets) == 1 and isinstance(st.targets[0], ast.Subscript) \
                    and isinstance(st.targets[0].value, ast.Name) and st.targets[0].value.id == acc and not reads(st.targets[0].slice, acc) and not reads(st.value, acc):
                new = ast.DictComp(key=st.targets[0].slice, value=st.value, generators=[gen])
            elif empty_list and isinstance(st, ast.Expr) and isinstance(st.value, ast.Call) and isinstance(st.value.func, ast.Attribute) and st.value.func.attr == 'append' \
                    and isinstance(st.value.func.value, ast.Name) and st.value.func.value.id == acc and len(st.value.args) == 1 and not reads(st.value.args[0], acc):
                new = ast.ListComp(elt=st.value.args[0], generators=[gen])
            elif isinstance(v, ast.Constant) and v.value == 0 and not isinstance(v.value, bool) and isinstance(st, ast.AugAssign) and isinstance(st.op, ast.Add) \
                    and isinstance(st.target, ast.Name) and st.target.id == acc and not reads(st.value, acc):
                new = ast.Call(func=ast.Name(id='sum', ctx=ast.Load()), args=[ast.GeneratorExp(elt=st.value, generators=[gen])], keywords=[])
            if new is None:
                continue
            init.value = new
            ast.copy_location(new, init)
            ast.fix_missing_locations(init)
            del b[i]
            i -= 1


def _search_loops_to_quantifiers(fn):
    '''`for T in I: if C: return True` directly followed by `return False` is `return any(C for T in I)`; with False/True and a negated test it is all().'''
    for b in _blocks(fn):
        i = 0
        while i + 1 < len(b):
            lp, ret = b[i], b[i + 1]
            i += 1
            if not (isinstance(lp, ast.For) and not lp.orelse and len(lp.body) == 1 and isinstance(lp.body[0], ast.If) and not lp.body[0].orelse and len(lp.body[0].body) == 1
                    and isinstance(lp.body[0].body[0], ast.Return) and isinstance(ret, ast.Return)):
                continue
            inner, outer = lp.body[0].body[0].value, ret.value
            if not (isinstance(inner, ast.Constant) and isinstance(outer, ast.Constant) and isinstance(inner.value, bool) and isinstance(outer.value, bool) and inner.value != outer.value):
                continue
            cond = lp.body[0].test
            gen = ast.comprehension(target=lp.target, iter=lp.iter, ifs=[], is_async=0)
            if inner.value:     # found one -> True
                call = ast.Call(func=ast.Name(id='any', ctx=ast.Load()), args=[ast.GeneratorExp(elt=cond, generators=[gen])], keywords=[])
            else:               # found a counterexample -> False
                neg = cond.operand if isinstance(cond, ast.UnaryOp) and isinstance(cond.op, ast.Not) else ast.UnaryOp(op=ast.Not(), operand=cond)
                call = ast.Call(func=ast.Name(id='all', ctx=ast.Load()), args=[ast.GeneratorExp(elt=neg, generators=[gen])], keywords=[])
            new = ast.Return(value=call)
            ast.copy_location(new, lp)
            ast.fix_missing_locations(new)
            b[i - 1:i + 1] = [new]


CONSUMERS = {'sorted', 'sum', 'any', 'all', 'tuple', 'list', 'set', 'frozenset', 'max', 'min', 'dict'}


def _listcomp_arguments(fn):
    '''`sorted([x for ..])` is `sorted(x for ..)`: a list comprehension that is the only argument of a call that just consumes it is read as a generator.'''
    for n in _own_nodes(fn):
        if isinstance(n, ast.Call) and len(n.args) == 1 and not n.keywords and isinstance(n.args[0], ast.ListComp) and _callee_last(n) in CONSUMERS \
                and (isinstance(n.func, ast.Name) or ast.unparse(n.func).startswith(('builtins.', 'util.'))):
            lc = n.args[0]
            g = ast.GeneratorExp(elt=lc.elt, generators=lc.generators)
            ast.copy_location(g, lc)
            n.args[0] = g


def _newaxis_is_none(fn):
    '''numpy.newaxis is None.'''
    class T(ast.NodeTransformer):
        def visit_Attribute(self, n):
            self.generic_visit(n)
            if n.attr == 'newaxis' and isinstance(n.value, ast.Name) and n.value.id in ('numpy', 'np') and isinstance(n.ctx, ast.Load):
                return ast.copy_location(ast.Constant(value=None), n)
            return n
    fn.body = [T().visit(st) for st in fn.body]


def _counting_while_to_for(fn):
    '''`i = 0` directly followed by `while True: BODY; i += 1` (no continue in BODY, i not otherwise bound there) is `for i in itertools.count(): BODY`.'''
    for b in _blocks(fn):
        k = 0
        while k + 1 < len(b):
            init, lp = b[k], b[k + 1]
            k += 1
            if not (isinstance(init, ast.Assign) and len(init.targets) == 1 and isinstance(init.targets[0], ast.Name) and isinstance(init.value, ast.Constant) and init.value.value == 0
                    and isinstance(lp, ast.While) and isinstance(lp.test, ast.Constant) and lp.test.value is True and not lp.orelse and len(lp.body) >= 2):
                continue
            name = init.targets[0].id
            last = lp.body[-1]
            if not (isinstance(last, ast.AugAssign) and isinstance(last.op, ast.Add) and isinstance(last.target, ast.Name) and last.target.id == name
                    and isinstance(last.value, ast.Constant) and last.value.value == 1):
                continue
            rest = lp.body[:-1]
            if any(isinstance(n, ast.Continue) for st in rest for n in ast.walk(st)) or \
                    any(isinstance(n, ast.Name) and n.id == name and isinstance(n.ctx, (ast.Store, ast.Del)) for st in rest for n in ast.walk(st)):
                continue
            new = ast.For(target=ast.Name(id=name, ctx=ast.Store()), iter=ast.parse('itertools.count()', mode='eval').body, body=rest, orelse=[])
            ast.copy_location(new, lp)
            ast.fix_missing_locations(new)
            b[k - 1:k + 1] = [new]


def _inline_function(fn, flags):
    '''One fixpoint of alias substitution in the own scope of fn.  flags: subset of {'vocab', 'proj', 'once', 'all'}.'''
    _split_tuple_assignments(fn)
    _loops_to_comprehensions(fn)
    _search_loops_to_quantifiers(fn)
    _counting_while_to_for(fn)
    _listcomp_arguments(fn)
    _newaxis_is_none(fn)
    _list_then_sort(fn)
    while _collapse_conditional_definitions(fn):
        pass
    if not (flags - {'canon'}):
        return      # canonical spellings only, no substitution
    counts, special = _bindings(fn)     # invariant under the substitutions below (a substituted name disappears)
    nested = _nested_reads(fn)
    if not any(c == 1 for c in counts.values()):
        return
    for _ in range(200):
        done = False
        loads = None
        for b in _blocks(fn):
            for i, s in enumerate(b):
                if isinstance(s, ast.AnnAssign) and isinstance(s.target, ast.Name) and s.value is not None and s.simple:
                    name, value = s.target.id, s.value
                elif isinstance(s, ast.Assign) and len(s.targets) == 1 and isinstance(s.targets[0], ast.Name):
                    name, value = s.targets[0].id, s.value
                else:
                    continue
                if counts.get(name, 0) != 1 or name in special or name in nested:
                    continue
                kind = _expr_class(value)
                if kind is None:
                    continue
                rest = b[i + 1:]
                reads_rest = sum(1 for st in rest for n in ast.walk(st) if isinstance(n, ast.Name) and n.id == name and isinstance(n.ctx, ast.Load))
                if loads is None:
                    loads = {}
                    for n in _own_nodes(fn):
                        if isinstance(n, ast.Name) and isinstance(n.ctx, ast.Load):
                            loads[n.id] = loads.get(n.id, 0) + 1
                reads_all = loads.get(name, 0)
                if reads_rest == 0 or reads_rest != reads_all:
                    continue
                unknown = 'vocab' in flags and name not in vocabulary()
                if not ('all' in flags or unknown or ('proj' in flags and kind == 'proj') or ('once' in flags and reads_rest == 1)):
                    continue
                if kind == 'oneshot' and reads_rest != 1:
                    continue
                if kind != 'proj':
                    # a call is moved only where the order of evaluation relative to other statements is kept: all reads in ONE statement of the
                    # block, nothing but call-free assignments in between, evaluated once, and (compound statement) first read in the header
                    reading = [k for k, st in enumerate(rest) if _reads(st, name)]
                    if len(reading) != 1 or not all(_transparent(st) for st in rest[:reading[0]]):
                        continue
                    S = rest[reading[0]]
                    if reads_rest > 1 and not _all_pure(value):
                        continue    # evaluating it twice is only the same for functions known to be free of effects
                    hdr = _header_exprs(S)
                    if hdr is not None and not any(_reads(h, name) for h in hdr):
                        continue
                    if _read_in_repetition([S], name):
                        continue
                    if _call_completes_before_read(hdr if hdr is not None else [S], name):
                        continue    # e.g. `with fork(n), wrap(rng)`: rng = range(n) must stay in front of the fork
                free, bound = _free_names(value)
                lastread = max(k for k, st in enumerate(rest) if _reads(st, name))
                mutated = _mutated_names(rest[:lastread + 1])      # up to and including the last statement that reads n
                if name in mutated or free & mutated:
                    continue
                # comprehension targets in rest that shadow free names of value
                if _shadowed(rest, free, name):
                    continue
                sub = _Subst({name: value})
                for k in range(i + 1, len(b)):
                    b[k] = sub.visit(b[k])
                del b[i]
                if not b:
                    p = ast.Pass()
                    ast.copy_location(p, s)
                    b.append(p)
                done = True
                break
            if done:
                break
        if not done:
            _listcomp_arguments(fn)
            return


def _all_pure(e):
    for n in ast.walk(e):
        if isinstance(n, ast.Call):
            full = ast.unparse(n.func)
            if _callee_last(n) not in PURE_CALLEES and not full.startswith(PURE_PREFIXES):
                return False
            if any(k.arg == 'out' for k in n.keywords):
                return False
        elif isinstance(n, (ast.ListComp, ast.SetComp, ast.DictComp, ast.GeneratorExp)):
            pass
    return True


def _call_completes_before_read(exprs, name):
    '''Does some call finish (textually) before the first read of `name` in the given expressions/statement?  Then moving a call into the
    place of that read would change the order of the two.'''
    first = None
    for e in exprs:
        for n in ast.walk(e):
            if isinstance(n, ast.Name) and n.id == name and isinstance(n.ctx, ast.Load):
                pos = (n.lineno, n.col_offset)
                if first is None or pos < first:
                    first = pos
    if first is None:
        return False
    for e in exprs:
        for n in ast.walk(e):
            if isinstance(n, (ast.Call, ast.Yield, ast.YieldFrom, ast.Await)) and getattr(n, 'end_lineno', None) is not None and (n.end_lineno, n.end_col_offset) <= first:
                return True
    return False


def _reads(node, name):
    return any(isinstance(n, ast.Name) and n.id == name and isinstance(n.ctx, ast.Load) for n in ast.walk(node))


def _transparent(st):
    '''A statement across which a call may be moved: a call-free assignment to plain names.'''
    if isinstance(st, ast.Assign) and all(isinstance(t, ast.Name) for t in st.targets):
        return _expr_class(st.value) == 'proj'
    if isinstance(st, ast.AnnAssign) and isinstance(st.target, ast.Name):
        return st.value is None or _expr_class(st.value) == 'proj'
    return isinstance(st, ast.Pass)


def _header_exprs(st):
    '''The expressions evaluated on entry of a compound statement (None for a simple statement).'''
    if isinstance(st, ast.If):
        return [st.test]
    if isinstance(st, (ast.For, ast.AsyncFor)):
        return [st.iter]
    if isinstance(st, ast.While):
        return [st.test]
    if isinstance(st, (ast.With, ast.AsyncWith)):
        return [i.context_expr for i in st.items]
    if isinstance(st, ast.Match):
        return [st.subject]
    if isinstance(st, (ast.Try, ast.FunctionDef, ast.AsyncFunctionDef, ast.ClassDef)):
        return []
    return None


def _read_in_repetition(stmts, name):
    def has(node):
        return any(isinstance(n, ast.Name) and n.id == name and isinstance(n.ctx, ast.Load) for n in ast.walk(node))
    for s in stmts:
        for node in ast.walk(s):
            if isinstance(node, (ast.For, ast.AsyncFor)):
                if any(has(x) for x in node.body + node.orelse):
                    return True
            elif isinstance(node, ast.While):
                if has(node.test) or any(has(x) for x in node.body + node.orelse):
                    return True
            elif isinstance(node, (ast.ListComp, ast.SetComp, ast.GeneratorExp)):
                if has(node.elt) or any(has(i) for g in node.generators for i in g.ifs) or any(has(g.iter) for g in node.generators[1:]):
                    return True
            elif isinstance(node, ast.DictComp):
                if has(node.key) or has(node.value) or any(has(i) for g in node.generators for i in g.ifs):
                    return True
    return False


def _shadowed(stmts, free, name):
    for s in stmts:
        for node in ast.walk(s):
            if isinstance(node, (ast.ListComp, ast.SetComp, ast.GeneratorExp, ast.DictComp)):
                tn = {t.id for g in node.generators for t in ast.walk(g.target) if isinstance(t, ast.Name)}
                if tn & free and any(isinstance(n, ast.Name) and n.id == name for n in ast.walk(node)):
                    return True
    return False


# -- helper expansion ---------------------------------------------------------------------------------------------

def _helper_candidates(defs, private_only=True):
    '''name -> FunctionDef for expandable private helpers among the given defs.'''
    out = {}
    for d in defs:
        if not isinstance(d, ast.FunctionDef) or (private_only and not d.name.startswith('_')) or (d.name.startswith('__') and d.name.endswith('__')):
            continue
        decos = [ast.unparse(x) for x in d.decorator_list]
        if any(x not in ('staticmethod',) for x in decos):
            continue
        a = d.args
        if a.vararg or a.kwarg or a.kwonlyargs or a.posonlyargs or a.defaults:
            continue
        body = [s for s in d.body if not (isinstance(s, ast.Expr) and isinstance(s.value, ast.Constant) and isinstance(s.value.value, str))]
        if not body or len(body) > 15:
            continue
        if any(isinstance(n, (ast.AsyncFunctionDef, ast.ClassDef, ast.Yield, ast.YieldFrom, ast.Await, ast.Global, ast.Nonlocal))
               for s in body for n in ast.walk(s)):
            continue
        params = [x.arg for x in a.args]
        stored = {n.id for s in body for n in ast.walk(s) if isinstance(n, ast.Name) and isinstance(n.ctx, (ast.Store, ast.Del))}
        stored |= {n.name for s in body for n in ast.walk(s) if isinstance(n, ast.FunctionDef)}
        if stored & set(params):
            continue    # a parameter is re-bound: substitution of the argument would be wrong
        closures = [n for s in body for n in ast.walk(s) if isinstance(n, (ast.FunctionDef, ast.Lambda))]
        if closures:
            # closures of the helper move with its statements: allowed when a closure shadows nothing of the helper (its own parameters are
            # not names of the helper) and the helper is more than one returned expression
            if len(body) == 1:
                continue
            own = set()
            for c in closures:
                ca = c.args
                if ca.defaults or ca.kw_defaults:
                    own.add(None)
                own |= {x.arg for x in ca.posonlyargs + ca.args + ca.kwonlyargs + ([ca.vararg] if ca.vararg else []) + ([ca.kwarg] if ca.kwarg else [])}
            if None in own or own & (stored | set(params)):
                continue
        inner = {id(n) for c in closures if isinstance(c, ast.FunctionDef) for n in ast.walk(c) if n is not c}
        returns = [n for s in body for n in ast.walk(s) if isinstance(n, ast.Return) and id(n) not in inner]
        if len(body) == 1 and isinstance(body[0], ast.Return) and body[0].value is not None:
            out[d.name] = ('expr', d, params, body)
        elif not returns:
            out[d.name] = ('stmts', d, params, body)
        elif len(returns) == 1 and returns[0] is body[-1] and returns[0].value is not None:
            out[d.name] = ('block', d, params, body)    # statements, then one final `return e`
    return out


def _simple_arg(e):
    return all(not isinstance(n, (ast.Call, ast.Yield, ast.Await, ast.NamedExpr, ast.GeneratorExp, ast.ListComp, ast.SetComp, ast.DictComp, ast.Lambda))
               for n in ast.walk(e))


def _module_helpers(tree):
    """name -> (kind, def, params, body, owner class name or None) for expandable helpers whose name is defined exactly once in the module."""
    ndefs = {}
    for n in ast.walk(tree):
        if isinstance(n, (ast.FunctionDef, ast.AsyncFunctionDef)):
            ndefs[n.name] = ndefs.get(n.name, 0) + 1
        elif isinstance(n, (ast.Assign, ast.AnnAssign)):
            for t in (n.targets if isinstance(n, ast.Assign) else [n.target]):
                if isinstance(t, ast.Name):
                    ndefs[t.id] = ndefs.get(t.id, 0) + 1
                elif isinstance(t, ast.Attribute):
                    ndefs[t.attr] = ndefs.get(t.attr, 0) + 1
        elif isinstance(n, (ast.Import, ast.ImportFrom)):
            for al in n.names:
                nm = (al.asname or al.name).split('.')[0]
                ndefs[nm] = ndefs.get(nm, 0) + 1
        elif isinstance(n, ast.arg):
            ndefs[n.arg] = ndefs.get(n.arg, 0) + 1
    out = {}
    for name, (kind, d, params, body) in _helper_candidates(tree.body).items():
        if ndefs.get(name) == 1:
            out[name] = (kind, d, params, body, None)
    # closures: a function defined directly in the body of another function and called by name from that function or its other
    # closures (the name is unique in the module, so every such call refers to it)
    for f in ast.walk(tree):
        if isinstance(f, (ast.FunctionDef, ast.AsyncFunctionDef)):
            for name, (kind, d, params, body) in _helper_candidates(f.body, private_only=False).items():
                if ndefs.get(name) == 1 and not d.decorator_list and name not in out:
                    out[name] = (kind, d, params, body, None)
    for c in ast.walk(tree):
        if isinstance(c, ast.ClassDef):
            for name, (kind, d, params, body) in _helper_candidates(c.body).items():
                if ndefs.get(name) == 1:
                    out[name] = (kind, d, params, body, c.name)
    return out


def _ancestors(tree):
    """class name -> set of class names of the module it derives from (transitively, by simple base names), itself included."""
    bases = {}
    for c in ast.walk(tree):
        if isinstance(c, ast.ClassDef):
            bases[c.name] = {b.id for b in c.bases if isinstance(b, ast.Name)}
    anc = {}

    def up(n, seen=()):
        if n in anc:
            return anc[n]
        r = {n}
        for b in bases.get(n, ()):
            if b not in seen:
                r |= up(b, seen + (n,))
        anc[n] = r
        return r
    for n in bases:
        up(n)
    return anc


def _match_call(call, helpers, clsname, ancestors, hostbound):
    """(kind, def, mapping, body) when `call` is an expandable call of a helper from a function of class `clsname` (or None)."""
    f = call.func
    name = None
    selfarg = None
    if isinstance(f, ast.Name):
        name = f.id
        if name not in helpers or helpers[name][4] is not None:
            return None
    elif isinstance(f, ast.Attribute) and isinstance(f.value, ast.Name):
        name = f.attr
        if name not in helpers:
            return None
        owner = helpers[name][4]
        if owner is None:
            return None
        if f.value.id in ('self', 'cls') and clsname is not None and owner in ancestors.get(clsname, {clsname}):
            selfarg = f.value
        elif f.value.id != owner:
            return None
    else:
        return None
    if call.keywords or any(isinstance(a, ast.Starred) for a in call.args):
        return None
    kind, d, params, body, owner = helpers[name]
    args = list(call.args)
    if selfarg is not None and not any(ast.unparse(x) == 'staticmethod' for x in d.decorator_list):
        if not params or params[0] not in ('self', 'cls'):
            return None
        args = [selfarg] + args
    if len(args) != len(params):
        return None
    mapping = dict(zip(params, args))
    for p_, a in mapping.items():
        nreads = sum(1 for s in body for n in ast.walk(s) if isinstance(n, ast.Name) and n.id == p_ and isinstance(n.ctx, ast.Load))
        if nreads > 1 and not _simple_arg(a):
            return None
    free = {n.id for s in body for n in ast.walk(s) if isinstance(n, ast.Name)} - set(params)
    if free & hostbound:
        return None     # a module-level name of the helper body would be captured by a local of the host
    return kind, d, mapping, body


def _calls_any(fn, helpers):
    for n in ast.walk(fn):
        if isinstance(n, ast.Call):
            nm = n.func.attr if isinstance(n.func, ast.Attribute) else n.func.id if isinstance(n.func, ast.Name) else None
            if nm in helpers:
                return True
    return False


def _expand_helpers(tree, only=None, hosts=None):
    """Expand calls of private helpers (all, or those named in `only`) and drop a helper when no reference to it remains."""
    helpers = _module_helpers(tree)
    if only is not None:
        helpers = {k: v for k, v in helpers.items() if k in only}
    if not helpers:
        return
    ancestors = _ancestors(tree)
    used = set()

    def relocate(new, at):
        for sub in ast.walk(new):
            if isinstance(sub, (ast.expr, ast.stmt)):
                ast.copy_location(sub, at)

    def process(fn, clsname):
        if fn.name in helpers:
            return      # helpers are not expanded into each other (keeps the expansion finite)
        if hosts is not None and id(fn) not in hosts and not _calls_any(fn, helpers):
            return
        counts, _ = _bindings(fn)
        hostbound = set(counts)

        class Expr(ast.NodeTransformer):
            def visit_Call(self, node):
                self.generic_visit(node)
                m = _match_call(node, helpers, clsname, ancestors, hostbound)
                if m and m[0] == 'expr':
                    kind, d, mapping, body = m
                    new = _Subst(mapping).visit(copy.deepcopy(body[0].value))
                    relocate(new, node)
                    used.add(d.name)
                    return new
                return node

            def visit_FunctionDef(self, node):
                return node     # nested scopes are processed on their own

            visit_AsyncFunctionDef = visit_Lambda = visit_ClassDef = visit_FunctionDef

        for b in _blocks(fn):
            i = 0
            while i < len(b):
                s = b[i]
                call, targets, form = None, None, None
                if isinstance(s, ast.Expr) and isinstance(s.value, ast.Call):
                    call, form = s.value, 'expr-stmt'
                elif isinstance(s, ast.Assign) and len(s.targets) == 1 and isinstance(s.value, ast.Call):
                    call, targets, form = s.value, s.targets[0], 'assign'
                elif isinstance(s, ast.Return) and isinstance(s.value, ast.Call):
                    call, form = s.value, 'return'
                m = _match_call(call, helpers, clsname, ancestors, set()) if call is not None else None
                if m and (m[0] == 'stmts' and form == 'expr-stmt' or m[0] == 'block' and form in ('assign', 'return', 'expr-stmt')):
                    kind, d, mapping, body = m
                    tnames = {n.id for n in ast.walk(targets) if isinstance(n, ast.Name)} if targets is not None else set()
                    hlocals = {n.id for st in body for n in ast.walk(st) if isinstance(n, ast.Name) and isinstance(n.ctx, (ast.Store, ast.Del))}
                    hlocals |= {n.name for st in body for n in ast.walk(st) if isinstance(n, ast.FunctionDef)}
                    inclosure = {n.id for st in body for c_ in ast.walk(st) if isinstance(c_, (ast.FunctionDef, ast.Lambda)) for n in ast.walk(c_) if isinstance(n, ast.Name)}
                    if any(p_ in inclosure and not (isinstance(a_, ast.Name) and counts.get(a_.id, 0) <= 1) for p_, a_ in mapping.items()):
                        i += 1
                        continue    # an argument read inside a closure of the helper is evaluated later than at the call: only a name that is bound once denotes the same value then
                    cparams = {x.arg for st in body for c_ in ast.walk(st) if isinstance(c_, (ast.FunctionDef, ast.Lambda))
                               for x in c_.args.posonlyargs + c_.args.args + c_.args.kwonlyargs + ([c_.args.vararg] if c_.args.vararg else []) + ([c_.args.kwarg] if c_.args.kwarg else [])}
                    free = {n.id for st in body for n in ast.walk(st) if isinstance(n, ast.Name)} - set(mapping) - hlocals - cparams
                    if free & hostbound:
                        i += 1
                        continue    # a module-level name of the helper body would be captured by a local of the host
                    rename = {nm: nm + '__h' for nm in hlocals if nm in hostbound and nm not in tnames}
                    news = []
                    for st in body:
                        st2 = _Subst(mapping).visit(copy.deepcopy(st))
                        for sub in ast.walk(st2):
                            if isinstance(sub, ast.Name) and sub.id in rename:
                                sub.id = rename[sub.id]
                            elif isinstance(sub, ast.FunctionDef) and sub.name in rename:
                                sub.name = rename[sub.name]
                        relocate(st2, s)
                        news.append(st2)
                    if kind == 'block':
                        ret = news.pop()
                        if form == 'assign':
                            if ast.unparse(targets) != ast.unparse(ret.value) and ast.unparse(targets) != '(' + ast.unparse(ret.value) + ')':
                                a_ = ast.Assign(targets=[targets], value=ret.value)
                                relocate(a_, s)
                                ast.copy_location(a_, s)
                                news.append(a_)
                        elif form == 'return':
                            news.append(ret)
                        else:
                            e_ = ast.Expr(value=ret.value)
                            ast.copy_location(e_, s)
                            news.append(e_)
                    b[i:i + 1] = news or [ast.copy_location(ast.Pass(), s)]
                    used.add(d.name)
                    i += len(news) or 1
                    continue
                i += 1
        tr = Expr()
        fn.body = [tr.visit(s) for s in fn.body]

    def visit_scope(body, clsname):
        for d in body:
            if isinstance(d, (ast.FunctionDef, ast.AsyncFunctionDef)):
                process(d, clsname)
                for sub in ast.walk(d):
                    if sub is not d and isinstance(sub, (ast.FunctionDef, ast.AsyncFunctionDef)):
                        process(sub, clsname)
            elif isinstance(d, ast.ClassDef):
                visit_scope(d.body, d.name)
            elif isinstance(d, (ast.If, ast.Try)):
                visit_scope(d.body + d.orelse, clsname)
    visit_scope(tree.body, None)
    for name in used:
        refs = 0
        for n in ast.walk(tree):
            if (isinstance(n, ast.Attribute) and n.attr == name) or (isinstance(n, ast.Name) and n.id == name) \
                    or (isinstance(n, ast.Constant) and n.value == name):
                refs += 1
        if refs == 0:
            for owner in ast.walk(tree):
                body = getattr(owner, 'body', None)
                if isinstance(body, list) and any(isinstance(x, ast.FunctionDef) and x.name == name for x in body):
                    body[:] = [x for x in body if not (isinstance(x, ast.FunctionDef) and x.name == name)] or [ast.Pass()]


def _qualified(tree):
    """(qualname, FunctionDef) with the qualnames of sa.model (Class.method, f.<locals>.g)."""
    out = []

    def rec(node, prefix, in_func):
        for ch in ast.iter_child_nodes(node):
            if isinstance(ch, (ast.FunctionDef, ast.AsyncFunctionDef)):
                q = prefix + ch.name
                out.append((q, ch))
                rec(ch, q + '.<locals>.', True)
            elif isinstance(ch, ast.ClassDef):
                rec(ch, prefix + ch.name + '.', in_func)
            elif isinstance(ch, ast.Lambda):
                continue
            else:
                rec(ch, prefix, in_func)
    rec(tree, '', False)
    return out


def _rename_locals(fn, suffix='_r'):
    '''Alpha-renaming: every local of the function that is not a parameter, not global/nonlocal and not read in a nested scope gets a new name.
    Used to measure which rules depend on the NAME of a local (the thorough tier runs the rules on the renamed tree).'''
    counts, special = _bindings(fn)
    a = fn.args
    params_ = {x.arg for x in a.posonlyargs + a.args + a.kwonlyargs + ([a.vararg] if a.vararg else []) + ([a.kwarg] if a.kwarg else [])}
    nested = _nested_reads(fn)
    stored = set()
    for n in _own_nodes(fn):
        if isinstance(n, ast.Name) and isinstance(n.ctx, (ast.Store, ast.Del)):
            stored.add(n.id)
    names = {n for n in stored if n not in params_ and n not in special and n not in nested and not n.startswith('__') and n != '_'}
    if not names:
        return
    for n in _own_nodes(fn):
        if isinstance(n, ast.Name) and n.id in names:
            n.id = n.id + suffix
        elif isinstance(n, ast.ExceptHandler) and n.name in names:
            n.name = n.name + suffix


def local_order(fn):
    '''The renamable locals of a function in the order of their first binding (source position).'''
    counts, special = _bindings(fn)
    a = fn.args
    params_ = {x.arg for x in a.posonlyargs + a.args + a.kwonlyargs + ([a.vararg] if a.vararg else []) + ([a.kwarg] if a.kwarg else [])}
    nested = _nested_reads(fn)
    first = {}
    incomp = {id(t) for c in _own_nodes(fn) if isinstance(c, ast.comprehension) for t in ast.walk(c.target)}   # comprehension variables live in their own scope
    for n in _own_nodes(fn):
        nm, pos = None, None
        if isinstance(n, ast.Name) and isinstance(n.ctx, (ast.Store, ast.Del)) and id(n) not in incomp:
            nm, pos = n.id, (n.lineno, n.col_offset)
        elif isinstance(n, ast.ExceptHandler) and n.name:
            nm, pos = n.name, (n.lineno, n.col_offset)
        if nm is None or nm in params_ or nm in special or nm in nested or nm == '_' or nm.startswith('__'):
            continue
        if nm not in first or pos < first[nm]:
            first[nm] = pos
    return [k for k, _ in sorted(first.items(), key=lambda kv: kv[1])]


_REFNAMES = None


def reference_names():
    '''oracles/local_names.json: for every function of the anchored tree the names of its locals in binding order (tools/mk_local_names.py).'''
    global _REFNAMES
    if _REFNAMES is None:
        import json
        import os
        path = os.path.join(os.path.dirname(os.path.dirname(os.path.abspath(__file__))), 'oracles', 'local_names.json')
        try:
            with open(path) as f:
                _REFNAMES = json.load(f)
        except OSError:
            _REFNAMES = {}
    return _REFNAMES


def _parent_map(fn):
    par = {}
    for n in _own_nodes(fn):
        for c in ast.iter_child_nodes(n):
            par[id(c)] = n
    return par


def local_signatures(fn):
    '''[(name, signature)] of the renamable locals in binding order.  The signature says how the local is first bound - the kind of
    binding and its right-hand side / iterable with every local of the function masked - so that locals can be recognised after a renaming
    even when other locals were added or removed.'''
    names = local_order(fn)
    if not names:
        return []
    locs = set(names)
    par = _parent_map(fn)
    first = {}
    incomp = {id(t) for c in _own_nodes(fn) if isinstance(c, ast.comprehension) for t in ast.walk(c.target)}
    for n in _own_nodes(fn):
        if isinstance(n, ast.Name) and isinstance(n.ctx, (ast.Store, ast.Del)) and n.id in locs and id(n) not in incomp:
            pos = (n.lineno, n.col_offset)
            if n.id not in first or pos < first[n.id][0]:
                first[n.id] = (pos, n)
        elif isinstance(n, ast.ExceptHandler) and n.name in locs:
            pos = (n.lineno, n.col_offset)
            if n.name not in first or pos < first[n.name][0]:
                first[n.name] = (pos, n)

    def masked(e):
        e2 = copy.deepcopy(e)
        for x in ast.walk(e2):
            if isinstance(x, ast.Name) and x.id in locs:
                x.id = '_L'
        return ast.unparse(e2)

    out = []
    for nm in names:
        node = first[nm][1]
        if isinstance(node, ast.ExceptHandler):
            out.append((nm, 'exc:' + (ast.unparse(node.type) if node.type is not None else '')))
            continue
        # climb to the binding construct, remembering the position inside tuple targets
        path = []
        cur = node
        p = par.get(id(cur))
        while isinstance(p, (ast.Tuple, ast.List, ast.Starred)):
            if isinstance(p, (ast.Tuple, ast.List)):
                path.append(str([i for i, x in enumerate(p.elts) if x is cur][0]))
            cur = p
            p = par.get(id(cur))
        where = '[' + ','.join(reversed(path)) + ']' if path else ''
        if isinstance(p, ast.Assign):
            sig = 'asg' + where + ':' + masked(p.value)
        elif isinstance(p, ast.AnnAssign):
            sig = 'asg' + where + ':' + (masked(p.value) if p.value is not None else '')
        elif isinstance(p, ast.AugAssign):
            sig = 'aug' + where + ':' + masked(p.value)
        elif isinstance(p, (ast.For, ast.AsyncFor)):
            sig = 'for' + where + ':' + masked(p.iter)
        elif isinstance(p, ast.comprehension):
            sig = 'comp' + where + ':' + masked(p.iter)
        elif isinstance(p, ast.withitem):
            sig = 'with' + where + ':' + masked(p.context_expr)
        elif isinstance(p, ast.NamedExpr):
            sig = 'walrus:' + masked(p.value)
        else:
            sig = type(p).__name__ if p is not None else '?'
        out.append((nm, sig))
    return out


def _restore_names(fn, ref):
    '''Alpha-renaming towards the reference naming.  `ref` is the list of [name, signature] the function had in the anchored tree.  Locals are
    paired with reference locals position by position when the function has as many locals as the reference, otherwise by an order-preserving
    alignment of their binding signatures (so that added or removed temporaries do not shift the pairing).  A pair is renamed only when the new
    name would not capture a name the function reads from outside or another local that keeps its name.  Any consistent renaming of locals
    preserves behaviour, so the table only chooses WHICH renaming is tried.'''
    ref = [tuple(r) if isinstance(r, (list, tuple)) else (r, None) for r in ref]
    cur = local_signatures(fn)
    if not cur or not ref or [c[0] for c in cur] == [r[0] for r in ref]:
        return False
    pairs = []
    if any(r[1] is None for r in ref):     # a table without signatures: position by position
        if len(cur) != len(ref):
            return False
        pairs = list(zip([c[0] for c in cur], [r[0] for r in ref]))
    else:
        # order-preserving alignment of the binding signatures; between two aligned locals, gaps of equal length are paired position by position
        import difflib
        sm = difflib.SequenceMatcher(a=[c[1] for c in cur], b=[r[1] for r in ref], autojunk=False)
        pa = pb = 0
        for blk in sm.get_matching_blocks():
            if blk.a - pa == blk.b - pb:
                for k in range(blk.a - pa):
                    pairs.append((cur[pa + k][0], ref[pb + k][0]))
            for k in range(blk.size):
                pairs.append((cur[blk.a + k][0], ref[blk.b + k][0]))
            pa, pb = blk.a + blk.size, blk.b + blk.size
    mapping = {c: r for c, r in pairs if c != r}
    if not mapping:
        return False
    a = fn.args
    curnames = {c[0] for c in cur}
    outside = {n.id for n in _own_nodes(fn) if isinstance(n, ast.Name)} - curnames
    outside |= {x.arg for x in a.posonlyargs + a.args + a.kwonlyargs + ([a.vararg] if a.vararg else []) + ([a.kwarg] if a.kwarg else [])}
    keep = curnames - set(mapping)                      # locals that keep their name
    targets = list(mapping.values())
    mapping = {c: r for c, r in mapping.items() if r not in outside and r not in keep and targets.count(r) == 1}
    if not mapping:
        return False
    for n in _own_nodes(fn):
        if isinstance(n, ast.Name) and n.id in mapping:
            n.id = mapping[n.id]
        elif isinstance(n, ast.ExceptHandler) and n.name in mapping:
            n.name = mapping[n.name]
    return True


import re as _re
_CONST_NAME = _re.compile(r'^_[A-Z][A-Z0-9_]*$')


def _literal(v):
    if isinstance(v, ast.Constant):
        return v.value is not None and not isinstance(v.value, type(Ellipsis))
    if isinstance(v, ast.Tuple):
        return all(_literal(x) for x in v.elts)
    if isinstance(v, ast.UnaryOp) and isinstance(v.op, ast.USub):
        return _literal(v.operand)
    if isinstance(v, ast.Call) and isinstance(v.func, ast.Name) and v.func.id == 'frozenset' and len(v.args) == 1 and not v.keywords:
        return _literal(v.args[0]) or (isinstance(v.args[0], (ast.Set, ast.List)) and all(_literal(x) for x in v.args[0].elts))
    return False


def _propagate_module_constants(tree, known=()):
    '''A private module-level constant (`_UPPER_CASE = <literal>`, bound once, never declared global) that the anchored tree did not have is the
    literal it names: replacing a magic literal by such a constant is a pure respelling, so the literal is put back at every read inside functions
    that do not bind the name themselves.'''
    binds = {}
    for n in ast.walk(tree):
        if isinstance(n, ast.Name) and isinstance(n.ctx, (ast.Store, ast.Del)):
            binds[n.id] = binds.get(n.id, 0) + 1
        elif isinstance(n, (ast.Global, ast.Nonlocal)):
            for x in n.names:
                binds[x] = binds.get(x, 0) + 2
    consts = {}
    for s in tree.body:
        if isinstance(s, ast.Assign) and len(s.targets) == 1 and isinstance(s.targets[0], ast.Name):
            nm = s.targets[0].id
            if _CONST_NAME.match(nm) and binds.get(nm) == 1 and nm not in known and _literal(s.value):
                consts[nm] = s.value
    if not consts:
        return
    for f in ast.walk(tree):
        if isinstance(f, (ast.FunctionDef, ast.AsyncFunctionDef)):
            counts, _ = _bindings(f)
            usable = {k: v for k, v in consts.items() if k not in counts}
            if usable and any(isinstance(n, ast.Name) and n.id in usable for n in ast.walk(f)):
                sub = _Subst(usable)
                f.body = [sub.visit(st) for st in f.body]


def normalize(tree, form, source=None, filename='<unknown>', helpers=None, functions=None, module=None):
    '''A new tree in the given normal form (the argument is not modified).  `functions`: qualnames to rewrite (all when None);
    `helpers`: names of the private helpers whose calls may be expanded (all when None).'''
    if form == 'raw':
        return tree
    new = ast.parse(source, filename=filename) if source is not None else copy.deepcopy(tree)
    flags = set(form.split('+'))
    targets = [(q, n) for q, n in _qualified(new) if functions is None or q in functions or any(q.startswith(f + '.<locals>.') for f in functions)]
    if 'helpers' in flags:
        _expand_helpers(new, helpers, None if functions is None else {id(n) for _, n in targets})
    if 'rename' in flags:
        for q, node in targets:
            _rename_locals(node)
    wantnames = 'names' in flags
    ref = reference_names().get(module or '', {}) if wantnames else {}
    if flags - {'raw', 'rename', 'helpers'}:
        _propagate_module_constants(new, known=set(reference_names().get('__module_constants__', {}).get(module or '', ())))
    if wantnames:
        for q, node in targets:
            if q in ref:
                _restore_names(node, ref[q])
    flags -= {'helpers', 'raw', 'rename', 'names'}
    if flags:
        for q, node in targets:
            _inline_function(node, flags)
        if wantnames:   # once more: temporaries that were substituted away no longer shift the pairing
            for q, node in targets:
                if q in ref:
                    _restore_names(node, ref[q])
    ast.fix_missing_locations(new)
    return new
