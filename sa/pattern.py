'''Structural matching of expressions against patterns with metavariables.

A pattern is Python source in which a name that ends in an underscore and starts with a capital (`S_`, `N_`, `Arr_`) stands for
an arbitrary sub-expression; the same metavariable must stand for structurally equal sub-expressions everywhere.  Rules use this
instead of comparing the text of a statement with a frozen string, so the names a function gives to its locals do not matter.
'''

import ast
import re

_META = re.compile(r'^[A-Z][A-Za-z0-9]*_$')
_CACHE = {}


def _parse(pattern):
    p = _CACHE.get(pattern)
    if p is None:
        try:
            p = ast.parse(pattern, mode='eval').body
        except SyntaxError:
            p = ast.parse(pattern).body[0]      # a statement pattern
        _CACHE[pattern] = p
    return p


def _dump(n):
    return ast.dump(n).replace('ctx=Store()', 'ctx=Load()').replace('ctx=Del()', 'ctx=Load()')


def pmatch(pattern, node, binds=None):
    '''Bindings {metavariable: node} when `node` matches the pattern (source text or AST), else None.'''
    pat = _parse(pattern) if isinstance(pattern, str) else pattern
    binds = dict(binds or {})
    return binds if _m(pat, node, binds) else None


def _m(p, n, b):
    if isinstance(p, ast.Name) and _META.match(p.id):
        if p.id in b:
            return _dump(b[p.id]) == _dump(n)
        b[p.id] = n
        return True
    if type(p) is not type(n):
        return False
    for field in p._fields:
        if field == 'ctx':
            continue
        pv, nv = getattr(p, field, None), getattr(n, field, None)
        if isinstance(pv, list):
            if not isinstance(nv, list) or len(pv) != len(nv):
                return False
            for x, y in zip(pv, nv):
                if isinstance(x, ast.AST):
                    if not isinstance(y, ast.AST) or not _m(x, y, b):
                        return False
                elif x != y:
                    return False
        elif isinstance(pv, ast.AST):
            if not isinstance(nv, ast.AST) or not _m(pv, nv, b):
                return False
        elif pv != nv:
            if field in ('kind', 'type_comment'):
                continue
            return False
    return True


def pfind(pattern, root, binds=None):
    '''All (node, bindings) under root that match the pattern.'''
    out = []
    want_stmt = isinstance(_parse(pattern) if isinstance(pattern, str) else pattern, ast.stmt)
    for n in ast.walk(root):
        if isinstance(n, ast.stmt if want_stmt else ast.expr):
            r = pmatch(pattern, n, binds)
            if r is not None:
                out.append((n, r))
    return out
