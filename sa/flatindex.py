'''Abstract interpretation (polynomial value domain, no solver) of the small straight-line / loop fragments that compute FLAT (ravelled) indices, strides and lengths.

Values are sa.algebra.Poly (over index symbols i0.. and axis lengths s0..), Python ints and Python lists of those.  Supported:
assignment (names, tuple targets with one starred element), += and *=, `while <list>:` (until the list is empty), `for <targets> in
<iterable>:`, list.pop()/append(), slices with literal bounds, reversed/zip/tuple/list/len, util.product, itertools.accumulate(.., mul),
functools.reduce(operator.add, map(operator.mul, a, b)).  Anything else raises Unsupported (the caller turns that into ANALYSIS-ERROR,
never into a violation).'''

import ast

from sa.algebra import Poly, Unsupported
from sa.astutil import src, const


def row_major(indices, lengths):
    '''sum_k indices[k] * prod(lengths[k+1:])'''
    out = Poly.const(0)
    for k, i in enumerate(indices):
        t = i
        for s in lengths[k + 1:]:
            t = t * s
        out = out + t
    return out


def product(seq):
    out = Poly.const(1)
    for x in seq:
        out = out * x
    return out


def symbols(prefix, n):
    return [Poly.atom(f'{prefix}{k}') for k in range(n)]


class Inexact(Unsupported):
    '''a division that does not split a flat index into (rest, index of that axis)'''


def poly_divmod(p, n):
    """divmod of a flat index polynomial by an axis length: exact under the range assumption 0 <= i_k < s_k when the divisor is the
    single symbol s_k and the part of p that does not contain s_k is the single index i_k of that axis (or zero)."""
    if len(n.terms) != 1:
        raise Unsupported('divisor is not a single axis length')
    (mono, coef), = n.terms.items()
    if coef != 1 or len(mono) != 1 or mono[0][1] != 1 or not mono[0][0].startswith('s'):
        raise Unsupported('divisor is not a single axis length')
    sym = mono[0][0]
    q, r = {}, {}
    for k, v in p.terms.items():
        d = dict(k)
        if d.get(sym, 0) >= 1:
            d[sym] -= 1
            q[tuple(sorted((a, e) for a, e in d.items() if e != 0))] = v
        else:
            r[k] = v
    rem = Poly(r)
    want = Poly.atom('i' + sym[1:])
    if rem.terms and not rem == want:
        raise Inexact(f'dividing by {sym} leaves the remainder {rem!r}, which is not the index of that axis')
    return Poly(q), rem


class Exec:
    def __init__(self, env, binder=None, max_iter=16):
        self.env = dict(env)
        self.binder = binder or (lambda text: None)   # resolves attribute/subscript expressions the rule seeds, by source text
        self.max_iter = max_iter

    # -- expressions -----------------------------------------------------------
    def ev(self, e):
        seeded = self.binder(src(e))
        if seeded is not None:
            return list(seeded) if isinstance(seeded, list) else seeded
        if isinstance(e, ast.Name):
            if e.id not in self.env:
                raise Unsupported(f'unbound name {e.id}')
            return self.env[e.id]
        if isinstance(e, ast.Constant) and isinstance(e.value, int) and not isinstance(e.value, bool):
            return Poly.const(e.value)
        if isinstance(e, ast.UnaryOp) and isinstance(e.op, ast.USub):
            return -self.num(self.ev(e.operand))
        if isinstance(e, ast.BinOp) and isinstance(e.op, (ast.Add, ast.Sub, ast.Mult)):
            a, b = self.ev(e.left), self.ev(e.right)
            if isinstance(a, list) and isinstance(b, list) and isinstance(e.op, ast.Add):
                return a + b
            a, b = self.num(a), self.num(b)
            return a + b if isinstance(e.op, ast.Add) else a - b if isinstance(e.op, ast.Sub) else a * b
        if isinstance(e, (ast.Tuple, ast.List)):
            out = []
            for x in e.elts:
                if isinstance(x, ast.Starred):
                    out.extend(self.seq(self.ev(x.value)))
                else:
                    out.append(self.ev(x))
            return out
        if isinstance(e, ast.Subscript):
            base = self.seq(self.ev(e.value))
            if isinstance(e.slice, ast.Slice):
                return base[slice(self.lit(e.slice.lower), self.lit(e.slice.upper), self.lit(e.slice.step))]
            k = self.lit(e.slice)
            return base[k]
        if isinstance(e, ast.Call):
            f = src(e.func)
            if isinstance(e.func, ast.Attribute) and e.func.attr == 'pop' and not e.args:
                lst = self.ev(e.func.value)
                if not isinstance(lst, list) or not lst:
                    raise Unsupported('pop from a non-list or an empty list')
                return lst.pop()
            class _Lazy(list):
                def __getitem__(s_, k):
                    return self.ev(e.args[k])
            args = _Lazy(e.args)
            if f in ('tuple', 'list') and len(args) == 1:
                return list(self.seq(args[0]))
            if f == 'reversed' and len(args) == 1:
                return list(self.seq(args[0]))[::-1]
            if f == 'zip':
                return [list(t) for t in zip(*[self.seq(self.ev(a)) for a in e.args])]
            if f == 'enumerate' and len(args) == 1:
                return [[Poly.const(k), v] for k, v in enumerate(self.seq(args[0]))]
            if f == 'len' and len(args) == 1:
                return Poly.const(len(self.seq(args[0])))
            if f in ('util.product', 'numpy.prod', 'math.prod') and len(args) >= 1:
                return product(self.seq(args[0]))
            if f in ('itertools.accumulate', 'accumulate') and len(e.args) == 2 and src(e.args[1]) in ('operator.mul', 'mul'):
                acc, out = None, []
                for x in self.seq(args[0]):
                    acc = self.num(x) if acc is None else acc * self.num(x)
                    out.append(acc)
                return out
            if f in ('functools.reduce', 'reduce') and len(e.args) == 2 and src(e.args[0]) in ('operator.add', 'add'):
                out = None
                for x in self.seq(self.ev(e.args[1])):
                    out = self.num(x) if out is None else out + self.num(x)
                if out is None:
                    raise Unsupported('reduce of an empty sequence')
                return out
            if f == 'map' and len(e.args) == 3 and src(e.args[0]) in ('operator.mul', 'mul'):
                return [self.num(a) * self.num(b) for a, b in zip(self.seq(self.ev(e.args[1])), self.seq(self.ev(e.args[2])))]
            if f in ('divmod', 'builtins.divmod') and len(args) == 2:
                return list(poly_divmod(self.num(args[0]), self.num(args[1])))
            if f in ('sum', 'util.sum') and len(args) == 1:
                out = Poly.const(0)
                for x in self.seq(args[0]):
                    out = out + self.num(x)
                return out
        if isinstance(e, (ast.GeneratorExp, ast.ListComp)) and len(e.generators) == 1 and not e.generators[0].ifs:
            g = e.generators[0]
            out = []
            saved = dict(self.env)
            for item in self.seq(self.ev(g.iter)):
                self.bind(g.target, item)
                out.append(self.ev(e.elt))
            self.env = saved
            return out
        raise Unsupported(f'expression `{src(e)[:60]}`')

    def lit(self, e):
        if e is None:
            return None
        if isinstance(e, ast.UnaryOp) and isinstance(e.op, ast.USub):
            return -self.lit(e.operand)
        v = const(e)
        if not isinstance(v, int):
            v = self.ev(e)
            if isinstance(v, Poly) and v.is_const():
                return int(v.const_value())
            raise Unsupported(f'index `{src(e)}` is not a literal')
        return v

    @staticmethod
    def num(v):
        if isinstance(v, Poly):
            return v
        if isinstance(v, int):
            return Poly.const(v)
        raise Unsupported('a sequence where a number is needed')

    @staticmethod
    def seq(v):
        if isinstance(v, list):
            return v
        raise Unsupported('a number where a sequence is needed')

    # -- statements ------------------------------------------------------------
    def bind(self, target, value):
        if isinstance(target, ast.Name):
            self.env[target.id] = value
        elif isinstance(target, (ast.Tuple, ast.List)):
            vals = list(self.seq(value))
            star = [k for k, t in enumerate(target.elts) if isinstance(t, ast.Starred)]
            if not star:
                if len(vals) != len(target.elts):
                    raise Unsupported('unpacking length mismatch')
                for t, v in zip(target.elts, vals):
                    self.bind(t, v)
            else:
                k = star[0]
                after = len(target.elts) - k - 1
                if len(vals) < len(target.elts) - 1:
                    raise Unsupported('unpacking length mismatch')
                for t, v in zip(target.elts[:k], vals[:k]):
                    self.bind(t, v)
                self.bind(target.elts[k].value, vals[k:len(vals) - after])
                for t, v in zip(target.elts[k + 1:], vals[len(vals) - after:]):
                    self.bind(t, v)
        else:
            raise Unsupported(f'assignment target `{src(target)}`')

    def run(self, stmts):
        for s in stmts:
            if isinstance(s, ast.Assign) and len(s.targets) == 1 and isinstance(s.targets[0], ast.Subscript) and isinstance(s.targets[0].slice, ast.Slice):
                t = s.targets[0]
                lst = self.seq(self.ev(t.value))
                lst[slice(self.lit(t.slice.lower), self.lit(t.slice.upper), self.lit(t.slice.step))] = self.seq(self.ev(s.value))
            elif isinstance(s, ast.Assign) and len(s.targets) == 1:
                v = self.ev(s.value)
                self.bind(s.targets[0], list(v) if isinstance(v, list) else v)
            elif isinstance(s, ast.AugAssign) and isinstance(s.target, ast.Name) and isinstance(s.op, (ast.Add, ast.Mult, ast.Sub)):
                cur = self.num(self.ev(s.target))
                v = self.num(self.ev(s.value))
                self.env[s.target.id] = cur + v if isinstance(s.op, ast.Add) else cur * v if isinstance(s.op, ast.Mult) else cur - v
            elif isinstance(s, ast.While) and isinstance(s.test, ast.Name) and not s.orelse:
                n = 0
                while self.seq(self.ev(s.test)):
                    n += 1
                    if n > self.max_iter:
                        raise Unsupported('loop does not terminate within the budget')
                    self.run(s.body)
            elif isinstance(s, ast.For) and not s.orelse:
                for item in list(self.seq(self.ev(s.iter))):
                    self.bind(s.target, item)
                    self.run(s.body)
            elif isinstance(s, ast.Expr) and isinstance(s.value, ast.Call):
                f = s.value.func
                if isinstance(f, ast.Attribute) and f.attr == 'append' and len(s.value.args) == 1:
                    self.seq(self.ev(f.value)).append(self.ev(s.value.args[0]))
                elif isinstance(f, ast.Attribute) and f.attr == 'pop':
                    self.ev(s.value)
                else:
                    raise Unsupported(f'statement `{src(s)[:60]}`')
            else:
                raise Unsupported(f'statement `{src(s)[:60]}`')
        return self.env
