'''Abstract interpretation of array-valued function bodies over LABELLED SHAPES.

A value is a list of axis labels ('K', 'N', 'B', ... or '1' for a singleton).  The interpreter follows one function body for concrete
operand dimensions (tests on .ndim are decided, labels compare by name), applies NumPy's broadcasting (right aligned; labels must be
equal or '1'), subscripts (':', newaxis, Ellipsis, integers), reductions over an axis, transposes to/from the end and appended axes,
and returns the label list of the result together with the labels that were reduced.  It knows nothing about values: it decides on
which axis an implementation contracts and what shape comes out.  Unknown constructs raise Unsupported.'''

import ast

from sa.algebra import Unsupported
from sa.astutil import src


class ShapeError(Exception):
    pass


class Returned(Exception):
    def __init__(self, value):
        self.value = value


class Raised(Exception):
    pass


class Arr:
    def __init__(self, shape, reduced=(), dtype='float'):
        self.shape = list(shape)
        self.reduced = tuple(reduced)   # labels summed away so far (in order)
        self.dtype = dtype

    @property
    def ndim(self):
        return len(self.shape)

    def __repr__(self):
        return 'Arr(' + ','.join(self.shape) + ')'


class Obj:
    def __init__(self, **attrs):
        self.attrs = attrs


class Scal(Arr):
    """a 0-dimensional operand whose value is used as a length (the `length` of InsertAxis, the sizes of Unravel)"""

    def __init__(self, label):
        super().__init__([], dtype='int')
        self.label = label


def lab(x):
    return x.label if isinstance(x, Scal) else x if isinstance(x, str) else str(x)


def broadcast(a, b):
    out = []
    for k in range(1, max(a.ndim, b.ndim) + 1):
        x = a.shape[-k] if k <= a.ndim else '1'
        y = b.shape[-k] if k <= b.ndim else '1'
        if x == y or y == '1':
            out.append(x)
        elif x == '1':
            out.append(y)
        else:
            raise ShapeError(f'axis of length {x} is multiplied with an axis of length {y}')
    return Arr(out[::-1], a.reduced + b.reduced)


class ShapeExec:
    def __init__(self, env, impls=None, end=None, depth=0, on_wrapper=None):
        self.env = dict(env)
        self.on_wrapper = on_wrapper   # callback(call node, lowering target, [(operand value, lowered without points)], announced shape labels)
        self.impls = impls or {}     # 'numpy.sum' -> FunctionDef of the registered implementation (interpreted recursively)
        self.end = end               # FunctionDef of _Transpose._end (interpreted, not modelled, when given)
        self.depth = depth

    def sub(self, fn, args, kwargs=None):
        if self.depth > 6:
            raise Unsupported('recursion too deep')
        params = [a.arg for a in fn.args.args]
        defaults = fn.args.defaults
        env = {}
        for k, p_ in enumerate(params):
            if k < len(args):
                env[p_] = args[k]
            elif kwargs and p_ in kwargs:
                env[p_] = kwargs[p_]
            else:
                d = k - (len(params) - len(defaults))
                if d < 0:
                    raise Unsupported(f'missing argument {p_}')
                env[p_] = ShapeExec({}).ev(defaults[d])
        if fn.args.vararg:
            env[fn.args.vararg.arg] = list(args[len(params):])
        return ShapeExec(env, self.impls, self.end, self.depth + 1, self.on_wrapper).call(fn)

    def transpose_end(self, a, axes, invert):
        if self.end is None:
            axes = [self.norm(x, a.ndim) for x in axes]
            if len(set(axes)) != len(axes):
                raise ShapeError('duplicate axes in a transpose')
            if not invert:
                return Arr([l for k, l in enumerate(a.shape) if k not in axes] + [a.shape[k] for k in axes], a.reduced, a.dtype)
            n = a.ndim - len(axes)
            out = [None] * a.ndim
            for src_k, dst in zip(range(n, a.ndim), axes):
                out[dst] = a.shape[src_k]
            rest = iter(a.shape[:n])
            return Arr([x if x is not None else next(rest) for x in out], a.reduced, a.dtype)
        return self.sub(self.end, ['cls', a, list(axes), invert])

    def norm(self, axis, ndim):
        if not isinstance(axis, int):
            raise Unsupported('non-integer axis')
        if not -ndim <= axis < ndim:
            raise ShapeError(f'axis {axis} is out of range for {ndim} axes')
        return axis % ndim

    def reduce(self, a, axes):
        if isinstance(axes, int):
            axes = [axes]
        axes = sorted({self.norm(x, a.ndim) for x in axes})
        return Arr([l for k, l in enumerate(a.shape) if k not in axes], a.reduced + tuple(a.shape[k] for k in axes))

    def ev(self, e):
        if isinstance(e, ast.Name):
            if e.id in ('numpy', '_Transpose', 'Array', 'builtins', 'util', 'evaluable', 'numbers', 'functools', 'operator', 'numeric', 'itertools', '__implementations__'):
                return e.id
            if e.id == '_':
                return None
            if e.id in ('bool', 'int', 'float', 'complex', 'tuple', 'list', 'str'):
                return e.id
            if e.id not in self.env:
                raise Unsupported(f'unbound name {e.id}')
            return self.env[e.id]
        if isinstance(e, ast.Constant):
            return e.value
        if isinstance(e, ast.Starred):
            raise Unsupported('starred expression')
        if isinstance(e, ast.UnaryOp):
            v = self.ev(e.operand)
            if isinstance(e.op, ast.USub):
                return -v
            if isinstance(e.op, ast.Not):
                return not v
        if isinstance(e, ast.BoolOp):
            vals = [self.ev(v) for v in e.values]
            return all(vals) if isinstance(e.op, ast.And) else any(vals)
        if isinstance(e, ast.IfExp):
            return self.ev(e.body) if self.ev(e.test) else self.ev(e.orelse)
        if isinstance(e, ast.Compare) and len(e.ops) == 1 and not isinstance(e.ops[0], (ast.In, ast.NotIn, ast.Is, ast.IsNot)):
            a, b = self.ev(e.left), self.ev(e.comparators[0])
            op = e.ops[0]
            return {ast.Eq: a == b, ast.NotEq: a != b}.get(type(op)) if isinstance(op, (ast.Eq, ast.NotEq)) else \
                {ast.Lt: lambda: a < b, ast.LtE: lambda: a <= b, ast.Gt: lambda: a > b, ast.GtE: lambda: a >= b}[type(op)]()
        if isinstance(e, ast.Attribute):
            if src(e) == 'numpy.newaxis':
                return None
            v = self.ev(e.value)
            if isinstance(v, Obj):
                if e.attr not in v.attrs:
                    raise Unsupported(f'attribute `{src(e)}`')
                return v.attrs[e.attr]
            if isinstance(v, str) and isinstance(e.value, (ast.Name, ast.Attribute)) and not isinstance(v, Arr) and src(e.value).split('.')[0] in ('numpy', 'evaluable', 'numbers', 'functools', 'operator', 'numeric', 'itertools', 'util', '__implementations__'):
                return src(e)     # an opaque reference to a library object
            if isinstance(v, Arr) and e.attr == 'ndim':
                return v.ndim
            if isinstance(v, Arr) and e.attr == 'shape':
                return list(v.shape)
            if isinstance(v, Arr) and e.attr == 'dtype':
                return v.dtype
            raise Unsupported(f'attribute `{src(e)}`')
        if isinstance(e, (ast.Tuple, ast.List)):
            out = []
            for x in e.elts:
                if isinstance(x, ast.Starred):
                    out.extend(self.ev(x.value))
                else:
                    out.append(self.ev(x))
            return out
        if isinstance(e, ast.BinOp):
            a, b = self.ev(e.left), self.ev(e.right)
            if isinstance(a, Arr) and isinstance(b, Arr) and not isinstance(a, Scal) and not isinstance(b, Scal) and isinstance(e.op, (ast.Mult, ast.Add, ast.Sub)):
                return broadcast(a, b)
            if isinstance(a, int) and isinstance(b, int):
                if isinstance(e.op, (ast.Mod, ast.FloorDiv)):
                    if b == 0:
                        raise ShapeError('division by zero')
                    return a % b if isinstance(e.op, ast.Mod) else a // b
                if type(e.op) not in (ast.Add, ast.Sub, ast.Mult):
                    raise Unsupported(f'operation `{src(e)[:50]}`')
                return {ast.Add: a + b, ast.Sub: a - b, ast.Mult: a * b}[type(e.op)]
            if isinstance(a, list) and isinstance(b, list) and isinstance(e.op, ast.Add):
                return a + b
            if isinstance(e.op, ast.Mult) and all(isinstance(x, (str, int, Scal)) for x in (a, b)) and any(isinstance(x, (str, Scal)) for x in (a, b)):
                return '*'.join(sorted([lab(a), lab(b)]))
            raise Unsupported(f'operation `{src(e)[:50]}`')
        if isinstance(e, ast.Subscript):
            v = self.ev(e.value)
            if isinstance(v, list):
                if isinstance(e.slice, ast.Slice):
                    return v[slice(*(None if x is None else self.ev(x) for x in (e.slice.lower, e.slice.upper, e.slice.step)))]
                return v[self.ev(e.slice)]
            if isinstance(v, Arr):
                items = e.slice.elts if isinstance(e.slice, ast.Tuple) else [e.slice]
                vals = []
                for it in items:
                    if isinstance(it, ast.Slice):
                        if it.lower is not None or it.upper is not None or it.step is not None:
                            raise Unsupported('partial slice')
                        vals.append(':')
                    elif isinstance(it, ast.Constant) and it.value is Ellipsis:
                        vals.append('...')
                    else:
                        x = self.ev(it)
                        vals.append('new' if x is None else x)
                consumed = sum(1 for x in vals if x == ':' or isinstance(x, int))
                out, k = [], 0
                for x in vals:
                    if x == 'new':
                        out.append('1')
                    elif x == ':':
                        out.append(v.shape[k]); k += 1
                    elif x == '...':
                        n = v.ndim - consumed
                        out.extend(v.shape[k:k + n]); k += n
                    elif isinstance(x, int):
                        k += 1
                    else:
                        raise Unsupported('subscript item')
                out.extend(v.shape[k:])
                return Arr(out, v.reduced)
        if isinstance(e, ast.Call):
            f = src(e.func)
            args = [self.ev(a) for a in e.args if not isinstance(a, ast.Starred)]
            star = [x for a in e.args if isinstance(a, ast.Starred) for x in self.ev(a.value)]
            args += star
            if f in ('Array.cast', 'numpy.conjugate', 'numpy.asarray', '_WithoutPoints'):
                return args[0]
            if f == 'range':
                return list(range(*args))
            if f == 'len':
                return len(args[0])
            if f in ('numpy.sum', 'numpy.any', 'numpy.prod') and f in self.impls and self.depth < 6:
                kwargs = {k.arg: self.ev(k.value) for k in e.keywords}
                return self.sub(self.impls[f], args, kwargs)
            if f == '_contract' and '_contract' in self.impls:
                return self.sub(self.impls['_contract'], args)
            if f in ('numpy.sum', '_contract', 'numpy.any'):
                return self.reduce(args[0], args[1] if len(args) > 1 else list(range(args[0].ndim)))
            if isinstance(e.func, ast.Attribute) and e.func.attr == 'astype' and isinstance(self.ev(e.func.value), Arr):
                a = self.ev(e.func.value)
                return Arr(a.shape, a.reduced, src(e.args[0]))
            if isinstance(e.func, ast.Attribute) and e.func.attr in ('extend', 'append') and isinstance(e.func.value, ast.Name):
                lst = self.ev(e.func.value)
                (lst.extend if e.func.attr == 'extend' else lst.append)(self.ev(e.args[0]))
                return None
            if isinstance(e.func, ast.Attribute) and e.func.attr == 'sum' and f not in ('util.sum', 'numpy.sum', 'builtins.sum') and isinstance(self.ev(e.func.value), Arr):
                return self.reduce(self.ev(e.func.value), args[0] if args else list(range(self.ev(e.func.value).ndim)))
            if f == 'numpy.greater' and isinstance(args[0], Arr):
                return Arr(args[0].shape, args[0].reduced, 'bool')
            if f == 'numpy.ravel':
                a = args[0]
                return Arr(['*'.join(sorted(a.shape)) or '1'], a.reduced, a.dtype)
            if f == '_append_axes':
                return Arr(args[0].shape + list(args[1]), args[0].reduced)
            if f in ('_Transpose.to_end', '_Transpose.from_end'):
                return self.transpose_end(args[0], args[1:], f.endswith('from_end'))
            if f in ('_Transpose', 'cls') and len(args) == 2 and isinstance(args[0], Arr):
                a, axes = args[0], [x for x in args[1]]
                if sorted(axes) != list(range(a.ndim)):
                    raise ShapeError(f'_Transpose constructed with axes {axes} for {a.ndim} axes')
                return Arr([a.shape[k] for k in axes], a.reduced, a.dtype)
            if f == 'numeric.normdim' and len(args) == 2:
                return self.norm(args[1], args[0])
            if f in ('tuple', 'list', 'sorted', 'reversed'):
                v = list(args[0])
                return sorted(v) if f == 'sorted' else v[::-1] if f == 'reversed' else v
            if f == 'numpy.argsort':
                return [int(k) for k in sorted(range(len(args[0])), key=args[0].__getitem__)]
            if f == 'enumerate':
                start = next((self.ev(k.value) for k in e.keywords if k.arg == 'start'), args[1] if len(args) > 1 else 0)
                return [[start + k, v] for k, v in enumerate(args[0])]
            if f in ('all', 'any'):
                return (all if f == 'all' else any)(args[0])
            if f == 'isinstance':
                v, t = args[0], src(e.args[1])
                if t in ('int', 'numbers.Integral'):
                    return isinstance(v, int) and not isinstance(v, bool)
                if t == 'Array':
                    return isinstance(v, Arr)
                if t in ('tuple', 'list', '(tuple, list)', '(list, tuple)'):
                    return isinstance(v, list)
                raise Unsupported(f'isinstance(..., {t})')
            if f == '_Wrapper' or f == '_Wrapper.broadcasted_arrays':
                kw = {k.arg: k.value for k in e.keywords}
                if 'shape' in kw:
                    if self.on_wrapper is not None and f == '_Wrapper':
                        ops = [(args[1 + k], isinstance(a, ast.Call) and src(a.func) == '_WithoutPoints') for k, a in enumerate(e.args[1:]) if not isinstance(a, ast.Starred)]
                        self.on_wrapper(e, args[0], ops, [lab(x) for x in self.ev(kw['shape'])])
                    red = tuple(r for a in args[1:] if isinstance(a, Arr) for r in a.reduced)
                    first = next((a for a in args[1:] if isinstance(a, Arr)), None)
                    shp = self.ev(kw['shape'])
                    # an axis that the announced shape drops from the first operand was reduced by the wrapped node
                    dropped = tuple(l for l in (first.shape if first else []) if l not in shp)
                    return Arr(shp, red + dropped, src(kw['dtype']) if 'dtype' in kw and src(kw['dtype']) in ('bool', 'int', 'float', 'complex') else (first.dtype if first else 'float'))
                raise Unsupported('_Wrapper without an explicit shape')
            if f == 'insertaxis' and len(args) == 3:
                a = args[0]; k = self.norm(args[1], a.ndim + 1)
                return Arr(a.shape[:k] + [args[2] if isinstance(args[2], str) else str(args[2])] + a.shape[k:], a.reduced, a.dtype)
            if f == 'kronecker' and len(args) == 4:
                a = args[0]; k = self.norm(args[1], a.ndim + 1)
                return Arr(a.shape[:k] + [args[2] if isinstance(args[2], str) else f'#{args[2]}'] + a.shape[k:], a.reduced, a.dtype)
            if f in ('util.sum', 'util.product') and len(args) == 1:
                items = list(args[0])
                out = items[0]
                for it in items[1:]:
                    out = broadcast(out, it)
                return out
            if f == 'typecast_arrays' or f == 'broadcast_arrays':
                return list(args)
            if f in self.impls:
                kwargs = {k.arg: self.ev(k.value) for k in e.keywords}
                return self.sub(self.impls[f], args, kwargs)
            if f == 'ValueError':
                return 'ValueError'
            raise Unsupported(f'call `{src(e)[:50]}`')
        if isinstance(e, ast.JoinedStr):
            return 'text'
        if isinstance(e, (ast.GeneratorExp, ast.ListComp)) and len(e.generators) == 1:
            g = e.generators[0]
            out = []
            saved = dict(self.env)
            for item in self.ev(g.iter):
                self.bind(g.target, item)
                if all(self.ev(c) for c in g.ifs):
                    out.append(self.ev(e.elt))
            self.env = saved
            return out
        if isinstance(e, ast.Compare) and len(e.ops) == 1 and isinstance(e.ops[0], (ast.In, ast.NotIn, ast.Is, ast.IsNot)):
            a, b = self.ev(e.left), self.ev(e.comparators[0])
            r = {ast.In: lambda: a in b, ast.NotIn: lambda: a not in b, ast.Is: lambda: a is b, ast.IsNot: lambda: a is not b}[type(e.ops[0])]()
            return r
        raise Unsupported(f'expression `{src(e)[:50]}`')

    def run(self, stmts):
        for s in stmts:
            if isinstance(s, ast.Assign):
                v = self.ev(s.value)
                for t in s.targets:
                    self.bind(t, list(v) if isinstance(v, list) else v)
            elif isinstance(s, ast.For) and not s.orelse:
                for item in list(self.ev(s.iter)):
                    self.bind(s.target, item)
                    self.run(s.body)
            elif isinstance(s, ast.Expr) and isinstance(s.value, ast.Call):
                self.ev(s.value)
            elif isinstance(s, ast.If):
                self.run(s.body if self.ev(s.test) else s.orelse)
            elif isinstance(s, ast.Return):
                raise Returned(self.ev(s.value))
            elif isinstance(s, ast.Raise):
                raise Raised()
            elif isinstance(s, ast.Assert):
                if not self.ev(s.test):
                    raise ShapeError(f'assertion `{src(s.test)[:60]}` fails')
            elif isinstance(s, ast.Expr) and isinstance(s.value, ast.Constant):
                continue
            else:
                raise Unsupported(f'statement `{src(s)[:50]}`')

    def bind(self, target, value):
        if isinstance(target, ast.Name):
            self.env[target.id] = value
        elif isinstance(target, (ast.Tuple, ast.List)) and sum(isinstance(t, ast.Starred) for t in target.elts) == 1:
            vals = list(value)
            k = next(i for i, t in enumerate(target.elts) if isinstance(t, ast.Starred))
            after = len(target.elts) - k - 1
            if len(vals) < len(target.elts) - 1:
                raise Unsupported('unpacking length mismatch')
            for t, v in zip(target.elts[:k], vals[:k]):
                self.bind(t, v)
            self.bind(target.elts[k].value, vals[k:len(vals) - after])
            for t, v in zip(target.elts[k + 1:], vals[len(vals) - after:]):
                self.bind(t, v)
        elif isinstance(target, (ast.Tuple, ast.List)) and not any(isinstance(t, ast.Starred) for t in target.elts):
            vals = list(value)
            if len(vals) != len(target.elts):
                raise Unsupported('unpacking length mismatch')
            for t, v in zip(target.elts, vals):
                self.bind(t, v)
        elif isinstance(target, ast.Subscript) and isinstance(self.ev(target.value), list):
            lst = self.ev(target.value)
            lst[self.ev(target.slice)] = value
        else:
            raise Unsupported(f'assignment target `{src(target)}`')

    def call(self, fn):
        try:
            self.run(fn.body)
        except Returned as r:
            return r.value
        raise Unsupported('function falls off its end')
