'''Abstract interpretation of array-valued function bodies over LABELLED SHAPES.

A value is a list of axis labels ('K', 'N', 'B', ... or '1' for a singleton).  The interpreter follows one function body for concrete
operand dimensions (tests on .ndim are decided, labels compare by name), applies NumPy's broadcasting (right aligned; labels must be
equal or '1'), subscripts (':', newaxis, Ellipsis, integers), reductions over an axis, transposes to/from the end and appended axes,
and returns the label list of the result together with the labels that were reduced.  It knows nothing about values: it decides on
which axis an implementation contracts and what shape comes out.  Unknown constructs raise Unsupported.'''

import ast

from sa.algebra import Unsupported
from sa.astutil import src


class ShapeError(Exception):
    pass


class Returned(Exception):
    def __init__(self, value):
        self.value = value


class Raised(Exception):
    pass


class Arr:
    def __init__(self, shape, reduced=()):
        self.shape = list(shape)
        self.reduced = tuple(reduced)   # labels summed away so far (in order)

    @property
    def ndim(self):
        return len(self.shape)

    def __repr__(self):
        return 'Arr(' + ','.join(self.shape) + ')'


def broadcast(a, b):
    out = []
    for k in range(1, max(a.ndim, b.ndim) + 1):
        x = a.shape[-k] if k <= a.ndim else '1'
        y = b.shape[-k] if k <= b.ndim else '1'
        if x == y or y == '1':
            out.append(x)
        elif x == '1':
            out.append(y)
        else:
            raise ShapeError(f'axis of length {x} is multiplied with an axis of length {y}')
    return Arr(out[::-1], a.reduced + b.reduced)


class ShapeExec:
    def __init__(self, env):
        self.env = dict(env)

    def norm(self, axis, ndim):
        if not isinstance(axis, int):
            raise Unsupported('non-integer axis')
        if not -ndim <= axis < ndim:
            raise ShapeError(f'axis {axis} is out of range for {ndim} axes')
        return axis % ndim

    def reduce(self, a, axes):
        if isinstance(axes, int):
            axes = [axes]
        axes = sorted({self.norm(x, a.ndim) for x in axes})
        return Arr([l for k, l in enumerate(a.shape) if k not in axes], a.reduced + tuple(a.shape[k] for k in axes))

    def ev(self, e):
        if isinstance(e, ast.Name):
            if e.id in ('numpy', '_Transpose', 'Array', 'builtins', 'util'):
                return e.id
            if e.id == '_':
                return None
            if e.id not in self.env:
                raise Unsupported(f'unbound name {e.id}')
            return self.env[e.id]
        if isinstance(e, ast.Constant):
            return e.value
        if isinstance(e, ast.UnaryOp):
            v = self.ev(e.operand)
            if isinstance(e.op, ast.USub):
                return -v
            if isinstance(e.op, ast.Not):
                return not v
        if isinstance(e, ast.BoolOp):
            vals = [self.ev(v) for v in e.values]
            return all(vals) if isinstance(e.op, ast.And) else any(vals)
        if isinstance(e, ast.IfExp):
            return self.ev(e.body) if self.ev(e.test) else self.ev(e.orelse)
        if isinstance(e, ast.Compare) and len(e.ops) == 1:
            a, b = self.ev(e.left), self.ev(e.comparators[0])
            op = e.ops[0]
            return {ast.Eq: a == b, ast.NotEq: a != b}.get(type(op)) if isinstance(op, (ast.Eq, ast.NotEq)) else \
                {ast.Lt: lambda: a < b, ast.LtE: lambda: a <= b, ast.Gt: lambda: a > b, ast.GtE: lambda: a >= b}[type(op)]()
        if isinstance(e, ast.Attribute):
            if src(e) == 'numpy.newaxis':
                return None
            v = self.ev(e.value)
            if isinstance(v, Arr) and e.attr == 'ndim':
                return v.ndim
            if isinstance(v, Arr) and e.attr == 'shape':
                return list(v.shape)
            raise Unsupported(f'attribute `{src(e)}`')
        if isinstance(e, (ast.Tuple, ast.List)):
            out = []
            for x in e.elts:
                if isinstance(x, ast.Starred):
                    out.extend(self.ev(x.value))
                else:
                    out.append(self.ev(x))
            return out
        if isinstance(e, ast.BinOp):
            a, b = self.ev(e.left), self.ev(e.right)
            if isinstance(a, Arr) and isinstance(b, Arr) and isinstance(e.op, (ast.Mult, ast.Add, ast.Sub)):
                return broadcast(a, b)
            if isinstance(a, int) and isinstance(b, int):
                return {ast.Add: a + b, ast.Sub: a - b, ast.Mult: a * b}[type(e.op)]
            if isinstance(a, list) and isinstance(b, list) and isinstance(e.op, ast.Add):
                return a + b
            raise Unsupported(f'operation `{src(e)[:50]}`')
        if isinstance(e, ast.Subscript):
            v = self.ev(e.value)
            if isinstance(v, list):
                if isinstance(e.slice, ast.Slice):
                    return v[slice(*(None if x is None else self.ev(x) for x in (e.slice.lower, e.slice.upper, e.slice.step)))]
                return v[self.ev(e.slice)]
            if isinstance(v, Arr):
                items = e.slice.elts if isinstance(e.slice, ast.Tuple) else [e.slice]
                vals = []
                for it in items:
                    if isinstance(it, ast.Slice):
                        if it.lower is not None or it.upper is not None or it.step is not None:
                            raise Unsupported('partial slice')
                        vals.append(':')
                    elif isinstance(it, ast.Constant) and it.value is Ellipsis:
                        vals.append('...')
                    else:
                        x = self.ev(it)
                        vals.append('new' if x is None else x)
                consumed = sum(1 for x in vals if x == ':' or isinstance(x, int))
                out, k = [], 0
                for x in vals:
                    if x == 'new':
                        out.append('1')
                    elif x == ':':
                        out.append(v.shape[k]); k += 1
                    elif x == '...':
                        n = v.ndim - consumed
                        out.extend(v.shape[k:k + n]); k += n
                    elif isinstance(x, int):
                        k += 1
                    else:
                        raise Unsupported('subscript item')
                out.extend(v.shape[k:])
                return Arr(out, v.reduced)
        if isinstance(e, ast.Call):
            f = src(e.func)
            args = [self.ev(a) for a in e.args if not isinstance(a, ast.Starred)]
            star = [x for a in e.args if isinstance(a, ast.Starred) for x in self.ev(a.value)]
            args += star
            if f in ('Array.cast', 'numpy.conjugate', 'numpy.asarray'):
                return args[0]
            if f == 'range':
                return list(range(*args))
            if f == 'len':
                return len(args[0])
            if f in ('numpy.sum', '_contract', 'numpy.any'):
                return self.reduce(args[0], args[1] if len(args) > 1 else list(range(args[0].ndim)))
            if isinstance(e.func, ast.Attribute) and e.func.attr == 'sum':
                return self.reduce(self.ev(e.func.value), args[0] if args else list(range(self.ev(e.func.value).ndim)))
            if f == 'numpy.ravel':
                a = args[0]
                return Arr(['*'.join(a.shape) or '1'], a.reduced)
            if f == '_append_axes':
                return Arr(args[0].shape + list(args[1]), args[0].reduced)
            if f in ('_Transpose.to_end', '_Transpose.from_end'):
                a, axes = args[0], [self.norm(x, args[0].ndim) for x in args[1:]]
                if len(set(axes)) != len(axes):
                    raise ShapeError('duplicate axes in a transpose')
                if f.endswith('to_end'):
                    return Arr([l for k, l in enumerate(a.shape) if k not in axes] + [a.shape[k] for k in axes], a.reduced)
                n = a.ndim - len(axes)
                out = [None] * a.ndim
                for src_k, dst in zip(range(n, a.ndim), axes):
                    out[dst] = a.shape[src_k]
                rest = iter(a.shape[:n])
                return Arr([x if x is not None else next(rest) for x in out], a.reduced)
            if f == 'ValueError':
                return 'ValueError'
            raise Unsupported(f'call `{src(e)[:50]}`')
        if isinstance(e, ast.JoinedStr):
            return 'text'
        raise Unsupported(f'expression `{src(e)[:50]}`')

    def run(self, stmts):
        for s in stmts:
            if isinstance(s, ast.Assign) and len(s.targets) == 1 and isinstance(s.targets[0], ast.Name):
                self.env[s.targets[0].id] = self.ev(s.value)
            elif isinstance(s, ast.If):
                self.run(s.body if self.ev(s.test) else s.orelse)
            elif isinstance(s, ast.Return):
                raise Returned(self.ev(s.value))
            elif isinstance(s, ast.Raise):
                raise Raised()
            elif isinstance(s, ast.Assert):
                if not self.ev(s.test):
                    raise ShapeError(f'assertion `{src(s.test)[:60]}` fails')
            elif isinstance(s, ast.Expr) and isinstance(s.value, ast.Constant):
                continue
            else:
                raise Unsupported(f'statement `{src(s)[:50]}`')

    def call(self, fn):
        try:
            self.run(fn.body)
        except Returned as r:
            return r.value
        raise Unsupported('function falls off its end')
