'''Deciders over test expressions: three-valued NaN evaluation and an order closure.'''

import ast
import itertools

from .astutil import dotted, src, const, is_const

# ---------------------------------------------------------------------------
# NaN polarity: value of a test when designated operands are NaN (IEEE semantics)
# ---------------------------------------------------------------------------

_ORDERED = (ast.Lt, ast.LtE, ast.Gt, ast.GtE, ast.Eq)


def nan_eval(test, is_nan):
    '''Three-valued value of `test` when every sub-expression e with is_nan(e) is NaN.

    ordered comparisons and == with a NaN operand are False, != is True,
    isfinite(NaN) False, isnan(NaN) True; and/or/not are Kleene logic; anything else None.
    '''
    if isinstance(test, ast.Constant):
        return bool(test.value)
    if isinstance(test, ast.UnaryOp) and isinstance(test.op, ast.Not):
        v = nan_eval(test.operand, is_nan)
        return None if v is None else not v
    if isinstance(test, ast.BoolOp):
        vals = [nan_eval(v, is_nan) for v in test.values]
        if isinstance(test.op, ast.And):
            if any(v is False for v in vals):
                return False
            return True if all(v is True for v in vals) else None
        if any(v is True for v in vals):
            return True
        return False if all(v is False for v in vals) else None
    if isinstance(test, ast.Compare):
        operands = [test.left] + list(test.comparators)
        res = []
        for a, op, b in zip(operands, test.ops, operands[1:]):
            if nan_operand(a, is_nan) or nan_operand(b, is_nan):
                if isinstance(op, _ORDERED):
                    res.append(False)
                elif isinstance(op, ast.NotEq):
                    res.append(True)
                else:
                    res.append(None)
            else:
                res.append(None)
        if any(v is False for v in res):
            return False
        return True if all(v is True for v in res) else None
    if isinstance(test, ast.Call):
        name = dotted(test.func) or ''
        lastname = name.rsplit('.', 1)[-1]
        args = test.args
        if lastname in ('isfinite',) and args and nan_operand(args[0], is_nan):
            return False
        if lastname in ('isnan',) and args and nan_operand(args[0], is_nan):
            return True
        # numpy.isfinite(x).all() / .any()
        if isinstance(test.func, ast.Attribute) and test.func.attr in ('all', 'any') and isinstance(test.func.value, (ast.Call, ast.Compare, ast.UnaryOp, ast.BoolOp)):
            return nan_eval(test.func.value, is_nan)
        if lastname in ('all', 'any') and len(args) == 1:
            return nan_eval(args[0], is_nan)
        if lastname in ('greater', 'greater_equal', 'less', 'less_equal', 'equal') and len(args) >= 2 and (nan_operand(args[0], is_nan) or nan_operand(args[1], is_nan)):
            return False
        if lastname == 'not_equal' and len(args) >= 2 and (nan_operand(args[0], is_nan) or nan_operand(args[1], is_nan)):
            return True
    return None


def nan_operand(e, is_nan):
    '''Is the value of expression e NaN, given the NaN leaves?  Arithmetic propagates NaN;
    max()/min() builtins do NOT (their result depends on argument order) -> unknown -> False.'''
    if is_nan(e):
        return True
    if isinstance(e, ast.BinOp):
        return nan_operand(e.left, is_nan) or nan_operand(e.right, is_nan)
    if isinstance(e, ast.UnaryOp) and isinstance(e.op, (ast.USub, ast.UAdd)):
        return nan_operand(e.operand, is_nan)
    if isinstance(e, ast.Call):
        name = (dotted(e.func) or '').rsplit('.', 1)[-1]
        if name in ('abs', 'sqrt', 'float', 'log', 'log10', 'exp', 'absolute', 'square') and e.args:
            return nan_operand(e.args[0], is_nan)
    return False


# ---------------------------------------------------------------------------
# Abstract evaluation with a tiny value domain: 'nan', 'big' (finite, above every tolerance),
# 'pos' (a positive finite tolerance), numbers.  Generalises nan_eval.
# ---------------------------------------------------------------------------

def _cmp_abs(a, op, b):
    if a == 'nan' or b == 'nan':
        if isinstance(op, _ORDERED):
            return False
        if isinstance(op, ast.NotEq):
            return True
        return None
    if a is None or b is None:
        return None

    def rank(x):
        # ordering knowledge: returns (lo, hi) bounds in an extended scale, strictness folded in
        if x == 'big':
            return (1e300, 1e300)
        if x == 'pos':
            return (1e-300, 1e299)
        if isinstance(x, (int, float)) and not isinstance(x, bool):
            return (float(x), float(x))
        return None
    ra, rb = rank(a), rank(b)
    if ra is None or rb is None:
        return None
    lt = True if ra[1] < rb[0] else False if ra[0] >= rb[1] else None
    gt = True if ra[0] > rb[1] else False if ra[1] <= rb[0] else None
    eq = True if ra[0] == ra[1] == rb[0] == rb[1] else False if (ra[1] < rb[0] or ra[0] > rb[1]) else None
    if isinstance(op, ast.Lt):
        return lt
    if isinstance(op, ast.Gt):
        return gt
    if isinstance(op, ast.LtE):
        return None if gt is None else not gt
    if isinstance(op, ast.GtE):
        return None if lt is None else not lt
    if isinstance(op, ast.Eq):
        return eq
    if isinstance(op, ast.NotEq):
        return None if eq is None else not eq
    return None


def abs_value(e, absval):
    v = absval(e)
    if v is not None:
        return v
    c = const(e)
    if isinstance(c, (int, float)) and not isinstance(c, bool):
        return c
    if isinstance(e, ast.BinOp):
        a, b = abs_value(e.left, absval), abs_value(e.right, absval)
        if a == 'nan' or b == 'nan':
            return 'nan'
        return None
    if isinstance(e, ast.UnaryOp) and isinstance(e.op, (ast.USub, ast.UAdd)):
        return 'nan' if abs_value(e.operand, absval) == 'nan' else None
    if isinstance(e, ast.Call):
        name = (dotted(e.func) or '').rsplit('.', 1)[-1]
        if name in ('abs', 'sqrt', 'float', 'log', 'log10', 'exp', 'absolute', 'square') and e.args:
            return 'nan' if abs_value(e.args[0], absval) == 'nan' else None
    return None


def abs_eval(test, absval):
    """Three-valued value of `test` under the abstract valuation absval(expr) -> 'nan'|'big'|'pos'|number|'true'|'false'|None."""
    v = absval(test)
    if v == 'true':
        return True
    if v == 'false':
        return False
    if v == 'nan':
        return True  # bool(nan) is True
    if isinstance(test, ast.Constant):
        return bool(test.value)
    if isinstance(test, ast.UnaryOp) and isinstance(test.op, ast.Not):
        v = abs_eval(test.operand, absval)
        return None if v is None else not v
    if isinstance(test, ast.BoolOp):
        vals = [abs_eval(v, absval) for v in test.values]
        if isinstance(test.op, ast.And):
            if any(v is False for v in vals):
                return False
            return True if all(v is True for v in vals) else None
        if any(v is True for v in vals):
            return True
        return False if all(v is False for v in vals) else None
    if isinstance(test, ast.Compare):
        operands = [test.left] + list(test.comparators)
        res = [_cmp_abs(abs_value(a, absval), op, abs_value(b, absval)) for a, op, b in zip(operands, test.ops, operands[1:])]
        if any(v is False for v in res):
            return False
        return True if all(v is True for v in res) else None
    if isinstance(test, ast.Call):
        name = dotted(test.func) or ''
        lastname = name.rsplit('.', 1)[-1]
        args = test.args
        if lastname in ('isfinite', 'isnan') and args:
            v = abs_value(args[0], absval)
            if v == 'nan':
                return lastname == 'isnan'
            if v is not None:
                return lastname == 'isfinite'
            return None
        if isinstance(test.func, ast.Attribute) and test.func.attr in ('all', 'any') and not args:
            return abs_eval(test.func.value, absval)
        if lastname in ('all', 'any') and len(args) == 1:
            return abs_eval(args[0], absval)
        fn = {'greater': ast.Gt(), 'greater_equal': ast.GtE(), 'less': ast.Lt(), 'less_equal': ast.LtE(), 'equal': ast.Eq(), 'not_equal': ast.NotEq()}.get(lastname)
        if fn is not None and len(args) >= 2:
            return _cmp_abs(abs_value(args[0], absval), fn, abs_value(args[1], absval))
    v = absval(test)
    if v == 'true':
        return True
    if v == 'false':
        return False
    return None


# ---------------------------------------------------------------------------
# Order closure: prove a required inequality from a conjunction of atomic facts
# ---------------------------------------------------------------------------

class Order:
    '''Facts a<b, a<=b, a==b over symbolic terms (strings); numeric constants are ordered
    implicitly.  `implies(a, op, b)` by transitive closure with strictness tracking.'''

    def __init__(self):
        self.le = {}    # (a, b) -> strict(bool) for a <= b / a < b
        self.terms = set()

    def _add(self, a, b, strict):
        self.terms.update((a, b))
        cur = self.le.get((a, b))
        if cur is None or (strict and not cur):
            self.le[(a, b)] = strict

    def add(self, a, op, b):
        if op == '<':
            self._add(a, b, True)
        elif op == '<=':
            self._add(a, b, False)
        elif op == '>':
            self._add(b, a, True)
        elif op == '>=':
            self._add(b, a, False)
        elif op == '==':
            self._add(a, b, False)
            self._add(b, a, False)
        else:
            raise ValueError(op)

    @staticmethod
    def _num(t):
        try:
            return float(t)
        except (TypeError, ValueError):
            if t in ('inf', 'float("inf")', "float('inf')", 'numpy.inf'):
                return float('inf')
            if t in ('-inf', '-float("inf")', "-float('inf')", '-numpy.inf'):
                return float('-inf')
            return None

    def close(self):
        nums = [(t, self._num(t)) for t in self.terms]
        nums = [(t, v) for t, v in nums if v is not None]
        for (a, va), (b, vb) in itertools.permutations(nums, 2):
            if va < vb:
                self._add(a, b, True)
            elif va == vb:
                self._add(a, b, False)
        terms = sorted(self.terms)
        le = dict(self.le)
        for k in terms:
            for i in terms:
                ik = le.get((i, k))
                if ik is None:
                    continue
                for j in terms:
                    kj = le.get((k, j))
                    if kj is None:
                        continue
                    s = ik or kj
                    cur = le.get((i, j))
                    if cur is None or (s and not cur):
                        le[(i, j)] = s
        self.closed = le
        return self

    def implies(self, a, op, b):
        self.terms.update((a, b))
        self.close()
        le = self.closed
        if a == b and op in ('<=', '>=', '=='):
            return True
        if op == '<':
            return le.get((a, b)) is True
        if op == '<=':
            return (a, b) in le
        if op == '>':
            return le.get((b, a)) is True
        if op == '>=':
            return (b, a) in le
        if op == '==':
            return (a, b) in le and (b, a) in le
        raise ValueError(op)

    def inconsistent(self):
        self.close()
        return any(self.closed.get((t, t)) is True for t in self.terms)


_CMP = {ast.Lt: '<', ast.LtE: '<=', ast.Gt: '>', ast.GtE: '>=', ast.Eq: '=='}
_NEG = {'<': '>=', '<=': '>', '>': '<=', '>=': '<', '==': '!=', '!=': '=='}
_NPFUNC = {'greater': '>', 'greater_equal': '>=', 'less': '<', 'less_equal': '<=', 'equal': '=='}


def atoms_of(test, outcome=True, subst=None):
    '''Atomic order facts (a, op, b) that certainly hold when `test` evaluates to `outcome`.

    Conjunctions are decomposed when outcome is True, disjunctions when False; anything else
    contributes nothing (sound: fewer facts).  Terms are normalised source text after applying
    the alias substitution `subst` (dict name -> replacement text).'''
    out = []

    def term(e):
        return term_text(e, subst)

    def rec(t, val):
        if isinstance(t, ast.UnaryOp) and isinstance(t.op, ast.Not):
            rec(t.operand, not val)
        elif isinstance(t, ast.BoolOp):
            if isinstance(t.op, ast.And) and val:
                for v in t.values:
                    rec(v, True)
            elif isinstance(t.op, ast.Or) and not val:
                for v in t.values:
                    rec(v, False)
        elif isinstance(t, ast.Compare):
            operands = [t.left] + list(t.comparators)
            pairs = list(zip(operands, t.ops, operands[1:]))
            if val:
                for a, op, b in pairs:
                    o = _CMP.get(type(op))
                    if o:
                        out.append((term(a), o, term(b)))
            elif len(pairs) == 1:
                a, op, b = pairs[0]
                o = _CMP.get(type(op))
                if o and _NEG[o] != '!=':
                    out.append((term(a), _NEG[o], term(b)))
                elif isinstance(op, ast.NotEq):
                    out.append((term(a), '==', term(b)))
        elif isinstance(t, ast.Call):
            name = (dotted(t.func) or '').rsplit('.', 1)[-1]
            if name in _NPFUNC and len(t.args) == 2:
                o = _NPFUNC[name] if val else _NEG[_NPFUNC[name]]
                if o != '!=':
                    out.append((term(t.args[0]), o, term(t.args[1])))
    rec(test, outcome)
    return out


def term_text(e, subst=None):
    if subst:
        e = _Subst(subst).visit(_copy(e))
    v = const(e)
    if isinstance(v, (int, float)) and not isinstance(v, bool):
        return repr(float(v)) if isinstance(v, float) and v != int(v) else str(int(v)) if v == int(v) and abs(v) != float('inf') else repr(v)
    return src(e)


def _copy(e):
    return ast.parse(src(e), mode='eval').body


class _Subst(ast.NodeTransformer):
    def __init__(self, subst):
        self.subst = subst

    def visit_Name(self, node):
        if isinstance(node.ctx, ast.Load) and node.id in self.subst:
            return ast.parse(self.subst[node.id], mode='eval').body
        return node
