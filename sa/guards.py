'''Facts that hold on every path reaching a target statement (guard dominance).

Built on the path enumerator: a `cond` event with outcome o on test t contributes the atomic
facts obtained by decomposing t (and/or/not); the facts at a target are the intersection over
all paths that reach it.  A fact is (normalised text of the atom, truth value).
'''

import ast

from . import AnalysisError
from .astutil import src
from .paths import PathEnumerator, Event


def decompose(test, outcome):
    '''Atomic (node, truth) pairs certainly implied by `test` evaluating to `outcome`.'''
    out = []

    def rec(t, val):
        if isinstance(t, ast.UnaryOp) and isinstance(t.op, ast.Not):
            rec(t.operand, not val)
        elif isinstance(t, ast.BoolOp) and ((isinstance(t.op, ast.And) and val) or (isinstance(t.op, ast.Or) and not val)):
            for v in t.values:
                rec(v, val)
        elif isinstance(t, ast.Compare) and len(t.ops) > 1 and val:
            operands = [t.left] + list(t.comparators)
            for a, op, b in zip(operands, t.ops, operands[1:]):
                c = ast.Compare(left=a, ops=[op], comparators=[b])
                out.append((c, True))
        else:
            out.append((t, val))
    rec(test, outcome)
    return out


class FactsAt:
    def __init__(self, npaths, facts, raising):
        self.npaths = npaths
        self.facts = facts          # dict text -> (node, truth)
        self.raising = raising      # dict text -> exception name raised when the guard fails (if it is a guard)

    def true_atoms(self):
        return [n for n, v in self.facts.values() if v]

    def false_atoms(self):
        return [n for n, v in self.facts.values() if not v]


def facts_at(fn, is_target, unroll=1, eval_test=None, assert_forks=False, stop_at_target=True):
    '''Facts holding whenever control reaches a statement s with is_target(s).'''
    def on_stmt(s, st):
        real = getattr(s, '_owner', s)
        if is_target(real) or is_target(s):
            return (Event('target', s),)
        return ()
    pe = PathEnumerator(fn, on_stmt=on_stmt, unroll=unroll, eval_test=eval_test, assert_forks=assert_forks)
    paths = pe.paths()
    common = None
    n = 0
    for p in paths:
        idx = p.index(lambda e: e.kind == 'target')
        if idx < 0:
            continue
        n += 1
        facts = {}
        killed = set()
        for e in p.events[:idx]:
            if e.kind == 'cond':
                for node, val in decompose(e.node, e.data[0]):
                    facts[src(node) + ('' if val else ' [False]')] = (node, val)
        common = facts if common is None else {k: v for k, v in common.items() if k in facts}
    if n == 0:
        raise AnalysisError(f'target statement not reached on any path of {getattr(fn, "name", "<lambda>")}')
    # which guards raise what
    raising = {}
    for s in ast.walk(fn):
        if isinstance(s, ast.If):
            exc = None
            for b in s.body:
                if isinstance(b, ast.Raise) and b.exc is not None:
                    e = b.exc.func if isinstance(b.exc, ast.Call) else b.exc
                    exc = src(e)
            if exc:
                for node, val in decompose(s.test, False):
                    raising[src(node) + ('' if val else ' [False]')] = exc
    return FactsAt(n, common or {}, raising)


# -- idiom recognisers over atomic facts -------------------------------------

def strip_all(node):
    '''e for all(e) / numpy.all(e) / (e).all() ; else None.'''
    if isinstance(node, ast.Call):
        if isinstance(node.func, ast.Attribute) and node.func.attr == 'all' and not node.args:
            return node.func.value
        name = src(node.func)
        if name in ('all', 'numpy.all', 'builtins.all') and len(node.args) == 1:
            return node.args[0]
    return None


_CMPTXT = {ast.Lt: '<', ast.LtE: '<=', ast.Gt: '>', ast.GtE: '>=', ast.Eq: '==', ast.NotEq: '!=', ast.In: 'in', ast.NotIn: 'not in', ast.Is: 'is', ast.IsNot: 'is not'}
_FLIP = {'<': '>', '<=': '>=', '>': '<', '>=': '<=', '==': '==', '!=': '!='}
_NPF = {'greater': '>', 'greater_equal': '>=', 'less': '<', 'less_equal': '<=', 'equal': '==', 'not_equal': '!='}
_NEGATE = {'<': '>=', '<=': '>', '>': '<=', '>=': '<', '==': '!=', '!=': '=='}


def as_compare(node, truth=True):
    '''(lhs_text, op, rhs_text) for a single comparison atom (also numpy.greater(a,b) etc.), honouring truth.'''
    if isinstance(node, ast.Compare) and len(node.ops) == 1:
        op = _CMPTXT.get(type(node.ops[0]))
        a, b = src(node.left), src(node.comparators[0])
    elif isinstance(node, ast.Call) and src(node.func).rsplit('.', 1)[-1] in _NPF and len(node.args) >= 2:
        op = _NPF[src(node.func).rsplit('.', 1)[-1]]
        a, b = src(node.args[0]), src(node.args[1])
    else:
        return None
    if op is None:
        return None
    if not truth:
        if op not in _NEGATE:
            return None
        op = _NEGATE[op]
    return a, op, b


def holds_compare(facts, lhs, op, rhs, elementwise=False):
    '''Is `lhs op rhs` (or its mirror) among the facts?  With elementwise=True the fact must be all(...) of it.'''
    for node, val in facts.facts.values():
        n = node
        if elementwise:
            if not val:
                continue
            n = strip_all(node)
            if n is None:
                continue
            c = as_compare(n, True)
        else:
            c = as_compare(n, val)
        if c is None:
            continue
        a, o, b = c
        if (a, o, b) == (lhs, op, rhs) or (b, _FLIP.get(o), a) == (lhs, op, rhs):
            return node
    return None


def paths_to(fn, is_target, unroll=1, eval_test=None, on_extra=None):
    '''[(path, index_of_target, facts)] for every path that reaches a target statement; facts maps the
    normalised atom text to its truth value (later tests override earlier ones).'''
    def on_stmt(s, st):
        real = getattr(s, '_owner', s)
        evs = []
        if on_extra is not None:
            evs.extend(on_extra(s, st) or ())
        if is_target(real) or is_target(s):
            evs.append(Event('target', s))
        return evs
    pe = PathEnumerator(fn, on_stmt=on_stmt, unroll=unroll, eval_test=eval_test)
    out = []
    for p in pe.paths():
        idx = p.index(lambda e: e.kind == 'target')
        if idx < 0:
            continue
        facts = {}
        for e in p.events[:idx]:
            if e.kind == 'cond':
                for node, val in decompose(e.node, e.data[0]):
                    facts[src(node)] = val
        out.append((p, idx, facts))
    return out


def enclosing_conditions(root):
    '''Map id(node) -> tuple of (test_text, truth) for every node under root, from enclosing
    if-statements and conditional expressions (not loops).'''
    res = {}

    def visit(n, conds):
        res[id(n)] = conds
        if isinstance(n, ast.IfExp):
            visit(n.test, conds)
            visit(n.body, conds + tuple((src(a), v) for a, v in decompose(n.test, True)))
            visit(n.orelse, conds + tuple((src(a), v) for a, v in decompose(n.test, False)))
            return
        if isinstance(n, ast.If):
            visit(n.test, conds)
            ct = conds + tuple((src(a), v) for a, v in decompose(n.test, True))
            cf = conds + tuple((src(a), v) for a, v in decompose(n.test, False))
            for s in n.body:
                visit(s, ct)
            for s in n.orelse:
                visit(s, cf)
            return
        for c in ast.iter_child_nodes(n):
            visit(c, conds)
    visit(root, ())
    return res


def path_returns(fn, unroll=1):
    '''[(facts, returned expression)] for every path of fn that returns a value: facts maps the text of each decided atom to its truth value,
    and in the returned expression every local that was bound by a plain `name = value` on that path is replaced by the value it was last bound to
    (so `if c: return a, b` and `if c: lo = a; hi = b ... return lo, hi` give the same answer).'''
    import copy

    def on_stmt(s, st):
        if isinstance(s, ast.Assign) and len(s.targets) == 1 and isinstance(s.targets[0], ast.Name):
            return (Event('BIND', s, (s.targets[0].id, s.value)),)
        if isinstance(s, ast.Return) and s.value is not None:
            return (Event('RET', s, s.value),)
        return ()

    class Sub(ast.NodeTransformer):
        def __init__(self, env):
            self.env = env

        def visit_Name(self, n):
            if isinstance(n.ctx, ast.Load) and n.id in self.env:
                return copy.deepcopy(self.env[n.id])
            return n
    out = []
    for p in PathEnumerator(fn, on_stmt=on_stmt, unroll=unroll).paths():
        env, facts = {}, {}
        for e in p.events:
            if e.kind == 'cond':
                for node, val in decompose(e.node, e.data[0]):
                    facts[src(node)] = val
            elif e.kind == 'BIND':
                name, value = e.data
                env[name] = Sub(env).visit(copy.deepcopy(value))
            elif e.kind == 'RET':
                out.append((dict(facts), Sub(env).visit(copy.deepcopy(e.data))))
                break
    return out
