'''What an index expression denotes: a polynomial over opaque atoms together with the labelled axes it ranges over.

Rules that used to compare the spelling of NumPy index arithmetic (`(i1[:, None] * n + i2[None, :]).ravel()`) compare this
denotation instead, so that `numpy.add.outer(numpy.multiply(i1, n), i2).reshape(-1)`, `(n * i1[:, numpy.newaxis] + i2).ravel()`
and the original are one thing, and a changed stride, a swapped factor or a dropped offset is another.

A value is V(poly, axes): `poly` is an sa.algebra.Poly whose atoms are the leaves named by the rule (by a function that maps a
leaf expression to (atom, axes) or None) or, for any other side-effect-free attribute chain / name, the text of the leaf as a
scalar; `axes` is a tuple of axis labels ('1' for an inserted axis).  Raises Unsupported for anything it cannot read - the
caller then falls back to the spelling it knows.
'''

import ast

from sa.algebra import Poly, Unsupported

_BIN = {'numpy.add': ast.Add, 'numpy.subtract': ast.Sub, 'numpy.multiply': ast.Mult}
_OUTER = {'numpy.add.outer': ast.Add, 'numpy.subtract.outer': ast.Sub, 'numpy.multiply.outer': ast.Mult}


class V:
    def __init__(self, poly, axes=()):
        self.poly = poly
        self.axes = tuple(axes)

    def __eq__(self, o):
        return isinstance(o, V) and self.poly == o.poly and self.axes == o.axes

    def __repr__(self):
        return f'V({self.poly.canon()} over {self.axes})'


class Concat:
    def __init__(self, items):
        self.items = list(items)

    def __eq__(self, o):
        return isinstance(o, Concat) and self.items == o.items

    def __repr__(self):
        return 'Concat(' + ', '.join(map(repr, self.items)) + ')'


def _broadcast(a, b):
    n = max(len(a), len(b))
    a = ('1',) * (n - len(a)) + tuple(a)
    b = ('1',) * (n - len(b)) + tuple(b)
    out = []
    for x, y in zip(a, b):
        if x == y or y == '1':
            out.append(x)
        elif x == '1':
            out.append(y)
        else:
            raise Unsupported(f'axes {x} and {y} do not broadcast')
    return tuple(out)


def _op(op, a, b, outer=False):
    if outer:
        axes = a.axes + b.axes
    else:
        axes = _broadcast(a.axes, b.axes)
    if op is ast.Add:
        return V(a.poly + b.poly, axes)
    if op is ast.Sub:
        return V(a.poly - b.poly, axes)
    if op is ast.Mult:
        return V(a.poly * b.poly, axes)
    raise Unsupported('operator')


def mask_text(node, ev):
    '''canonical text of a boolean mask over integers: lt(a,b) and its negation, whichever comparison or NumPy spelling is used'''
    if isinstance(node, ast.UnaryOp) and isinstance(node.op, (ast.Invert, ast.Not)):
        return _neg(mask_text(node.operand, ev))
    if isinstance(node, ast.Call):
        name = ast.unparse(node.func)
        if name in ('numpy.invert', 'numpy.logical_not', 'numpy.bitwise_not') and len(node.args) == 1 and not node.keywords:
            return _neg(mask_text(node.args[0], ev))
        cmp = {'numpy.less': 'lt', 'numpy.greater_equal': 'ge', 'numpy.greater': 'gt', 'numpy.less_equal': 'le'}.get(name)
        if cmp and len(node.args) == 2 and not node.keywords:
            return _cmp(cmp, ev(node.args[0]), ev(node.args[1]))
    if isinstance(node, ast.Compare) and len(node.ops) == 1:
        cmp = {ast.Lt: 'lt', ast.GtE: 'ge', ast.Gt: 'gt', ast.LtE: 'le'}.get(type(node.ops[0]))
        if cmp:
            return _cmp(cmp, ev(node.left), ev(node.comparators[0]))
    raise Unsupported('mask')


def _cmp(cmp, a, b):
    a, b = a.poly.canon(), b.poly.canon()
    if cmp == 'lt':
        return f'lt({a},{b})'
    if cmp == 'ge':
        return f'not lt({a},{b})'
    if cmp == 'gt':
        return f'lt({b},{a})'
    return f'not lt({b},{a})'


def _neg(t):
    return t[4:] if t.startswith('not ') else 'not ' + t


def denote(node, leaf, names=None):
    '''node -> V | Concat.  leaf(expr) -> (atom, axes) | None;  names: local name -> bound expression (optional).'''
    names = names or {}

    def ev(n):
        hit = leaf(n)
        if hit is not None:
            return V(Poly.atom(hit[0]), hit[1])
        if isinstance(n, ast.Constant) and isinstance(n.value, int) and not isinstance(n.value, bool):
            return V(Poly.const(n.value))
        if isinstance(n, ast.Name) and n.id in names:
            return ev(names[n.id])
        if isinstance(n, (ast.Name, ast.Attribute)):
            t = ast.unparse(n)
            if all(isinstance(x, (ast.Name, ast.Attribute, ast.Load)) for x in ast.walk(n)):
                return V(Poly.atom(t))
            raise Unsupported(t)
        if isinstance(n, ast.UnaryOp) and isinstance(n.op, ast.USub):
            v = ev(n.operand)
            return V(-v.poly, v.axes)
        if isinstance(n, ast.BinOp) and type(n.op) in (ast.Add, ast.Sub, ast.Mult):
            return _op(type(n.op), ev(n.left), ev(n.right))
        if isinstance(n, ast.Subscript):
            base = ev(n.value)
            idx = n.slice.elts if isinstance(n.slice, ast.Tuple) else [n.slice]
            if all(_is_none(i) or _is_full_slice(i) for i in idx):
                if sum(1 for i in idx if _is_full_slice(i)) != len(base.axes):
                    raise Unsupported('index arity')
                it = iter(base.axes)
                return V(base.poly, tuple('1' if _is_none(i) else next(it) for i in idx))
            if len(idx) == 1 and len(base.axes) == 1:
                m = mask_text(idx[0], ev)
                return V(Poly.atom(f'sel({base.poly.canon()};{m})'), (f'{base.axes[0]}|{m}',))
            raise Unsupported('subscript')
        if isinstance(n, ast.Call):
            name = ast.unparse(n.func)
            if name in _BIN and len(n.args) == 2 and not n.keywords:
                return _op(_BIN[name], ev(n.args[0]), ev(n.args[1]))
            if name in _OUTER and len(n.args) == 2 and not n.keywords:
                return _op(_OUTER[name], ev(n.args[0]), ev(n.args[1]), outer=True)
            if name == 'numpy.negative' and len(n.args) == 1 and not n.keywords:
                v = ev(n.args[0])
                return V(-v.poly, v.axes)
            if name == 'numpy.ravel' and len(n.args) == 1 and not n.keywords:
                return _flat(ev(n.args[0]))
            if isinstance(n.func, ast.Attribute) and not n.keywords:
                if n.func.attr in ('ravel', 'flatten') and not n.args:
                    return _flat(ev(n.func.value))
                if n.func.attr == 'reshape' and len(n.args) == 1 and ast.unparse(n.args[0]) in ('-1', '(-1,)', '[-1]'):
                    return _flat(ev(n.func.value))
            if name in ('numpy.concatenate', 'numpy.hstack') and len(n.args) == 1 and isinstance(n.args[0], (ast.List, ast.Tuple)) and \
                    (not n.keywords or (name == 'numpy.concatenate' and len(n.keywords) == 1 and n.keywords[0].arg == 'axis' and ast.unparse(n.keywords[0].value) == '0')):
                items = [ev(a) for a in n.args[0].elts]
                if name == 'numpy.hstack' and any(not isinstance(i, V) or len(i.axes) != 1 for i in items):
                    raise Unsupported('hstack of non-vectors')
                return Concat(items)
        raise Unsupported(ast.unparse(n)[:60])

    return ev(node)


def _flat(v):
    if not isinstance(v, V):
        raise Unsupported('ravel of a non-array')
    return V(v.poly, (('flat',) + v.axes,)) if len(v.axes) != 1 else v


def _is_none(n):
    return (isinstance(n, ast.Constant) and n.value is None) or ast.unparse(n) in ('numpy.newaxis', 'np.newaxis')


def _is_full_slice(n):
    return isinstance(n, ast.Slice) and n.lower is None and n.upper is None and n.step is None
