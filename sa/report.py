'''Obligations, violations, known findings, evidence files.'''

import json
import os
import time

from . import AnalysisError

VERIF = os.path.dirname(os.path.dirname(os.path.abspath(__file__)))


class Obligation:
    def __init__(self, rule, construct, where, ok, detail, statement=None, extra=None):
        self.rule = rule
        self.construct = construct      # 'solver:System.solve'
        self.where = where              # 'src/nutils/solver.py:489'
        self.ok = ok
        self.detail = detail
        self.statement = statement      # normalised statement text (key component)
        self.extra = extra or {}

    def key(self):
        return (self.rule, self.construct, self.statement or '')

    def as_json(self):
        d = {'rule': self.rule, 'construct': self.construct, 'where': self.where,
             'verdict': 'holds' if self.ok else 'VIOLATED', 'detail': self.detail}
        if self.statement:
            d['statement'] = self.statement
        if self.extra:
            d.update(self.extra)
        return d


class Report:
    def __init__(self, pid, tier='quick', root='/repo', evidence_dir=None, quiet=False):
        self.pid = pid
        self.tier = tier
        self.root = root
        self.t0 = time.time()
        self.obligations = []
        self._seen = set()
        self.infos = []
        self.counts = {}
        self.units = {}
        self.explanation = ''
        self.rules = {}
        self.assumptions = []
        self.trusted_base = ['CPython ast/symtable parse of the working tree', 'name-based resolution of classes and callees',
                             'anchored names keep the meaning confirmed by reading on the pinned commit']
        self.extra_coverage = {}
        self.evidence_dir = evidence_dir or os.path.join(VERIF, 'evidence')
        self.quiet = quiet
        self.seed = int(os.environ.get('VERIF_SEED', '0') or 0)

    # -- recording -----------------------------------------------------------

    def rule(self, rid, text):
        self.rules[rid] = text

    def ob(self, rule, construct, where, ok, detail, statement=None, **extra):
        o = Obligation(rule, construct, where, bool(ok), detail, statement, extra)
        if (o.key(), o.ok) in self._seen:
            return o
        self._seen.add((o.key(), o.ok))
        self.obligations.append(o)
        return o

    def info(self, msg):
        if msg in self.infos:
            return
        self.infos.append(msg)
        if not self.quiet:
            print('INFO', msg)

    def count(self, rule, n=1):
        self.counts[rule] = self.counts.get(rule, 0) + n

    def require(self, rule, minimum, what=''):
        n = sum(1 for o in self.obligations if o.rule == rule)
        if n < minimum:
            raise AnalysisError(f'rule {rule} matched {n} instances, expected at least {minimum} {what}: '
                                f'the anchored code has moved; re-anchor the rule rather than pass vacuously')

    def unit(self, key, n=1):
        self.units[key] = self.units.get(key, 0) + n

    # -- finishing -----------------------------------------------------------

    def _known(self):
        p = os.path.join(VERIF, 'known_findings.json')
        if not os.path.exists(p):
            return []
        with open(p) as f:
            data = json.load(f)
        return [e for e in data.get('findings', []) if e.get('property') == self.pid]

    @staticmethod
    def _matches(entry, o):
        if entry.get('rule') != o.rule or entry.get('construct') != o.construct:
            return False
        if entry.get('statement') and entry['statement'] != (o.statement or ''):
            return False
        return True

    def finish(self, only_key=None):
        viol = [o for o in self.obligations if not o.ok]
        if only_key is not None:
            viol = [o for o in viol if list(o.key()) == list(only_key)]
        known = [e for e in self._known() if e.get('status') == 'known']
        reported, listed = [], []
        for o in viol:
            ent = next((e for e in known if self._matches(e, o)), None)
            (listed if ent else reported).append((o, ent))
        wall = time.time() - self.t0
        outdir = os.path.join(VERIF, 'out', 'replay')
        lines = []
        for o, ent in listed:
            lines.append(f'KNOWN-FINDING: property={self.pid} rule={o.rule} construct={o.construct} {ent.get("what", o.detail)}')
        for i, (o, _) in enumerate(reported):
            os.makedirs(outdir, exist_ok=True)
            path = os.path.join(outdir, f'{self.pid}-{i}.json')
            with open(path, 'w') as f:
                json.dump({'property': self.pid, 'rule': o.rule, 'construct': o.construct, 'statement': o.statement or '',
                           'where': o.where, 'detail': o.detail, 'rule_text': self.rules.get(o.rule, ''), 'root': self.root,
                           'replay': f'/venv/bin/python -P /verif/check.py {self.pid} --replay {path}'}, f, indent=1)
            lines.append(f'{o.where}: [{o.rule}] {o.construct}: {o.detail}' + (f' | {o.statement}' if o.statement else ''))
            lines.append(f'VIOLATION property={self.pid} replay={path}')
        self._write_evidence(wall, len(reported), len(listed))
        if not self.quiet or lines:
            for ln in lines:
                print(ln)
        nob = len(self.obligations)
        print(f'{self.pid} [{self.tier}] obligations={nob} discharged={nob - len(viol)} violations={len(reported)} '
              f'known={len(listed)} wall={wall:.2f}s')
        return 1 if reported else 0

    def _write_evidence(self, wall, nviol, nknown):
        os.makedirs(self.evidence_dir, exist_ok=True)
        nob = len(self.obligations)
        ndis = sum(1 for o in self.obligations if o.ok)
        per_rule = {}
        for o in self.obligations:
            d = per_rule.setdefault(o.rule, {'instances': 0, 'holds': 0, 'text': self.rules.get(o.rule, '')})
            d['instances'] += 1
            d['holds'] += o.ok
        samples = []
        seen_rules = {}
        for o in self.obligations:  # a few per rule, all violations
            if not o.ok or seen_rules.get(o.rule, 0) < 3:
                samples.append(o.as_json())
                seen_rules[o.rule] = seen_rules.get(o.rule, 0) + 1
        cov = {
            'explanation': self.explanation,
            'obligations': nob,
            'discharged': ndis,
            'checker_cmd': f'/venv/bin/python -P /verif/check.py {self.pid} --tier {self.tier}',
            'trusted_base': self.trusted_base,
            'exhaustive': True,
            'rule': 'one obligation per (rule, construct, statement) instance found in the parsed working tree; '
                    'an instance is distinct by that key; rules and minimum instance counts are in DESIGN.md section 2',
            'evaluations': nob,
            'distinct_nontrivial': len({o.key() for o in self.obligations}),
            'rules': per_rule,
            'units_analysed': self.units,
            'samples': samples,
            'info': self.infos[:50],
            'known_findings_reported': nknown,
        }
        cov.update(self.extra_coverage)
        ev = {'property_id': self.pid, 'tier': self.tier, 'seed': self.seed, 'level': 'other', 'coverage': cov,
              'assumptions': self.assumptions or ['static rules decide the named structural clauses only, not the numerical behaviour'],
              'wall_s': round(wall, 3), 'violations': nviol, 'root': self.root}
        with open(os.path.join(self.evidence_dir, f'{self.pid}.json'), 'w') as f:
            json.dump(ev, f, indent=1, default=str)
