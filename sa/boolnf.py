'''Propositional equivalence of guard expressions.

A test is read as a boolean function of its atoms (comparisons, calls, names); `not`, `and`, `or`, chained comparisons and the
negated operators (`!=`, `is not`, `not in`) are interpreted, symmetric operators have their operands ordered, and `a > b` is read
as `b < a`.  Two tests are equivalent when their truth tables over the union of their atoms coincide, so De Morgan rewrites,
reordered operands, double negation and split chains do not change what a rule sees.  (Atoms are treated as independent: the
equivalence is sound, it does not know that `a < b` excludes `b < a`.)
'''

import ast
import itertools

from .astutil import src

_NEG = {ast.NotEq: ast.Eq, ast.IsNot: ast.Is, ast.NotIn: ast.In}
_SYM = (ast.Eq, ast.Is)
_NAME = {ast.Eq: '==', ast.Is: 'is', ast.In: 'in', ast.Lt: '<', ast.LtE: '<='}


TOTAL_ORDER = False     # set (temporarily) by equivalent(..., total_order=True): operands are integers, so a >= b is not (a < b)


def _atom(left, op, right):
    '''(key, positive) of one binary comparison.'''
    pos = True
    t = type(op)
    if TOTAL_ORDER and t in (ast.GtE, ast.LtE):
        # a >= b  ==  not (a < b) ;  a <= b  ==  not (b < a)
        a, b = (left, right) if t is ast.GtE else (right, left)
        return f'{src(a)} < {src(b)}', False
    if t in _NEG:
        t, pos = _NEG[t], False
    a, b = src(left), src(right)
    if t is ast.Gt:
        t, a, b = ast.Lt, b, a
    elif t is ast.GtE:
        t, a, b = ast.LtE, b, a
    if t in _SYM and b < a:
        a, b = b, a
    return f'{a} {_NAME.get(t, t.__name__)} {b}', pos


def formula(test):
    '''Nested tuples ('and'|'or', [..]) / ('not', f) / ('atom', key).'''
    if isinstance(test, ast.BoolOp):
        return ('and' if isinstance(test.op, ast.And) else 'or', [formula(v) for v in test.values])
    if isinstance(test, ast.UnaryOp) and isinstance(test.op, ast.Not):
        return ('not', formula(test.operand))
    if isinstance(test, ast.Compare):
        operands = [test.left] + list(test.comparators)
        parts = []
        for a, op, b in zip(operands, test.ops, operands[1:]):
            key, pos = _atom(a, op, b)
            parts.append(('atom', key) if pos else ('not', ('atom', key)))
        return parts[0] if len(parts) == 1 else ('and', parts)
    if isinstance(test, ast.Constant) and isinstance(test.value, bool):
        return ('const', test.value)
    return ('atom', src(test))


def atoms(f, out=None):
    out = [] if out is None else out
    if f[0] == 'atom':
        if f[1] not in out:
            out.append(f[1])
    elif f[0] == 'not':
        atoms(f[1], out)
    elif f[0] in ('and', 'or'):
        for g in f[1]:
            atoms(g, out)
    return out


def value(f, env):
    k = f[0]
    if k == 'atom':
        return env[f[1]]
    if k == 'const':
        return f[1]
    if k == 'not':
        return not value(f[1], env)
    if k == 'and':
        return all(value(g, env) for g in f[1])
    return any(value(g, env) for g in f[1])


def equivalent(t1, t2, limit=14, total_order=False):
    '''Are the two test expressions (AST nodes or source strings) the same boolean function of their atoms?
    total_order=True: the compared quantities are integers (no NaN), so `a >= b` is read as `not a < b`.'''
    global TOTAL_ORDER
    if total_order:
        TOTAL_ORDER = True
        try:
            return equivalent(t1, t2, limit)
        finally:
            TOTAL_ORDER = False
    if isinstance(t1, str):
        t1 = ast.parse(t1, mode='eval').body
    if isinstance(t2, str):
        t2 = ast.parse(t2, mode='eval').body
    f1, f2 = formula(t1), formula(t2)
    names = atoms(f2, atoms(f1))
    if len(names) > limit:
        return src(t1) == src(t2)
    for bits in itertools.product((False, True), repeat=len(names)):
        env = dict(zip(names, bits))
        if value(f1, env) != value(f2, env):
            return False
    return True


def implies(t1, t2, limit=14):
    if isinstance(t1, str):
        t1 = ast.parse(t1, mode='eval').body
    if isinstance(t2, str):
        t2 = ast.parse(t2, mode='eval').body
    f1, f2 = formula(t1), formula(t2)
    names = atoms(f2, atoms(f1))
    if len(names) > limit:
        return src(t1) == src(t2)
    return all(value(f2, env) or not value(f1, env) for env in (dict(zip(names, bits)) for bits in itertools.product((False, True), repeat=len(names))))
