'''Structural, flag-sensitive path enumeration over a function body (no CFG library needed).

Paths are enumerated over the AST: sequence, if/elif/else, while/for (+else) with bounded
unrolling, break/continue, return/raise, with, try/except/else/finally, match.  Each path is
abstracted to the ordered list of events the rule asks for through callbacks.

Infeasible-path control:
 * local names only ever bound to constants on the path are propagated (flags);
 * the outcome of a call-free test is remembered until one of its names is re-bound, and
   and/or/not are decomposed, so `if a: ... if a:` does not fork twice;
 * the rule may supply `eval_test` (e.g. the three-valued NaN evaluator).

A cap on the number of live states turns blow-up into AnalysisError, never into a verdict.
'''

import ast
import builtins

from . import AnalysisError
from .astutil import dotted, src, target_names, walk_no_nested

_STDLIB_EXC_PARENTS = {
    'UnpicklingError': 'PickleError', 'PicklingError': 'PickleError', 'PickleError': 'Exception',
    'LinAlgError': 'ValueError', 'error': 'Exception', 'Empty': 'Exception', 'TimeoutExpired': 'Exception',
}


class Event:
    __slots__ = ('kind', 'node', 'data')

    def __init__(self, kind, node=None, data=None):
        self.kind = kind
        self.node = node
        self.data = data

    def __repr__(self):
        d = f' {self.data}' if self.data is not None else ''
        ln = getattr(self.node, 'lineno', '?')
        return f'{self.kind}@{ln}{d}'


class State:
    __slots__ = ('events', 'flags', 'known', 'exc', 'handling')

    def __init__(self, events=(), flags=None, known=None, exc=None, handling=None):
        self.events = events
        self.flags = flags or {}
        self.known = known or {}
        self.exc = exc              # name of the exception in flight (for 'raise' outcomes)
        self.handling = handling    # name of the exception being handled (for bare `raise`)

    def add(self, *evs):
        return State(self.events + tuple(evs), self.flags, self.known, self.exc, self.handling)

    def with_env(self, flags, known):
        return State(self.events, flags, known, self.exc, self.handling)

    def raising(self, exc):
        return State(self.events, self.flags, self.known, exc, self.handling)


class Path:
    def __init__(self, events, end, exc=None, flags=None):
        self.events = events
        self.end = end      # 'return' | 'raise' | 'fall' | 'exit' (no-return call such as os._exit)
        self.exc = exc
        self.flags = flags or {}

    def kinds(self):
        return [e.kind for e in self.events]

    def index(self, pred, start=0):
        for i in range(start, len(self.events)):
            if pred(self.events[i]):
                return i
        return -1

    def __repr__(self):
        return f'<Path {self.end}{"("+self.exc+")" if self.exc else ""}: {" ".join(map(repr, self.events))}>'


def _tv_not(v):
    return None if v is None else not v


class PathEnumerator:
    '''Enumerate paths of a function.

    on_stmt(stmt, state) -> iterable of Event for simple statements (and for the header
        expression of for/with, passed as the compound node with ctx in Event.data if wanted)
    fallible(stmt) -> iterable of exception names the simple statement may raise (forks a raise)
    eval_test(test, state) -> True/False/None
    '''

    def __init__(self, fn, on_stmt=None, fallible=None, eval_test=None, unroll=1, max_states=20000,
                 exc_parents=None, assert_forks=False, record_conds=True, noreturn=None, emit_truncated=False):
        self.fn = fn
        self.emit_truncated = emit_truncated   # loops without an exit (while True + yield): hand out the prefix cut at the iteration budget, end 'truncated'
        self.on_stmt = on_stmt or (lambda s, st: ())
        self._try_stack = []
        # without a rule-specific oracle, any statement in a try body may raise what the handlers name
        self.fallible = fallible or self._implicit_fallible
        self.eval_test_cb = eval_test
        self.unroll = unroll
        self.max_states = max_states
        self.exc_parents = dict(_STDLIB_EXC_PARENTS)
        if exc_parents:
            self.exc_parents.update(exc_parents)
        self.assert_forks = assert_forks
        self.record_conds = record_conds
        self.noreturn = noreturn or (lambda s: False)
        self.nstates = 0

    def _implicit_fallible(self, s):
        names = []
        for tr in self._try_stack:
            for h in tr.handlers:
                if h.type is None:
                    names.append('*')
                else:
                    for t in (h.type.elts if isinstance(h.type, ast.Tuple) else [h.type]):
                        names.append((dotted(t) or src(t)).rsplit('.', 1)[-1])
        if not names:
            return ()
        if not any(isinstance(n, (ast.Call, ast.Attribute, ast.Subscript, ast.BinOp, ast.Await)) for n in ast.walk(s)):
            return ()  # plain name/constant moves cannot raise
        return tuple(dict.fromkeys(names))

    # -- public --------------------------------------------------------------

    def paths(self):
        body = self.fn.body if not isinstance(self.fn, ast.Lambda) else [ast.copy_location(ast.Return(value=self.fn.body), self.fn.body)]
        outs = self.block(body, State())
        res = []
        for kind, st in outs:
            if kind == 'next':
                res.append(Path(st.events, 'fall', flags=st.flags))
            elif kind == 'return':
                res.append(Path(st.events, 'return', flags=st.flags))
            elif kind == 'exit':
                res.append(Path(st.events, 'exit', flags=st.flags))
            elif kind == 'truncated':
                res.append(Path(st.events, 'truncated', flags=st.flags))
            elif kind == 'raise':
                res.append(Path(st.events, 'raise', st.exc, flags=st.flags))
            elif kind in ('break', 'continue'):
                # a loop body analysed on its own: the iteration ends here
                res.append(Path(st.events + (Event(kind, None),), 'fall', flags=st.flags))
        return res

    # -- machinery -----------------------------------------------------------

    def _tick(self, n=1):
        self.nstates += n
        if self.nstates > self.max_states:
            raise AnalysisError(f'path enumeration of {getattr(self.fn, "name", "<lambda>")} exceeds {self.max_states} states')

    def block(self, stmts, st):
        outs = []
        cur = [st]
        for s in stmts:
            nxt = []
            for c in cur:
                for kind, o in self.stmt(s, c):
                    if kind == 'next':
                        nxt.append(o)
                    else:
                        outs.append((kind, o))
            cur = nxt
            self._tick(len(cur))
            if not cur:
                break
        outs.extend(('next', c) for c in cur)
        return outs

    # flags / known tests

    def _kill(self, st, names):
        if not names:
            return st
        names = set(names)
        flags = {k: v for k, v in st.flags.items() if k not in names}
        known = {k: v for k, v in st.known.items() if not (v[1] & names)}
        if len(flags) == len(st.flags) and len(known) == len(st.known):
            return st
        return st.with_env(flags, known)

    def _bind_effects(self, s, st):
        '''Update flags for a simple statement.'''
        if isinstance(s, ast.Assign):
            names = [n for t in s.targets for n in target_names(t)]
            st = self._kill(st, names + self._attr_bases(s.targets))
            if len(s.targets) == 1 and isinstance(s.targets[0], ast.Name) and isinstance(s.value, ast.Constant):
                flags = dict(st.flags)
                flags[s.targets[0].id] = s.value.value
                st = st.with_env(flags, st.known)
            return st
        if isinstance(s, (ast.AugAssign, ast.AnnAssign)):
            return self._kill(st, target_names(s.target) + self._attr_bases([s.target]))
        if isinstance(s, (ast.Delete,)):
            return self._kill(st, [n for t in s.targets for n in target_names(t)])
        if isinstance(s, (ast.Import, ast.ImportFrom)):
            return self._kill(st, [(a.asname or a.name).split('.')[0] for a in s.names])
        if isinstance(s, (ast.FunctionDef, ast.AsyncFunctionDef, ast.ClassDef)):
            return self._kill(st, [s.name])
        # walrus targets and calls mutating objects: conservatively kill names stored anywhere in the statement
        stored = [n.id for n in ast.walk(s) if isinstance(n, ast.Name) and isinstance(n.ctx, ast.Store)]
        return self._kill(st, stored)

    @staticmethod
    def _attr_bases(targets):
        '''x.attr = ... / x[i] = ... invalidate remembered tests mentioning x.'''
        out = []
        for t in targets:
            for n in ast.walk(t):
                if isinstance(n, (ast.Attribute, ast.Subscript)) and isinstance(n.ctx, ast.Store):
                    b = n
                    while isinstance(b, (ast.Attribute, ast.Subscript)):
                        b = b.value
                    if isinstance(b, ast.Name):
                        out.append(b.id)
        return out

    def _test_key(self, test):
        '''(key, names) if the test is call-free (its value cannot change unless a name is re-bound).'''
        for n in ast.walk(test):
            if isinstance(n, (ast.Call, ast.Await, ast.Yield, ast.YieldFrom, ast.NamedExpr)):
                return None
        names = frozenset(n.id for n in ast.walk(test) if isinstance(n, ast.Name))
        return src(test), names

    def eval_test(self, test, st):
        if self.eval_test_cb is not None:
            v = self.eval_test_cb(test, st)
            if v is not None:
                return v
        if isinstance(test, ast.Constant):
            return bool(test.value)
        if isinstance(test, ast.UnaryOp) and isinstance(test.op, ast.Not):
            return _tv_not(self.eval_test(test.operand, st))
        if isinstance(test, ast.BoolOp):
            vals = [self.eval_test(v, st) for v in test.values]
            if isinstance(test.op, ast.And):
                if any(v is False for v in vals):
                    return False
                return True if all(v is True for v in vals) else None
            if any(v is True for v in vals):
                return True
            return False if all(v is False for v in vals) else None
        k = self._test_key(test)
        if k is not None and k[0] in st.known:
            return st.known[k[0]][0]
        if isinstance(test, ast.Name) and test.id in st.flags:
            return bool(st.flags[test.id])
        if isinstance(test, ast.Compare) and len(test.ops) == 1 and isinstance(test.left, ast.Name) and test.left.id in st.flags \
                and isinstance(test.comparators[0], ast.Constant):
            a, b = st.flags[test.left.id], test.comparators[0].value
            op = test.ops[0]
            try:
                if isinstance(op, ast.Is):
                    return a is b
                if isinstance(op, ast.IsNot):
                    return a is not b
                if isinstance(op, ast.Eq):
                    return a == b
                if isinstance(op, ast.NotEq):
                    return a != b
                if isinstance(op, ast.Lt):
                    return a < b
                if isinstance(op, ast.LtE):
                    return a <= b
                if isinstance(op, ast.Gt):
                    return a > b
                if isinstance(op, ast.GtE):
                    return a >= b
            except TypeError:
                return None
        return None

    def _assume(self, test, outcome, st):
        '''Record that `test` evaluated to `outcome` (decomposing and/or/not).'''
        known = dict(st.known)

        def rec(t, val):
            if isinstance(t, ast.UnaryOp) and isinstance(t.op, ast.Not):
                rec(t.operand, not val)
                return
            if isinstance(t, ast.BoolOp):
                if isinstance(t.op, ast.And) and val:
                    for v in t.values:
                        rec(v, True)
                elif isinstance(t.op, ast.Or) and not val:
                    for v in t.values:
                        rec(v, False)
            k = self._test_key(t)
            if k is not None:
                known[k[0]] = (val, k[1])
        rec(test, outcome)
        return st.with_env(st.flags, known)

    def branch(self, test, st, owner):
        '''Yield (outcome, state) for the feasible outcomes of a test.'''
        v = self.eval_test(test, st)
        outs = []
        for outcome in (True, False):
            if v is not None and v != outcome:
                continue
            s2 = self._assume(test, outcome, st)
            if self.record_conds:
                s2 = s2.add(Event('cond', test, (outcome, owner)))
            outs.append((outcome, s2))
        return outs

    # exceptions

    def _exc_ancestors(self, name):
        name = name.rsplit('.', 1)[-1]
        seen = [name]
        cur = name
        while True:
            if cur in self.exc_parents:
                cur = self.exc_parents[cur]
            else:
                b = getattr(builtins, cur, None)
                if isinstance(b, type) and issubclass(b, BaseException):
                    for k in b.__mro__[1:]:
                        if k is not object:
                            seen.append(k.__name__)
                    return seen, True
                return seen, False  # unknown root
            if cur in seen:
                return seen, False
            seen.append(cur)

    def handler_matches(self, exc, handler):
        '''True / False / None (maybe).'''
        if handler.type is None:
            return True
        types = handler.type.elts if isinstance(handler.type, ast.Tuple) else [handler.type]
        names = [(dotted(t) or src(t)).rsplit('.', 1)[-1] for t in types]
        if 'BaseException' in names:
            return True
        if exc is None or exc == '*':
            return None
        anc, complete = self._exc_ancestors(exc)
        if any(n in anc for n in names):
            return True
        if complete:
            return False
        # unknown hierarchy: user classes conventionally derive from Exception
        if 'Exception' in names:
            return True
        return None

    # statements

    def stmt(self, s, st):
        m = getattr(self, 'do_' + type(s).__name__, None)
        if m is not None:
            return m(s, st)
        return self.simple(s, st)

    def simple(self, s, st, after=None):
        outs = []
        for exc in self.fallible(s) or ():
            outs.append(('raise', st.add(Event('fail', s, exc)).raising(exc)))
        evs = tuple(self.on_stmt(s, st) or ())
        st2 = self._bind_effects(s, st.add(*evs) if evs else st)
        if self.noreturn(s):
            outs.append(('exit', st2.add(Event('exit', s))))
            return outs
        outs.append((after or 'next', st2))
        return outs

    def do_Return(self, s, st):
        outs = self.simple(s, st, after='return')
        return [(k, (o.add(Event('return', s)) if k == 'return' else o)) for k, o in outs]

    def do_Raise(self, s, st):
        outs = []
        evs = tuple(self.on_stmt(s, st) or ())
        st = st.add(*evs) if evs else st
        if s.exc is None:
            exc = st.handling or '*'
        else:
            e = s.exc.func if isinstance(s.exc, ast.Call) else s.exc
            exc = dotted(e) or '*'
            if isinstance(e, ast.Name) and st.handling and getattr(st, 'handling_name', None) == e.id:
                exc = st.handling
        outs.append(('raise', st.add(Event('raise', s, exc)).raising(exc)))
        return outs

    def do_Assert(self, s, st):
        if not self.assert_forks:
            return self.simple(s, st)
        outs = []
        for outcome, s2 in self.branch(s.test, st, s):
            if outcome:
                outs.append(('next', s2))
            else:
                outs.append(('raise', s2.add(Event('raise', s, 'AssertionError')).raising('AssertionError')))
        return outs

    def do_Break(self, s, st):
        return [('break', st)]

    def do_Continue(self, s, st):
        return [('continue', st)]

    def do_If(self, s, st):
        outs = []
        pre = self._header(s, s.test, st, outs)
        for p in pre:
            for outcome, s2 in self.branch(s.test, p, s):
                outs.extend(self.block(s.body if outcome else s.orelse, s2))
        return outs

    def _header(self, s, expr, st, outs):
        '''A compound statement's header expression may fail too.'''
        hdr = ast.Expr(value=expr)
        ast.copy_location(hdr, s)
        hdr._owner = s
        res = []
        for exc in self.fallible(hdr) or ():
            outs.append(('raise', st.add(Event('fail', hdr, exc)).raising(exc)))
        evs = tuple(self.on_stmt(hdr, st) or ())
        res.append(st.add(*evs) if evs else st)
        return res

    def _loop(self, s, st, test):
        outs = []
        entering = [st]
        for it in range(self.unroll + 1):
            nxt = []
            for e in entering:
                if test is not None:
                    pre = self._header(s, test, e, outs)
                    branches = [b for p in pre for b in self.branch(test, p, s)]
                else:
                    pre = self._header(s, s.iter, e, outs) if it == 0 else [e]
                    branches = []
                    for p in pre:
                        p2 = self._kill(p, target_names(s.target))
                        branches.append((True, p2.add(Event('iter', s, it))))
                        branches.append((False, p.add(Event('iter-end', s, it))))
                for outcome, b in branches:
                    if not outcome:
                        outs.extend(self.block(s.orelse, b) if s.orelse else [('next', b)])
                        continue
                    if it == self.unroll:
                        if self.emit_truncated:
                            outs.append(('truncated', b))
                        continue  # iteration budget exhausted: this prefix is covered by shorter paths
                    for kind, o in self.block(s.body, b.add(Event('loop-body', s, it))):
                        if kind in ('next', 'continue'):
                            nxt.append(o)
                        elif kind == 'break':
                            outs.append(('next', o))
                        else:
                            outs.append((kind, o))
            entering = nxt
            self._tick(len(entering))
            if not entering:
                break
        return outs

    def do_While(self, s, st):
        return self._loop(s, st, s.test)

    def do_For(self, s, st):
        return self._loop(s, st, None)

    do_AsyncFor = do_For

    def do_With(self, s, st):
        outs = []
        cur = [st]
        for item in s.items:
            nxt = []
            for c in cur:
                hdr = ast.Expr(value=item.context_expr)
                ast.copy_location(hdr, s)
                hdr._owner = s
                hdr._with_item = item
                for exc in self.fallible(hdr) or ():
                    outs.append(('raise', c.add(Event('fail', hdr, exc)).raising(exc)))
                evs = tuple(self.on_stmt(hdr, c) or ())
                c2 = c.add(*evs) if evs else c
                if item.optional_vars is not None:
                    c2 = self._kill(c2, target_names(item.optional_vars))
                nxt.append(c2.add(Event('with-enter', s, item)))
            cur = nxt
        for c in cur:
            for kind, o in self.block(s.body, c):
                outs.append((kind, o.add(Event('with-exit', s, kind))))
        return outs

    do_AsyncWith = do_With

    def do_Try(self, s, st):
        outs = []
        after_body = []
        self._try_stack.append(s)
        try:
            body_outs = self.block(s.body, st.add(Event('try', s)))
        finally:
            self._try_stack.pop()
        for kind, o in body_outs:
            if kind == 'raise':
                after_body.extend(self._dispatch(s, o))
            elif kind == 'next':
                after_body.extend(self.block(s.orelse, o) if s.orelse else [('next', o)])
            else:
                after_body.append((kind, o))
        if not s.finalbody:
            return after_body
        for kind, o in after_body:
            if kind == 'exit':
                outs.append((kind, o))   # os._exit does not run finally blocks
                continue
            for k2, o2 in self.block(s.finalbody, o.add(Event('finally', s, kind))):
                if k2 == 'next':
                    outs.append((kind, o2))
                else:
                    outs.append((k2, o2))  # finally overrides
        return outs

    do_TryStar = do_Try

    def _dispatch(self, s, st):
        outs = []
        exc = st.exc
        certain = False
        for h in s.handlers:
            mt = self.handler_matches(exc, h)
            if mt is False:
                continue
            h_st = State(st.events + (Event('except', h, exc),), st.flags, st.known, None, exc)
            if h.name:
                h_st = self._kill(h_st, [h.name])
            for kind, o in self.block(h.body, h_st):
                if kind != 'raise':
                    o = State(o.events, o.flags, o.known, o.exc, st.handling)
                outs.append((kind, o))
            if mt is True:
                certain = True
                break
        if not certain:
            outs.append(('raise', st))
        return outs

    def do_Match(self, s, st):
        outs = []
        pre = self._header(s, s.subject, st, outs)
        for p in pre:
            irrefutable = False
            for case in s.cases:
                names = [n.id for n in ast.walk(case.pattern) if isinstance(n, ast.Name)] + \
                        [n.name for n in ast.walk(case.pattern) if isinstance(n, (ast.MatchAs, ast.MatchStar)) and n.name]
                outs.extend(self.block(case.body, self._kill(p, names).add(Event('case', case))))
                if isinstance(case.pattern, ast.MatchAs) and case.pattern.pattern is None and case.guard is None:
                    irrefutable = True
            if not irrefutable:
                outs.append(('next', p))
        return outs


def enumerate_paths(fn, **kw):
    return PathEnumerator(fn, **kw).paths()
