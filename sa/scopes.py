'''Name resolution with the stdlib symtable: every Name load that resolves in no scope.

Classification (local / free / global) comes from symtable; the module's global
namespace is the set of names bound anywhere at module level (incl. conditional
definitions and `global` declarations in functions) plus builtins.
'''

import ast
import builtins
import symtable

from . import AnalysisError

_BUILTINS = set(dir(builtins)) | {'__file__', '__name__', '__doc__', '__package__', '__spec__', '__loader__',
                                  '__path__', '__builtins__', '__debug__', '__class__', '__qualname__', '__module__',
                                  '__annotations__', '__dict__'}


class Unresolved:
    def __init__(self, module, scope, name, node, in_error_operand):
        self.module = module
        self.scope = scope              # qualname of the enclosing function/class scope
        self.name = name
        self.node = node
        self.lineno = node.lineno
        self.in_error_operand = in_error_operand  # occurs only inside a raise/assert-message expression

    def __repr__(self):
        return f'{self.module.relpath}:{self.lineno} {self.scope}: {self.name}'


def module_globals(module):
    top = symtable.symtable(module.source, module.path, 'exec')
    names = set()
    star = False
    for s in top.get_symbols():
        if s.is_assigned() or s.is_imported() or s.is_namespace() or s.is_parameter():
            names.add(s.get_name())
    # names declared global in nested scopes and assigned there

    def rec(t):
        for s in t.get_symbols():
            if t.get_type() != 'module' and s.is_declared_global() and s.is_assigned():
                names.add(s.get_name())
        for c in t.get_children():
            rec(c)
    rec(top)
    for n in ast.walk(module.tree):
        if isinstance(n, ast.ImportFrom) and any(a.name == '*' for a in n.names):
            star = True
    return top, names, star


def _scope_nodes(tree):
    '''Map (kind, name, lineno) -> AST scope node.'''
    out = {}
    for n in ast.walk(tree):
        if isinstance(n, (ast.FunctionDef, ast.AsyncFunctionDef, ast.ClassDef)):
            out.setdefault((n.name, n.lineno), n)
            # symtable reports the line of the first decorator for decorated scopes in some versions
            for d in n.decorator_list:
                out.setdefault((n.name, d.lineno), n)
        elif isinstance(n, ast.Lambda):
            out.setdefault(('lambda', n.lineno), n)
    return out


def _direct_name_loads(scope_node):
    '''Name loads belonging to this scope: not inside nested def/lambda/class *bodies*
    (their decorators, defaults, bases and annotations do belong to this scope), and
    including comprehensions (inlined in 3.12).'''
    res = []

    def visit(n, err):
        if isinstance(n, ast.Name):
            if isinstance(n.ctx, ast.Load):
                res.append((n, err))
            return
        if isinstance(n, (ast.FunctionDef, ast.AsyncFunctionDef)):
            for d in n.decorator_list:
                visit(d, err)
            for d in n.args.defaults + [k for k in n.args.kw_defaults if k is not None]:
                visit(d, err)
            return
        if isinstance(n, ast.Lambda):
            for d in n.args.defaults + [k for k in n.args.kw_defaults if k is not None]:
                visit(d, err)
            return
        if isinstance(n, ast.ClassDef):
            for d in n.decorator_list + n.bases + [k.value for k in n.keywords]:
                visit(d, err)
            return
        if isinstance(n, ast.Raise):
            err = True
        if isinstance(n, ast.Assert):
            visit(n.test, err)
            if n.msg is not None:
                visit(n.msg, True)
            return
        for c in ast.iter_child_nodes(n):
            visit(c, err)

    if isinstance(scope_node, ast.Lambda):
        visit(scope_node.body, False)
    else:
        for s in scope_node.body:
            visit(s, False)
        if isinstance(scope_node, (ast.FunctionDef, ast.AsyncFunctionDef)):
            pass
    return res


def unresolved(module):
    '''All Name loads in function and class scopes of `module` that resolve nowhere.'''
    top, gl, star = module_globals(module)
    if star:
        return []  # cannot decide with star imports (none in nutils today)
    nodes = _scope_nodes(module.tree)
    out = []

    def rec(table, qual):
        for child in table.get_children():
            kind = child.get_type()
            name = child.get_name()
            if str(kind).endswith('annotation') or str(kind).lower() in ('type alias', 'type parameters', 'type variable'):
                continue
            q = (qual + '.' if qual else '') + name
            if str(kind).endswith('function') or kind == 'function':
                node = nodes.get((name, child.get_lineno()))
                if node is None and name in ('listcomp', 'genexpr', 'setcomp', 'dictcomp'):
                    rec(child, q)
                    continue
                unknown = set()
                for s in child.get_symbols():
                    if s.is_referenced() and s.is_global() and not s.is_assigned() or \
                            (s.is_referenced() and s.is_global() and s.is_declared_global()):
                        n = s.get_name()
                        if n not in gl and n not in _BUILTINS:
                            unknown.add(n)
                if unknown and node is not None:
                    seen = set()
                    loads = _direct_name_loads(node)
                    for nm in sorted(unknown):
                        occ = [(nd, err) for nd, err in loads if nd.id == nm]
                        if not occ:
                            continue
                        only_err = all(err for _, err in occ)
                        first = min(occ, key=lambda p: (p[0].lineno, p[0].col_offset))[0]
                        out.append(Unresolved(module, q, nm, first, only_err))
                rec(child, q + '.<locals>' if not name == 'lambda' else q)
            elif str(kind).endswith('class') or kind == 'class':
                node = nodes.get((name, child.get_lineno()))
                unknown = set()
                for s in child.get_symbols():
                    if s.is_referenced() and s.is_global() and not s.is_assigned():
                        n = s.get_name()
                        if n not in gl and n not in _BUILTINS:
                            unknown.add(n)
                if unknown and node is not None:
                    loads = _direct_name_loads(node)
                    for nm in sorted(unknown):
                        occ = [(nd, err) for nd, err in loads if nd.id == nm]
                        if occ:
                            out.append(Unresolved(module, q, nm, occ[0][0], all(e for _, e in occ)))
                rec(child, q)
            else:
                rec(child, q)
    rec(top, '')
    return out
