'''Static-analysis engine shared by the per-property rules (stdlib only: ast, symtable).

Nothing in this package imports or executes nutils; it parses the files under
<root>/src/nutils on every run.
'''


class AnalysisError(Exception):
    '''The machinery cannot decide (anchor vanished, unclassifiable construct, blow-up).

    Reported as ANALYSIS-ERROR with exit status 2, never as a VIOLATION.'''
