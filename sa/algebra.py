'''A tiny symbolic algebra for normal forms of derivative-table entries (algebraic value numbering, no solver).

Expressions are polynomials with rational coefficients over atoms with rational exponents.  Atoms are
variables ('x'), opaque function applications ('cos(x)') or parenthesised sums raised to a power.
Two expressions with the same normal form are equal as functions; the converse is not claimed
(a trig identity is not known to the algebra) - accepted alternatives are listed in the oracle.
'''

import ast
from fractions import Fraction


class Poly:
    '''dict: monomial (tuple of sorted (atom, exponent)) -> Fraction'''

    def __init__(self, terms=None):
        self.terms = {k: v for k, v in (terms or {}).items() if v != 0}

    @staticmethod
    def const(c):
        return Poly({(): Fraction(c)})

    @staticmethod
    def atom(name, exp=1):
        return Poly({((name, Fraction(exp)),): Fraction(1)})

    @staticmethod
    def _coerce(o):
        if isinstance(o, Poly):
            return o
        if isinstance(o, (int, Fraction)) and not isinstance(o, bool):
            return Poly.const(o)
        return None

    def __radd__(self, o):
        o = Poly._coerce(o)
        return NotImplemented if o is None else o + self

    def __rsub__(self, o):
        o = Poly._coerce(o)
        return NotImplemented if o is None else o - self

    def __rmul__(self, o):
        o = Poly._coerce(o)
        return NotImplemented if o is None else o * self

    def __add__(self, o):
        o = Poly._coerce(o)
        if o is None:
            return NotImplemented
        t = dict(self.terms)
        for k, v in o.terms.items():
            t[k] = t.get(k, 0) + v
        return Poly(t)

    def __neg__(self):
        return Poly({k: -v for k, v in self.terms.items()})

    def __sub__(self, o):
        o = Poly._coerce(o)
        if o is None:
            return NotImplemented
        return self + (-o)

    def __mul__(self, o):
        o = Poly._coerce(o)
        if o is None:
            return NotImplemented
        t = {}
        for k1, v1 in self.terms.items():
            for k2, v2 in o.terms.items():
                m = dict(k1)
                for a, e in k2:
                    m[a] = m.get(a, 0) + e
                key = tuple(sorted((a, e) for a, e in m.items() if e != 0))
                t[key] = t.get(key, 0) + v1 * v2
        return Poly(t)

    def is_const(self):
        return all(k == () for k in self.terms)

    def const_value(self):
        return self.terms.get((), Fraction(0))

    def pow(self, q):
        q = Fraction(q)
        if q == 1:
            return self
        if q == 0:
            return Poly.const(1)
        if len(self.terms) == 1:
            (k, v), = self.terms.items()
            if q.denominator == 1 or v == 1:
                coeff = v ** q if q.denominator == 1 else Fraction(1)
                return Poly({tuple(sorted((a, e * q) for a, e in k)): coeff})
            if v > 0:
                # c**(p/q) kept as an atom
                return Poly({tuple(sorted([(f'{v}', q)] + [(a, e * q) for a, e in k])): Fraction(1)})
        if q.denominator == 1 and 0 < q <= 4:
            r = Poly.const(1)
            for _ in range(int(q)):
                r = r * self
            return r
        # a sum raised to a non-trivial power: opaque atom, normalised to leading coefficient +1 when possible
        return Poly.atom('(' + self.canon() + ')', q)

    def canon(self):
        if not self.terms:
            return '0'
        parts = []
        for k in sorted(self.terms, key=lambda k: (len(k), k)):
            v = self.terms[k]
            mono = '*'.join(a if e == 1 else f'{a}^{e}' for a, e in k)
            if not mono:
                parts.append(f'{v}')
            elif v == 1:
                parts.append(mono)
            elif v == -1:
                parts.append('-' + mono)
            else:
                parts.append(f'{v}*{mono}')
        return ' + '.join(parts).replace('+ -', '- ')

    def __eq__(self, o):
        return isinstance(o, Poly) and self.terms == o.terms

    def __repr__(self):
        return self.canon()


class Unsupported(Exception):
    pass


def translate(node, env, funcs):
    '''AST expression -> Poly.

    env: name -> Poly (parameters);  funcs: callable name (as written) -> ('fn', canonical function name) |
    ('recip',) | ('sqrt',) | ('id',) | ('const',)  describing how a call is read.'''
    if isinstance(node, ast.Constant) and isinstance(node.value, (int, float)) and not isinstance(node.value, bool):
        return Poly.const(Fraction(node.value).limit_denominator(10 ** 6))
    if isinstance(node, ast.Name):
        if node.id in env:
            return env[node.id]
        raise Unsupported(f'unknown name {node.id}')
    if isinstance(node, ast.UnaryOp) and isinstance(node.op, ast.USub):
        return -translate(node.operand, env, funcs)
    if isinstance(node, ast.UnaryOp) and isinstance(node.op, ast.UAdd):
        return translate(node.operand, env, funcs)
    if isinstance(node, ast.BinOp):
        if isinstance(node.op, ast.Pow):
            base = translate(node.left, env, funcs)
            e = translate(node.right, env, funcs)
            if not e.is_const():
                raise Unsupported('non-constant exponent')
            return base.pow(e.const_value())
        a, b = translate(node.left, env, funcs), translate(node.right, env, funcs)
        if isinstance(node.op, ast.Add):
            return a + b
        if isinstance(node.op, ast.Sub):
            return a - b
        if isinstance(node.op, ast.Mult):
            return a * b
        if isinstance(node.op, ast.Div):
            return a * b.pow(-1)
        raise Unsupported(f'operator {type(node.op).__name__}')
    if isinstance(node, ast.Call):
        name = ast.unparse(node.func)
        how = funcs.get(name)
        if how is None:
            raise Unsupported(f'unknown function {name}')
        if how[0] == 'const':      # astype(c, dtype) -> c
            return translate(node.args[0], env, funcs)
        if how[0] == 'id':
            return translate(node.args[0], env, funcs)
        if how[0] == 'recip':
            return translate(node.args[0], env, funcs).pow(-1)
        if how[0] == 'sqrt':
            return translate(node.args[0], env, funcs).pow(Fraction(1, 2))
        if how[0] == 'fn':
            args = [translate(a, env, funcs).canon() for a in node.args] + [f'{k.arg}={translate(k.value, env, funcs).canon()}' for k in node.keywords]
            # keyword n=... and positional second argument are the same parameter
            args = [a.split('=', 1)[1] if '=' in a else a for a in args]
            return Poly.atom(f'{how[1]}(' + ','.join(args) + ')')
    raise Unsupported(f'cannot translate {ast.dump(node)[:60]}')
