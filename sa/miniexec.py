'''A small evaluator for straight-line/loop fragments of the code generator over a mixed domain:
Python ints, strings, lists and tuples are computed exactly; everything that belongs to the generator's
environment (builder, _pyast nodes, compiled operands) is an Opaque symbol that records how it was derived.

Used to decide index bookkeeping that a generator method performs on a FINITE family of abstract inputs
(e.g. every arrangement of up to four range / advanced indices of Assemble): the fragment is interpreted,
nothing of nutils is imported or run, and a construct outside the subset raises Unsupported (ANALYSIS-ERROR).
'''

import ast
import builtins as _b

from .algebra import Unsupported
from .astutil import src


class Opaque:
    def __init__(self, label, origin=None):
        self.label = label
        self.origin = origin    # (callee label, args, kwargs) when produced by a call

    def __repr__(self):
        return self.label


class Sym:
    '''An abstract object with exact attributes (e.g. an index with .ndim).'''

    def __init__(self, **attrs):
        self.__dict__.update(attrs)


class Returned(Exception):
    def __init__(self, value):
        self.value = value


class AssertionFailed(Exception):
    pass


class _Break(Exception):
    pass


class _Continue(Exception):
    pass


class RaisedIn(Exception):
    '''the interpreted fragment executed a `raise`; .name is the exception class as written'''

    def __init__(self, name):
        self.name = name


SAFE_BUILTINS = {'next', 'iter', 'filter', 'map', 'float', 'len', 'range', 'enumerate', 'zip', 'sum', 'tuple', 'list', 'isinstance', 'max', 'min', 'sorted', 'reversed', 'any', 'all', 'str', 'int', 'bool', 'abs', 'set', 'frozenset', 'dict'}
SAFE_METHODS = {'isdisjoint', 'issubset', 'issuperset', 'union', 'intersection', 'difference', 'add', 'update', 'discard', 'fromkeys', 'setdefault', 'reverse', 'sort', 'rstrip', 'lstrip', 'isdigit', 'split', 'rsplit', 'partition', 'strip', 'append', 'extend', 'join', 'index', 'count', 'insert', 'pop', 'copy', 'items', 'keys', 'values', 'get', 'format', 'startswith', 'endswith'}


class Closure:
    '''A function or lambda defined inside the interpreted fragment: called by interpreting its body over the defining environment.'''

    def __init__(self, node, ex):
        self.node = node
        self.ex = ex

    def __call__(self, *args, **kwargs):
        a = self.node.args
        if kwargs or a.vararg or a.kwarg or a.kwonlyargs or a.defaults or len(args) != len(a.posonlyargs + a.args):
            raise Unsupported('call of a local function with anything but plain positional arguments')
        inner = MiniExec(dict(self.ex.env))
        inner.log = self.ex.log
        for p, v in zip(a.posonlyargs + a.args, args):
            inner.env[p.arg] = v
        if isinstance(self.node, ast.Lambda):
            return inner.ev(self.node.body)
        try:
            inner.run(self.node.body)
        except Returned as r:
            return r.value
        return None


class MiniExec:
    def __init__(self, env):
        self.env = dict(env)
        self.log = []       # (callee label, args, kwargs, result) of every call on an Opaque
        self.yielded = []   # values of `yield` statements, in order

    # -- expressions -----------------------------------------------------------------------------------------
    def ev(self, e, env=None):
        env = self.env if env is None else env
        if isinstance(e, ast.Constant):
            return e.value
        if isinstance(e, ast.Name):
            if e.id in env:
                return env[e.id]
            if e.id in SAFE_BUILTINS:
                return getattr(_b, e.id)
            if e.id in ('True', 'False', 'None'):
                return {'True': True, 'False': False, 'None': None}[e.id]
            raise Unsupported(f'unbound name {e.id}')
        if isinstance(e, ast.Attribute):
            if isinstance(e.value, ast.Name) and e.value.id == 'builtins' and e.attr in SAFE_BUILTINS:
                return getattr(_b, e.attr)
            v = self.ev(e.value, env)
            if isinstance(v, Opaque):
                return Opaque(f'{v.label}.{e.attr}')
            if isinstance(v, Sym):
                if not hasattr(v, e.attr):
                    raise Unsupported(f'abstract object has no attribute {e.attr}')
                return getattr(v, e.attr)
            if isinstance(v, (list, tuple, str, dict, set, frozenset)) and e.attr in SAFE_METHODS:
                return getattr(v, e.attr)
            if v is dict and e.attr == 'fromkeys':
                return dict.fromkeys
            raise Unsupported(f'attribute {e.attr} of {type(v).__name__}')
        if isinstance(e, ast.Call):
            f = self.ev(e.func, env)
            args = []
            for a in e.args:
                if isinstance(a, ast.Starred):
                    args.extend(self.ev(a.value, env))
                else:
                    args.append(self.ev(a, env))
            kwargs = {}
            for k in e.keywords:
                if k.arg is None:
                    kwargs.update(self.ev(k.value, env))
                else:
                    kwargs[k.arg] = self.ev(k.value, env)
            if isinstance(f, Opaque):
                r = Opaque(f'{f.label}({", ".join([repr(a) for a in args] + [f"{k}={v!r}" for k, v in kwargs.items()])})', (f.label, tuple(args), kwargs))
                self.log.append((f.label, tuple(args), kwargs, r))
                return r
            if f is _b.isinstance:
                return isinstance(args[0], args[1])
            if callable(f):
                return f(*args, **kwargs)
            raise Unsupported(f'call of {src(e.func)}')
        if isinstance(e, (ast.List, ast.Tuple)):
            out = []
            for x in e.elts:
                if isinstance(x, ast.Starred):
                    out.extend(self.ev(x.value, env))
                else:
                    out.append(self.ev(x, env))
            return out if isinstance(e, ast.List) else tuple(out)
        if isinstance(e, ast.BinOp):
            a, b = self.ev(e.left, env), self.ev(e.right, env)
            if isinstance(a, Opaque) or isinstance(b, Opaque):
                return Opaque(f'({a!r} {type(e.op).__name__} {b!r})')
            ops = {ast.Add: lambda: a + b, ast.Sub: lambda: a - b, ast.Mult: lambda: a * b, ast.FloorDiv: lambda: a // b, ast.Mod: lambda: a % b, ast.Pow: lambda: a ** b,
                   ast.BitAnd: lambda: a & b, ast.BitOr: lambda: a | b, ast.BitXor: lambda: a ^ b}
            if type(e.op) not in ops:
                raise Unsupported(f'operator {type(e.op).__name__}')
            return ops[type(e.op)]()
        if isinstance(e, ast.UnaryOp):
            v = self.ev(e.operand, env)
            if isinstance(e.op, ast.Not):
                return not v
            if isinstance(e.op, ast.USub):
                return -v
            raise Unsupported('unary operator')
        if isinstance(e, ast.BoolOp):
            vals = None
            for x in e.values:
                vals = self.ev(x, env)
                if isinstance(e.op, ast.And) and not vals:
                    return vals
                if isinstance(e.op, ast.Or) and vals:
                    return vals
            return vals
        if isinstance(e, ast.Compare):
            left = self.ev(e.left, env)
            for op, right in zip(e.ops, e.comparators):
                r = self.ev(right, env)
                if isinstance(left, Opaque) or isinstance(r, Opaque):
                    if isinstance(op, (ast.Is, ast.IsNot)):
                        ok = (left is r) == isinstance(op, ast.Is)
                    else:
                        raise Unsupported('comparison of an opaque value')
                else:
                    ok = {ast.Eq: lambda: left == r, ast.NotEq: lambda: left != r, ast.Lt: lambda: left < r, ast.LtE: lambda: left <= r, ast.Gt: lambda: left > r,
                          ast.GtE: lambda: left >= r, ast.In: lambda: left in r, ast.NotIn: lambda: left not in r, ast.Is: lambda: left is r, ast.IsNot: lambda: left is not r}[type(op)]()
                if not ok:
                    return False
                left = r
            return True
        if isinstance(e, ast.IfExp):
            return self.ev(e.body, env) if self.ev(e.test, env) else self.ev(e.orelse, env)
        if isinstance(e, ast.Lambda) and env is self.env:
            return Closure(e, self)
        if isinstance(e, ast.Subscript):
            v = self.ev(e.value, env)
            if isinstance(e.slice, ast.Slice):
                s = slice(*(None if x is None else self.ev(x, env) for x in (e.slice.lower, e.slice.upper, e.slice.step)))
            else:
                s = self.ev(e.slice, env)
            if isinstance(v, Opaque):
                return Opaque(f'{v.label}[{s!r}]')
            return v[s]
        if isinstance(e, ast.GeneratorExp):
            return self._lazy(e.generators, 0, dict(env), e.elt)     # lazily, as in Python: the source may be unbounded (itertools.count())
        if isinstance(e, (ast.ListComp, ast.SetComp)):
            out = []
            self._comp(e.generators, 0, dict(env), lambda en: out.append(self.ev(e.elt, en)))
            return set(out) if isinstance(e, ast.SetComp) else out
        if isinstance(e, ast.DictComp):
            out = {}
            self._comp(e.generators, 0, dict(env), lambda en: out.__setitem__(self.ev(e.key, en), self.ev(e.value, en)))
            return out
        if isinstance(e, ast.Dict):
            return {self.ev(k, env): self.ev(v, env) for k, v in zip(e.keys, e.values)}
        if isinstance(e, ast.JoinedStr):
            return ''.join(str(self.ev(v.value, env)) if isinstance(v, ast.FormattedValue) else v.value for v in e.values)
        raise Unsupported(f'expression {type(e).__name__}: {src(e)[:50]}')

    def _lazy(self, gens, k, env, elt):
        if k == len(gens):
            yield self.ev(elt, env)
            return
        g = gens[k]
        for item in self.ev(g.iter, env):
            en = dict(env)
            self._bind(g.target, item, en)
            if all(self.ev(c, en) for c in g.ifs):
                yield from self._lazy(gens, k + 1, en, elt)

    def _comp(self, gens, k, env, emit):
        if k == len(gens):
            emit(env)
            return
        g = gens[k]
        for item in self.ev(g.iter, env):
            en = dict(env)
            self._bind(g.target, item, en)
            if all(self.ev(c, en) for c in g.ifs):
                self._comp(gens, k + 1, en, emit)

    # -- statements ------------------------------------------------------------------------------------------
    def _bind(self, t, v, env):
        if isinstance(t, ast.Name):
            env[t.id] = v
        elif isinstance(t, (ast.Tuple, ast.List)):
            v = list(v)
            stars = [i for i, x in enumerate(t.elts) if isinstance(x, ast.Starred)]
            if len(stars) == 1:
                i = stars[0]
                after = len(t.elts) - i - 1
                if len(v) < len(t.elts) - 1:
                    raise Unsupported('unpacking of too few values')
                for x, y in zip(t.elts[:i], v[:i]):
                    self._bind(x, y, env)
                self._bind(t.elts[i].value, v[i:len(v) - after], env)
                for x, y in zip(t.elts[i + 1:], v[len(v) - after:] if after else []):
                    self._bind(x, y, env)
                return
            if len(v) != len(t.elts):
                raise Unsupported('unpacking of a different length')
            for x, y in zip(t.elts, v):
                self._bind(x, y, env)
        elif isinstance(t, ast.Subscript):
            self.ev(t.value, env)[self.ev(t.slice, env)] = v
        else:
            raise Unsupported(f'assignment target {type(t).__name__}')

    def run(self, stmts):
        for s in stmts:
            if isinstance(s, ast.Expr) and isinstance(s.value, ast.Yield):
                self.yielded.append(self.ev(s.value.value) if s.value.value is not None else None)     # a generator body: the yielded values are collected in order
            elif isinstance(s, ast.Expr) and isinstance(s.value, ast.YieldFrom):
                self.yielded.extend(self.ev(s.value.value))
            elif isinstance(s, ast.Expr):
                if not (isinstance(s.value, ast.Constant) and isinstance(s.value.value, str)):
                    self.ev(s.value)
            elif isinstance(s, ast.Assign):
                v = self.ev(s.value)
                for t in s.targets:
                    self._bind(t, v, self.env)
            elif isinstance(s, ast.AugAssign):
                cur = self.ev(ast.Name(id=s.target.id, ctx=ast.Load())) if isinstance(s.target, ast.Name) else None
                if cur is None:
                    raise Unsupported('augmented assignment target')
                self.env[s.target.id] = self.ev(ast.BinOp(left=ast.Constant(value=None), op=s.op, right=s.value)) if False else self._aug(cur, s.op, self.ev(s.value))
            elif isinstance(s, ast.If):
                self.run(s.body if self.ev(s.test) else s.orelse)
            elif isinstance(s, ast.For):
                for item in self.ev(s.iter):
                    self._bind(s.target, item, self.env)
                    try:
                        self.run(s.body)
                    except _Continue:
                        continue
                    except _Break:
                        break
                else:
                    self.run(s.orelse)
            elif isinstance(s, ast.While):
                n = 0
                while self.ev(s.test):
                    n += 1
                    if n > 10000:
                        raise Unsupported('while loop does not end within 10000 iterations')
                    try:
                        self.run(s.body)
                    except _Continue:
                        continue
                    except _Break:
                        break
                else:
                    self.run(s.orelse)
            elif isinstance(s, ast.Break):
                raise _Break()
            elif isinstance(s, ast.Continue):
                raise _Continue()
            elif isinstance(s, ast.Assert):
                if not self.ev(s.test):
                    raise AssertionFailed(src(s.test))
            elif isinstance(s, ast.Return):
                raise Returned(self.ev(s.value) if s.value is not None else None)
            elif isinstance(s, ast.Pass):
                pass
            elif isinstance(s, ast.Raise):
                raise RaisedIn(src(s.exc.func) if isinstance(s.exc, ast.Call) else src(s.exc) if s.exc is not None else '')
            elif isinstance(s, ast.FunctionDef) and not s.decorator_list:
                self.env[s.name] = Closure(s, self)
            else:
                raise Unsupported(f'statement {type(s).__name__}')

    @staticmethod
    def _aug(a, op, b):
        if isinstance(op, ast.Add):
            return a + b
        if isinstance(op, ast.Sub):
            return a - b
        if isinstance(op, ast.Mult):
            return a * b
        if isinstance(op, ast.FloorDiv):
            return a // b
        if isinstance(op, ast.Mod):
            return a % b
        raise Unsupported('augmented operator')
