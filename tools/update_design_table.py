#!/venv/bin/python -P
'''Regenerate the seed table of DESIGN.md section 7.5 (between the table header and the 'Totals:' line) from tools/seed_table.py.'''
import os, subprocess, sys
V = os.path.dirname(os.path.dirname(os.path.abspath(__file__)))
out = subprocess.run([sys.executable, '-P', os.path.join(V, 'tools', 'seed_table.py')], capture_output=True, text=True).stdout
table = '\n'.join(l for l in out.splitlines() if 'conda' not in l).strip() + '\n'
p = os.path.join(V, 'DESIGN.md')
s = open(p).read()
a = s.index("| seed | change (agent's title) |")
b = s.index('\n', s.index('Totals:', a)) + 1
open(p, 'w').write(s[:a] + table + s[b:])
print(table.splitlines()[-1])
