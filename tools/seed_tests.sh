#!/bin/bash
# usage: seed_tests.sh <seed-name> <pytest args...>   : run selected tests on a scratch worktree with ONE seed applied
name=$1; shift
wt=$(mktemp -d -u /tmp/seedt-XXXXXX)
git -C /repo worktree add --detach $wt HEAD -f >/dev/null 2>&1
git -C $wt apply /verif/seeded/$name/patch.diff || echo "PATCH DOES NOT APPLY"
(cd $wt && PYTHONPATH=$wt/src /venv/bin/python -m pytest -q -p no:cacheprovider --timeout=1800 "$@" 2>&1 | tail -4)
git -C /repo worktree remove --force $wt
