#!/venv/bin/python -P
'''Intake of a behaviour-preserving refactoring produced by a sub-agent:  benign_intake.py <src dir with patch.diff notes.md> <name>

Applies the patch to a scratch worktree of /repo (outside /repo and /verif, removed afterwards), byte-compiles, and runs EVERY check on the
patched tree.  A benign change must leave all checks silent: every new violation is a false alarm of the machinery (to be corrected), an
ANALYSIS-ERROR is recorded as "needs re-anchoring" (fail-closed, not a false violation).  Writes /verif/benign/<name>/{patch.diff,notes.md,meta.json}.'''
import json, os, shutil, subprocess, sys, tempfile
VERIF = os.path.dirname(os.path.dirname(os.path.abspath(__file__)))
sys.path.insert(0, VERIF)
srcdir, name = sys.argv[1], sys.argv[2]
dest = os.path.join(VERIF, 'benign', name)
patch = os.path.join(srcdir, 'patch.diff')
wt = tempfile.mkdtemp(prefix='benignwt-', dir='/tmp'); os.rmdir(wt)
def sh(cmd, **kw):
    r = subprocess.run(cmd, shell=True, capture_output=True, text=True, **kw)
    return r.returncode, '\n'.join(l for l in (r.stdout + r.stderr).splitlines() if 'conda' not in l)
meta = {'name': name}
try:
    rc, out = sh(f'git -C /repo worktree add --detach {wt} HEAD -f')
    assert rc == 0, out
    rc, out = sh(f'git -C {wt} apply {patch}')
    if rc:
        print('patch does not apply:', out); sys.exit(2)
    rc, out = sh(f'/venv/bin/python -P -m compileall -q src/nutils', cwd=wt)
    meta['compiles'] = rc == 0
    import check
    from sa import AnalysisError
    alarms, errors = {}, {}
    for p in check.PROPS:
        try:
            base = check.analyse(p, 'quick', '/repo', evidence_dir=tempfile.gettempdir())
            basekeys = {o.key() for o in base.obligations if not o.ok}
            rep = check.analyse(p, 'quick', wt, evidence_dir=tempfile.gettempdir())
            new = [o for o in rep.obligations if not o.ok and o.key() not in basekeys]
            if new:
                alarms[p] = [f'[{o.rule}] {o.construct}: {o.detail[:200]}' for o in new]
        except AnalysisError as e:
            errors[p] = str(e)[:300]
        except Exception as e:
            errors[p] = f'{type(e).__name__}: {e}'[:300]
    meta['false_alarms'] = alarms
    meta['analysis_errors'] = errors
    meta['silent'] = not alarms and not errors
    os.makedirs(dest, exist_ok=True)
    shutil.copy(patch, os.path.join(dest, 'patch.diff'))
    if os.path.exists(os.path.join(srcdir, 'notes.md')):
        shutil.copy(os.path.join(srcdir, 'notes.md'), os.path.join(dest, 'notes.md'))
    json.dump(meta, open(os.path.join(dest, 'meta.json'), 'w'), indent=1)
    print(json.dumps(meta, indent=1))
finally:
    sh(f'git -C /repo worktree remove --force {wt}')
