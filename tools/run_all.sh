#!/bin/bash
# Run every registered quick (or thorough) command of MANIFEST.json against /repo and validate manifest + evidence against the schemas.
tier=${1:-quick}
cd /verif
python3-vt - "$tier" <<'PY'
import json, subprocess, sys, jsonschema, time
tier = sys.argv[1]
man = json.load(open('/verif/MANIFEST.json'))
jsonschema.validate(man, json.load(open('/root/.vp/MANIFEST.schema.json')))
es = json.load(open('/root/.vp/EVIDENCE.schema.json'))
bad = 0
for c in man['checks']:
    cmd = c['quick_cmd'] if tier == 'quick' else c['thorough_cmd']
    t = time.time()
    r = subprocess.run(cmd, shell=True, cwd='/verif', capture_output=True, text=True)
    out = [l for l in r.stdout.splitlines() if 'conda' not in l]
    viol = [l for l in out if l.startswith('VIOLATION')]
    ev = json.load(open(c['evidence_file']))
    try:
        jsonschema.validate(ev, es)
        evok = ev['tier'] == tier and ev['property_id'] == c['property_id']
    except Exception as e:
        evok = False
    status = 'ok' if r.returncode == 0 and not viol and evok else 'PROBLEM'
    bad += status != 'ok'
    print(f"{c['property_id']} {tier} exit={r.returncode} violations={len(viol)} evidence_valid={evok} known={sum(l.startswith('KNOWN-FINDING') for l in out)} {time.time()-t:.1f}s {status}")
    if status != 'ok':
        print('\n'.join(out[-8:]))
print('ALL OK' if not bad else f'{bad} PROBLEMS')
sys.exit(1 if bad else 0)
PY
