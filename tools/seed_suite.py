#!/venv/bin/python -P
'''Run the pinned test suite on a scratch worktree with a batch of seeded patches applied together.

usage: seed_suite.py <batch-name> <seed-name> [<seed-name> ...]
Patches whose hunks do not apply on top of the previous ones are skipped (and reported) - run them in another batch.
The junit result is compared with the stable_pass list of /root/.vp/BASELINE.json; every seed of a fully passing batch gets
meta.json["suite"] = {batch, passed: true}.  (If a batch fails, the failing tests are listed so that it can be bisected.)
'''
import json, os, subprocess, sys, tempfile, xml.etree.ElementTree as ET
V = os.path.dirname(os.path.dirname(os.path.abspath(__file__)))
batch, names = sys.argv[1], sys.argv[2:]
wt = tempfile.mkdtemp(prefix='seedsuite-', dir='/tmp'); os.rmdir(wt)
def sh(cmd, **kw):
    return subprocess.run(cmd, shell=True, capture_output=True, text=True, **kw)
try:
    assert sh(f'git -C /repo worktree add --detach {wt} HEAD -f').returncode == 0
    applied = []
    for n in names:
        r = sh(f'git -C {wt} apply {V}/seeded/{n}/patch.diff')
        if r.returncode == 0:
            applied.append(n)
        else:
            print('SKIPPED (does not apply on top of the others):', n)
    print('applied:', applied)
    xml = f'/tmp/suite/{batch}.junit.xml'
    os.makedirs('/tmp/suite', exist_ok=True)
    env = dict(os.environ, PYTHONPATH=os.path.join(wt, 'src'), OMP_NUM_THREADS='1', OPENBLAS_NUM_THREADS='1', MKL_NUM_THREADS='1')  # one BLAS thread per worker: 14 workers x 16 threads oversubscribes the machine
    jobs = os.environ.get('SUITE_JOBS', '14')
    r = sh(f'cd {wt} && /venv/bin/python -m pytest -q -p no:cacheprovider --timeout=1800 --continue-on-collection-errors -n {jobs} --junitxml={xml}', env=env)
    open(f'/tmp/suite/{batch}.log', 'w').write(r.stdout + r.stderr)
    base = set(json.load(open('/root/.vp/BASELINE.json'))['stable_pass'])
    passed = set()
    for tc in ET.parse(xml).iter('testcase'):
        name = f"{tc.get('classname')}::{tc.get('name')}"
        if not any(c.tag in ('failure', 'error', 'skipped') for c in tc):
            passed.add(name)
    missing = sorted(base - passed)
    # tests that fail only because the machine is loaded (timing-dependent ones such as tests.test_parallel.Test::test_range):
    # re-run the missing ones alone, once, and keep only those that fail again
    if 0 < len(missing) <= 30:
        still = []
        for m in missing:
            cls, name = m.split('::', 1)
            parts = cls.split('.')
            node = '/'.join(parts[:2]) + '.py::' + '.'.join(parts[2:]) + '::' + name
            rr = sh(f'cd {wt} && /venv/bin/python -m pytest -q -p no:cacheprovider --timeout=1800 "{node}"', env=env)
            if rr.returncode != 0:
                still.append(m)
            else:
                print('  passes when re-run alone (load-dependent):', m)
        missing = still
    print(f'baseline tests: {len(base)}, passed now: {len(base & passed)}, missing: {len(missing)}')
    for m in missing[:40]:
        print('  FAILS WITH THE BATCH:', m)
    for n in applied:
        mp = f'{V}/seeded/{n}/meta.json'
        d = json.load(open(mp))
        d['suite'] = {'batch': batch, 'applied_together_with': [x for x in applied if x != n], 'baseline_tests': len(base), 'baseline_tests_passing': len(base) - len(missing),
                      'passed': not missing, 'command': 'pytest -q -p no:cacheprovider --timeout=1800 --continue-on-collection-errors -n N (full suite, PYTHONPATH=<scratch worktree>/src)'}
        json.dump(d, open(mp, 'w'), indent=1)
finally:
    sh(f'git -C /repo worktree remove --force {wt}')
