#!/venv/bin/python -P
'''Fill seeded/<name>/meta.json with the fields the brief asks for, taken from the agent's notes.md and STATUS.json:
breaks_property, what_it_changes, needs_to_manifest, agent_tests (as reported by the agent), status (blind / after-reading / missed).'''
import json, os, glob, re
V = os.path.dirname(os.path.dirname(os.path.abspath(__file__)))
st = json.load(open(os.path.join(V, 'seeded', 'STATUS.json')))

def section(text, *titles):
    for t in titles:
        m = re.search(r'^##+ *' + t + r'[^\n]*\n(.*?)(?=^##+ |\Z)', text, re.S | re.M | re.I)
        if m:
            return ' '.join(m.group(1).split())[:1500]
    return ''
for mp in sorted(glob.glob(os.path.join(V, 'seeded', '*', 'meta.json'))):
    d = json.load(open(mp))
    name = os.path.basename(os.path.dirname(mp))
    notes = os.path.join(os.path.dirname(mp), 'notes.md')
    text = open(notes).read() if os.path.exists(notes) else ''
    d['breaks_property'] = d.get('property')
    d['what_it_changes'] = section(text, 'Change')
    d['needs_to_manifest'] = section(text, 'What it needs to manifest', 'Needs in order to manifest', 'Needs', 'What it needs')
    d['agent_tests_reported'] = section(text, 'Tests run', 'Test result')
    d['detection'] = st.get(name, {})
    json.dump(d, open(mp, 'w'), indent=1)
print('updated', len(glob.glob(os.path.join(V, 'seeded', '*', 'meta.json'))))
