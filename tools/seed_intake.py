#!/venv/bin/python -P
'''Intake of a seeded change produced by a sub-agent:  seed_intake.py <PROPERTY> <src dir with patch.diff demo.py notes.md> <name>

Verifies in a scratch worktree of /repo (outside /repo and /verif, removed afterwards):
  demo exits 0 on the clean tree, patch applies, patched tree byte-compiles, demo exits 1 on the patched tree,
then runs the static check of the property (and, with --all, every check) against the patched tree and records
which rules fire.  Writes /verif/seeded/<name>/{patch.diff,demo.py,notes.md,meta.json}.
The existing test suite is run separately (tools/seed_suite.py) because it takes ~10 minutes per run.
'''

import argparse
import json
import os
import shutil
import subprocess
import sys
import tempfile

VERIF = os.path.dirname(os.path.dirname(os.path.abspath(__file__)))
sys.path.insert(0, VERIF)
PY = '/venv/bin/python'


def sh(cmd, cwd=None, env=None, timeout=600):
    r = subprocess.run(cmd, shell=True, cwd=cwd, env=env, capture_output=True, text=True, timeout=timeout)
    out = '\n'.join(l for l in (r.stdout + r.stderr).splitlines() if 'conda' not in l)
    return r.returncode, out


def main():
    ap = argparse.ArgumentParser()
    ap.add_argument('property')
    ap.add_argument('srcdir')
    ap.add_argument('name')
    ap.add_argument('--all', action='store_true')
    ap.add_argument('--recheck', action='store_true', help='only re-run the static checks for an already stored seed')
    a = ap.parse_args()
    dest = os.path.join(VERIF, 'seeded', a.name)
    if a.recheck:
        a.srcdir = dest
    patch = os.path.join(a.srcdir, 'patch.diff')
    demo = os.path.join(a.srcdir, 'demo.py')
    wt = tempfile.mkdtemp(prefix='seedwt-', dir='/tmp')
    os.rmdir(wt)
    meta = {'property': a.property, 'name': a.name}
    try:
        rc, out = sh(f'git -C /repo worktree add --detach {wt} HEAD -f')
        if rc:
            print(out)
            return 2
        env = dict(os.environ, PYTHONPATH=os.path.join(wt, 'src'))
        ran = []
        if not a.recheck:
            rc0, out0 = sh(f'{PY} -P {demo}', cwd='/tmp', env=env)
            ran.append(f'clean tree: demo.py exit {rc0}')
            meta['demo_clean_exit'] = rc0
        rc, out = sh(f'git -C {wt} apply {patch}')
        if rc:
            print('patch does not apply:', out)
            return 2
        rc, out = sh(f'{PY} -P -m compileall -q src/nutils', cwd=wt)
        meta['compiles'] = rc == 0
        rc, out = sh(f'{PY} -P -c "import nutils, nutils.function, nutils.solver, nutils.mesh, nutils.export, nutils.SI, nutils.cache, nutils.expression_v1, nutils.expression_v2, nutils.topology"', cwd='/tmp', env=env)
        meta['imports'] = rc == 0
        if not a.recheck:
            rc1, out1 = sh(f'{PY} -P {demo}', cwd='/tmp', env=env)
            ran.append(f'patched tree: demo.py exit {rc1}: {out1.strip().splitlines()[-1] if out1.strip() else ""}'[:300])
            meta['demo_patched_exit'] = rc1
        import check
        from sa import AnalysisError
        props = check.PROPS if a.all else [a.property]
        det = {}
        for p in props:
            try:
                base = check.analyse(p, 'quick', '/repo', evidence_dir=tempfile.gettempdir())
                basekeys = {o.key() for o in base.obligations if not o.ok}
                rep = check.analyse(p, 'quick', wt, evidence_dir=tempfile.gettempdir())
                new = [o for o in rep.obligations if not o.ok and o.key() not in basekeys]
                det[p] = [f'[{o.rule}] {o.construct}: {o.detail[:160]}' for o in new]
            except AnalysisError as e:
                det[p] = [f'ANALYSIS-ERROR: {e}']
            except ModuleNotFoundError:
                det[p] = ['(no static check for this property)']
        meta['static_check'] = det
        meta['detected'] = bool(det.get(a.property)) and not any(x.startswith(('ANALYSIS-ERROR', '(no static')) for x in det.get(a.property, []))
        if not a.recheck:
            meta['what_i_ran'] = ran
    finally:
        sh(f'git -C /repo worktree remove --force {wt}')
        shutil.rmtree(wt, ignore_errors=True)
    os.makedirs(dest, exist_ok=True)
    if not a.recheck:
        for fn in ('patch.diff', 'demo.py', 'notes.md'):
            s = os.path.join(a.srcdir, fn)
            if os.path.exists(s):
                shutil.copy(s, os.path.join(dest, fn))
    mp = os.path.join(dest, 'meta.json')
    old = {}
    if os.path.exists(mp):
        old = json.load(open(mp))
    old.update(meta)
    with open(mp, 'w') as f:
        json.dump(old, f, indent=1)
    print(json.dumps(meta, indent=1))
    return 0


if __name__ == '__main__':
    sys.exit(main())
