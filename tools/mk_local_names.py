#!/venv/bin/python -P
'''Regenerate oracles/local_names.json from /repo: for every function, the names of its locals in the order of their first binding.
This is the reference NAMING of the anchored tree; sa/normalize.py uses it to undo a renaming of locals (alpha-conversion) before a rule
that anchors on a name gives up.  Run after every commit to /repo.'''
import ast, json, os, sys
V = os.path.dirname(os.path.dirname(os.path.abspath(__file__)))
sys.path.insert(0, V)
from sa.model import Model
from sa.normalize import local_order, _qualified
m = Model(sys.argv[1] if len(sys.argv) > 1 else '/repo')
out = {}
for short, mod in sorted(m.modules.items()):
    d = {}
    for q, node in _qualified(mod.tree):
        names = local_order(node)
        if names:
            d[q] = names
    if d:
        out[short] = d
json.dump(out, open(os.path.join(V, 'oracles', 'local_names.json'), 'w'), indent=0, sort_keys=True)
print(sum(len(v) for v in out.values()), 'functions with locals')
