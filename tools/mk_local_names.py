#!/venv/bin/python -P
'''Regenerate oracles/local_names.json from /repo: for every function, the names of its locals in the order of their first binding.
This is the reference NAMING of the anchored tree; sa/normalize.py uses it to undo a renaming of locals (alpha-conversion) before a rule
that anchors on a name gives up.  Run after every commit to /repo.'''
import ast, json, os, sys
V = os.path.dirname(os.path.dirname(os.path.abspath(__file__)))
sys.path.insert(0, V)
from sa.model import Model
from sa.normalize import local_signatures, _qualified, _CONST_NAME
m = Model(sys.argv[1] if len(sys.argv) > 1 else '/repo')
out = {}
for short, mod in sorted(m.modules.items()):
    d = {}
    for q, node in _qualified(mod.tree):
        sigs = local_signatures(node)
        if sigs:
            d[q] = [list(x) for x in sigs]
    if d:
        out[short] = d
import ast
out['__module_constants__'] = {short: sorted({t.id for s_ in mod.tree.body if isinstance(s_, ast.Assign) for t in s_.targets if isinstance(t, ast.Name) and _CONST_NAME.match(t.id)})
                               for short, mod in sorted(m.modules.items())}
out['__module_constants__'] = {k: v for k, v in out['__module_constants__'].items() if v}
# every function name of the anchored tree (a private helper that is not among them was split off by a refactoring of the tree under test)
out['__functions__'] = {short: sorted({q.rsplit('.', 1)[-1] for q, _ in _qualified(mod.tree)}) for short, mod in sorted(m.modules.items())}
json.dump(out, open(os.path.join(V, 'oracles', 'local_names.json'), 'w'), indent=0, sort_keys=True)
print(sum(len(v) for k, v in out.items() if not k.startswith('__')), 'functions with locals;', out['__module_constants__'])
