#!/venv/bin/python -P
'''Print the markdown table of seeded changes from seeded/*/meta.json and seeded/STATUS.json (for DESIGN.md 7.5).'''
import json, os, glob
V = os.path.dirname(os.path.dirname(os.path.abspath(__file__)))
st = json.load(open(os.path.join(V, 'seeded', 'STATUS.json')))
rows = []
for d in sorted(glob.glob(os.path.join(V, 'seeded', '*', 'meta.json'))):
    name = os.path.basename(os.path.dirname(d))
    m = json.load(open(d))
    notes = os.path.join(os.path.dirname(d), 'notes.md')
    title = ''
    if os.path.exists(notes):
        for ln in open(notes):
            if ln.startswith('#'):
                title = ln.lstrip('# ').strip()
                break
    s = st.get(name, {})
    fires = m.get('static_check', {}).get(m['property'], [])
    rows.append((name, title[:110], s.get('mode', '?'), s.get('by') or s.get('why', ''), 'yes' if m.get('detected') else 'no'))
print('| seed | change (agent\'s title) | now detected by own check | mode | rule / reason |')
print('|---|---|---|---|---|')
for r in rows:
    print(f'| {r[0]} | {r[1]} | {r[4]} | {r[2]} | {r[3]} |')
modes = {}
for r in rows:
    modes[r[2]] = modes.get(r[2], 0) + 1
print()
print('Totals:', ', '.join(f'{k}: {v}' for k, v in sorted(modes.items())), f'(of {len(rows)})')
