#!/venv/bin/python -P
'''Regenerate /verif/MANIFEST.json from the table below (single source of truth for level texts).'''

import json
import os
import sys

HERE = os.path.dirname(os.path.dirname(os.path.abspath(__file__)))
PY = '/venv/bin/python -P /verif/check.py'

CLAIMS = {
    'C14': dict(
        technique='static analysis: structural path enumeration of the solver gates under abstract NaN/unconverged residuals; handler and store-shape rules (ast)',
        text='Decides, on every path through System.solve, _with_solve.solve_withinfo and Matrix._solver, that a NaN or above-tolerance residual norm cannot '
             'reach a normal return; that Matrix._solver checks finiteness and a recomputed residual before returning a computed vector; that backend failures '
             'surface as MatrixError, lenient/step handlers are exact and bounded; that Matrix.solve stores only lhs[~J]=constrain[~J] / lhs[J]+=...; that backend '
             'solvers are reached only through the gate. These are necessary conditions of "certified solution or raise", quantified over all inputs because they '
             'are path properties of the source; convergence, conditioning and independence of the initial guess are NOT decided. Also decided: sub-matrix/preconditioner caches are keyed on everything they depend on, Topology.project never overwrites prescribed constraint values, and in every iteration-method class the residual norm handed to System.solve is that of a residual assembled at the state handed out with it (typestate over enumerated paths; linear-model norms only behind the is_linear refusal).'
             ' Also decided (round 3): System.deconstruct stores the VALUES of a float constraint into the argument (R14.10); no solver front end writes into an array the caller passed, including what deconstruct hands back (R14.9 = R03.7).'
             ' Also decided: every name loaded in solver.py resolves (R14.11).'
             ' Round 4: solve_constraints returns initial state + increment, block right-hand sides are reduced with the largest column norm, Direct uses the strict linear solve (R14.12).',
        note='Trusts: CPython ast; name-based identification of residual norms as the operands compared with tol/atol; IEEE semantics of NaN comparisons; '
             'the three gates are the only functions that hand an iterate to the user (confirmed by reading; R14.5 guards the linear side).',
        design='DESIGN.md section 2, C14'),
    'C15': dict(
        technique='static analysis: guard-dominance over enumerated paths of assemble_csr, who-may-call on the backend gateway, sibling/contract agreement of the three backends, index-base typing (ast)',
        text='Decides that the only entry to a matrix backend (assemble_csr) is dominated on every path by MatrixError guards for the twelve obligations that make a CSR triple '
             'denote exactly one matrix (incl. 0 <= colidx < ncols and strictly increasing columns per row), that all constructors and pickling go through it, that the numpy/scipy/mkl '
             'backends agree on assemble(data,rowptr,colidx,ncols) and on the export contract and that every consumer unpacks it in that order, constructor arities, the derived operators '
             'and caches of the base class, and the one-based index discipline of the MKL backend (which cannot be executed in this sandbox). Necessary conditions of "faithful to the data / '
             'ambiguous input rejected"; numerical agreement of products, transposes and sub-matrices is NOT decided. Also decided: NumpyMatrix.__matmul__ contracts the first operand axis for operands of any dimension, and COO row compression computes index differences in a signed type so that unsorted or out-of-range rows are rejected for every integer dtype; assemble_block_csr establishes the per-block obligations (row pointers from 0 to len(values), column indices inside the block) before it re-bases and splices the blocks.'
             ' Also decided (round 3): compress_indices (CSR row pointers) never returns on counts/end points of the row indices alone (R15.11).'
             ' Also decided: every name loaded in the matrix package and numeric.py resolves (R15.12; matrix.fromsparse is a known finding).'
             ' Also decided (round 5): every column-index array handed to the gateway by assemble_block_csr is re-based by the running offset on every route (R15.9); the T members contain no conjugation (R15.13).',
        note='Trusts: CPython ast; the idiom table for guards (all(e), numpy.all(e), e.all(); shifted-slice and numpy.diff adjacent comparisons); role names of index arrays '
             '(colidx/indices/cols vs rowptr/indptr). Unclassifiable constructs in the anchor give ANALYSIS-ERROR.',
        design='DESIGN.md section 2, C15'),
    'C13': dict(
        technique='static analysis: symtable name resolution, per-path guard facts in front of the yield of the specification parser, taint of the raw specification, emitted-check presence (ast)',
        text='Decides the specification handling behind replace/linearize/derivative: every name in the anchored mechanisms resolves; all documented spellings are accepted; on every enumerated path '
             'to the yield of _argument_to_array the key type, membership, shape and dtype were verified by ValueError guards (or the replacement is built from the key); run-time ingestion emits '
             'a casting-checked conversion to the declared kind + a shape test; the raw specification is consumed only through the parser; announced argument tables are computed from the parsed pairs. Monomial._derivative (the derivative of factored polynomials) scatters through the row-major flat index of the argument\'s multi-index (symbolic execution for 1..4 axes). These are necessary for "all spellings '
             'equivalent, wrong shape/dtype rejected"; that replace/linearize/factor commute with evaluation numerically is NOT decided.'
             ' Also decided (round 3): factor() prunes coefficients only where they are exactly zero (R13.8).'
             ' Also decided: every name loaded in function.py resolves (R13.9; one dead class is a known finding).'
             ' Round 4: replacement values are made loop-disjoint from the operand before substitution (R13.10, after F43).',
        note='Trusts: CPython ast/symtable; the parameter and local names of _argument_to_array as read today (the rule re-derives them from the signature and the yield).',
        design='DESIGN.md section 2, C13'),
    'C17': dict(
        technique='static analysis: typed feed sequences per hasher over enumerated paths (prefix-freeness), determinism taint, branch-component and state-coverage tables, interning key agreement (ast)',
        text='Decides the encoding discipline of nutils_hash and every __nutils_hash__/hashlib user: no hash()/id()/unsorted dict or set iteration feeds a hasher; along every path the feeds of a hasher '
             'form a prefix-free byte encoding with the type tag first; each type branch of nutils_hash feeds the components that distinguish values of that type; hand-written solver hashes cover all '
             'constructor state with unique tags; Immutable/Singleton/DataClass/arraydata canonicalise and intern through one key; the disk-cache key and generated constant names use the full hash. '
             'An encoding that is not injective makes two values share a hash for certain, so each clause is necessary; SHA-1 collision resistance and user-defined hashes are NOT decided.'
             ' Also decided: every name loaded in types.py resolves (R17.9).'
             ' Also decided (round 5, R17.10): nutils_hash and the functions it delegates to are not wrapped in an equality-keyed memo; the dataclass branch feeds every field; iterations that draw fresh loop ids run over sorted sets.',
        note='Trusts: CPython ast; the feed typing table (digest = nutils_hash()/.digest(), delimited = literal NUL terminator, raw, varnum); SHA-1 as a random oracle for fixed-length digests. '
             'Known findings F6, F9a, F9b are listed in known_findings.json.',
        design='DESIGN.md section 2, C17'),
    'C18': dict(
        technique='static analysis: typestate over structurally enumerated paths of the two cache mechanisms with fallible load/compute (ast), def-use of the cache key',
        text='Decides the file protocol of cache.function and Recursion.__iter__ on every enumerated path, with pickle.load forking into EOFError/UnpicklingError and the wrapped computation into an '
             'exception: r+b open, exclusive lock on that handle before any load/dump/seek and around the computation; truncated entries are survived and lead to recomputation; seek(0) between a failed '
             'load and the rewrite; never a rewrite or recomputation after a hit; computation inside disable() with a recorded log that is stored and replayed; exceptions propagate without a store; the '
             'entry name depends on module, qualname, version and every canonical argument; recursion bookkeeping (monotone exhausted flag, trimmed history, resume index, stop marker, layout agreement). '
             'This is the shape that crash tolerance and mutual exclusion need for every history; what the OS guarantees for flock and partial writes and equality of unpickled values are NOT decided. Also decided: every iteration-method class that can be passed to the memoised System.solve is hashable and its hash covers its constructor state.'
             ' Also decided (round 3): the end of a recursion is StopIteration, never a value it may yield (R18.9); class keywords (version) are handed on by the metaclass (R18.10); handles opened outside a with statement take part in the lock typestate.'
             ' Also decided: every name loaded in cache.py resolves (R18.11).'
             ' Also decided (round 5): a computed entry records into a recorder created for that entry (R18.5 fresh-recorder); the type branches of nutils_hash through which every argument enters the key feed what distinguishes their values (R18.4 = R17.5).',
        note='Trusts: CPython ast; that a truncated pickle raises EOFError or UnpicklingError (CPython behaviour); flock semantics.',
        design='DESIGN.md section 2, C18'),
    'C20': dict(
        technique='static analysis: abstraction of each dispatch handler to a dimension transfer signature compared with an oracle table; operator-binding, who-may-call and guard-dominance rules (ast)',
        text='Decides that each of the ~95 registrations in Quantity\'s dispatch table routes its operation to a handler whose required operand equalities and result exponent vector are what dimensional '
             'analysis dictates for that operation, that handlers pass only unwrapped operands on, that every operator dunder binds the same-named table entry (reflected ones through _reverse), that string '
             'division/formatting and construction are dimension-checked and the unchecked parser is not reachable otherwise, that the Dimension algebra adds/subtracts/scales exponents with canonical interning, '
             'that unit strings are parsed with the documented precedence and name resolution, and that both prefix tables equal the SI prefixes. Soundness of the dimension of every supported composition '
             'follows from these per-operation rules; numerical conversion factors and the format round trip are NOT decided.'
             ' Also decided: every name loaded in SI.py and unit.py resolves (R20.10).'
             ' Also decided (round 5, R20.11): Dimension.create validates a new base symbol with the tokenizer of dimension strings; unit._Units.parse uses an exponent only after its sign is settled.',
        note='Trusts: CPython ast; oracles/dimension_rules.json (classification of each operation by dimensional analysis; SI prefixes).',
        design='DESIGN.md section 2, C20'),
    'C16': dict(
        technique='static analysis: lock-region containment, typestate of _fork over enumerated flag-sensitive paths with no-return exits, emission discipline of the block builder, who-may-construct table, shared-allocation def-use (ast)',
        text='Decides the lock, fork and sharing discipline for every schedule: the shared iteration counter is touched only inside its lock in one claim/test/increment critical section and is created before '
             'the fork; in _fork every path on which the process is a child ends in os._exit (non-zero after a failure), the parent kills all recorded children and re-raises, waits for every child and raises if '
             'one failed, and _wait is True only for exit status 0; every statement the code generator emits goes through _block_for over all its expressions, which nests `with lock` for each shared array, and '
             'statement constructors are used elsewhere only at eight listed sites; shared allocation, lock registration and pre-fork lock creation are paired and ctxrange is emitted for outermost loops only; '
             'arrays crossing a parallel region are shared and every claimed index of _locate gets its slot assigned. These are necessary for exactly-once execution, mutual exclusion, visibility and failure '
             'propagation; numerical equality, real schedules and the OS primitives are NOT decided.'
             ' Also decided: every name loaded in parallel.py resolves (R16.7).'
             ' Also decided (round 5): the iterations of a parallel.ctxrange loop are independent - no local bound in the loop body is read before it is bound in the same iteration (R16.8, shown on built-in examples on every run).',
        note='Trusts: CPython ast; os.fork/_exit/waitpid and multiprocessing.Lock semantics; completeness of _pyast Expression.variables (checked under C02/R02.4).',
        design='DESIGN.md section 2, C16'),
    'C19': dict(
        technique='static analysis: raise-type and conversion-guard lints, guard dominance over enumerated paths before each semantic action, table agreement, exception-escape fixpoint over the v1 call graph, opcode writer/reader agreement (ast)',
        text='Decides the rejection discipline and table agreement of both expression languages: in the v2 parser every raise is the module\'s ExpressionSyntaxError and every int()/float() of user text is guarded; '
             'on every enumerated path to the semantic actions divide/power/add/trace/get_element/scope the documented rejections were tested; the bracket table, array operations and default functions are the documented '
             'ones; in v1 the internal _IntermediateError cannot escape any entry point and every opcode tuple that is constructed has a reader branch of compatible arity calling the function it names. These are '
             'necessary for "violations are rejected with the syntax error and never silently evaluated to something else"; that an accepted string evaluates to its index-notation reading is NOT decided.'
             ' Also decided: every name loaded in expression_v1.py and expression_v2.py resolves (R19.9; one unreachable statement is a known finding).'
             ' Round 4: v1 index-adding methods refuse indices that are free or summed; a _Length created in a loop depends on the loop counter (R19.10).',
        note='Trusts: CPython ast/symtable; the documented grammar in the module docstrings as the meaning of the tables; name-based call resolution inside expression_v1.',
        design='DESIGN.md section 2, C19'),
    'C01': dict(
        technique='static analysis: protocol-conformance lint over the class model (arity of declarations, overrides, dynamic call sites), pass-through rule on swap rules, driver invariants (ast)',
        text='PARTIAL. Decides protocol conformance of the rewrite system only: every override and every dynamic call site of the swap-rule protocol declared in evaluable.Array (and of _simplified, _derivative, '
             '_compile_with_out, ...) agrees in arity with the declaration, no _take/_takediag/_inflate rule hands its own axis parameters to the user-facing helper of the same name (different axis convention), and the '
             'fixed-point driver keeps its shape/dtype assertion, loop detection and memoisation. A mismatch is an exception or a transposed result the moment that pair of node kinds meets at depth >= 3, so the clauses are '
             'necessary; termination and value preservation of the ~20 rules per class are NOT decided - no static argument in reach bounds the values over the unbounded term algebra. Also decided (R01.5): binary swap rules that merge two nodes equate the control operand they keep (Choose.index, Inflate.dofmap, LoopSum.index) and a foreign operand enters a loop body only if it is independent of that loop index (capture avoidance); (R01.6) the iszero/isunit guards of rewrite rules test operands that simplification can decide (a guard over `a % b` is dead because Mod never folds constants). Also: independence tests that license moving parts out of a loop are universal; rewrites fire on certain, not merely possible, equality of run-time lengths; the integer ranges that license integer rewrites are sound for the elementary and index-producing nodes (= C06 R06.4).'
             ' Also decided (round 3): a Zeros shortcut for a reduction whose neutral element is 1 (product, determinant) decides the empty axis first (R01.9).'
             ' Also decided: a constant integer vector is rewritten to a Range only under a guard that proves unit steps (R01.10); operand multisets of Multiply/Add are never split by a membership filter (R01.11).'
             ' Round 4: operand slices spread into a rebuilt node tile the operand list (R01.12); the integer transfer functions that license rewrites are sound (R01.8: interpreted for all combinations of small ranges).',
        note='Trusts: CPython ast; name-based MRO of the class model; the table of public-vs-protocol helper pairs confirmed by reading.',
        design='DESIGN.md section 2, C01'),
    'C04': dict(
        technique='static analysis: translation of derivative-table entries to a polynomial normal form compared with a calculus oracle; canonicalised einsum patterns compared with matrix-calculus patterns; symbolic axis arithmetic (ast)',
        text='PARTIAL. Decides the derivative tables: each Pointwise.deriv entry equals, in polynomial normal form, the textbook partial derivative of the NumPy function the class emits (and the class emits the function its '
             'name promises); the einsum patterns and signs of Multiply, Power, Inverse, Determinant, Product, Legendre, TransformCoords, Polyval and the chain rule equal the matrix-calculus patterns up to renaming; zero '
             'rules, memo and shape assertion of the driver; linear structural nodes act on the right axis of the derivative. A wrong table entry is a wrong Jacobian for every input, also where the suite\'s symmetric test '
             'matrices hide it; chain-rule plumbing through loops/Custom/user operations and numerical accuracy are NOT decided. Terms of one product/power rule must be summed in one expression per branch, and derivatives accumulated over arguments must be added, not overwritten; Monomial._derivative scatters through the row-major flat index (symbolic execution). The derivative memo is only handed on by _derivative rules with their own target.'
             ' Also decided (round 3): only boolean/integer data are treated as non-differentiable (R04.8); a derivative rule with several operands sums all contributions on every returning branch, licensed special cases tabled (R04.9); operands of the tabled einsum terms are compared by what they denote, not by the name of a local.'
             ' Round 4: lower() never simplifies; the root-coordinate derivative of a non-square linear map is the left inverse (R04.10).',
        note='Trusts: CPython ast; oracles/calculus.json (textbook calculus); the normal-form algebra is one-sided: an unforeseen but correct spelling (a trig identity) would be reported, accepted alternatives are listed in the oracle.',
        design='DESIGN.md section 2, C04'),
    'C02': dict(
        technique='static analysis: def-use provenance of emitted in-place operations, path enumeration of the in-place protocols, who-may-call, field-coverage lint of the code printer, dependency reachability (ast)',
        text='PARTIAL. Decides the emission discipline of the code generator: every emitted in-place operation targets storage the emitting node owns; accumulation into `out` is preceded by a zero fill on every path on which '
             'mode may be assign; the in-place protocol of another node is entered only through the builder whose escape test keeps dependents/block-order/NotImplemented in order with the copy/iadd fallback; every '
             'expression/statement class of the printer covers all its fields (variables, printing, emptiness, rerun filter) and parenthesises operands; every compiled field is an announced dependency; '
             '_compile_expression arities match. Each clause is necessary for a faithful translation of every DAG shape (a missing zero fill survives the suite because numpy.empty often returns zero pages); that loop '
             'grouping, block ids, Assemble index transposition and the numpy-specific rewrites compute the right values is NOT decided. Further clauses: every Array-typed constructor field is an announced dependency; dependency edges are recorded before the compiled-cache lookup; shared allocation/lock pairing under parallel compilation; loop nodes decline in-place compilation when the destination is defined later; einsum labels and axis positions are kind-typed and never mixed in the fusion rules. A possibly-assign mode is never forwarded to one term while others are accumulated into the same destination without a zero fill; the constant-cache protocol (first_run dispatch) is checked as in C03.'
             ' Also decided (round 3): the block a statement is emitted into is the body of the innermost `with lock` of the shared arrays it mentions (R02.12 = R16.3).'
             ' Also decided: Assemble._compile_with_out transposes and reshapes its operand as NumPy combined (advanced + slice) indexing requires, interpreted for all 340 arrangements of up to four range/advanced indices (R02.13).'
             ' Round 4: a code emitter consults a configuring field of its node on every path or on none (R02.14); slices of one sequence spread into a rebuilt node tile it (R02.15).',
        note='Trusts: CPython ast; the table of owned-storage constructors and view constructors (transpose = full cover, einsum diagonal = partial, slices = loop partition) confirmed by reading.',
        design='DESIGN.md section 2, C02'),
    'C03': dict(
        technique='static analysis: def-use and ordering facts over the cache branch of compile(), shared provenance/printer/constancy/ingestion rules, guard typing of memo slots (ast)',
        text='PARTIAL. Decides the hidden-state protocols: no emitted in-place write can reach an argument, constant or cached value and the rerun filter reaches every nested statement; the constant-intermediate cache '
             'collects exactly the argument-free Array nodes, freezes them read-only, declares them global with first_run, filters the rerun body before the freeze and clears first_run last; isconstant/arguments '
             'overrides are conservative; arguments are ingested by asarray with a shape test; solver.System memo slots hold a matrix only under is_constant_matrix. Violating any of them makes a later call depend on an '
             'earlier one for some call sequence; aliasing of returned arrays through zero-stride views and the memo tables of function.Basis are NOT decided. R03.6 (cached intermediates must be read-only before a view of them can exist) is violated on the pinned commit and reported as known finding F12. R03.7: the solver front ends never store into arrays taken from arguments/constrain (ownership typestate per path); R03.8: the buffer-keyed memo keys arrays by address, strides, shape and element type.'
             ' Also decided (round 3): cached members of the shared Points singletons hand out frozen arrays and Constant.value is a view, not a copy, of the immutable storage (R03.9); the caller-array typestate follows what System.deconstruct hands back (interprocedural summaries, containers).'
             ' Round 4: functools-memoised functions hand out no writable arrays and types.lru_cache bypasses arguments with any writable base (R03.10).',
        note='Trusts: CPython ast; NumPy semantics of setflags(write=False) and asarray.',
        design='DESIGN.md section 2, C03'),
    'C06': dict(
        technique='static analysis: guard implication by an order closure over symbolic lo/hi terms on enumerated paths; interval-arithmetic table for elementary transfer functions; dependency reachability; override lint (ast)',
        text='PARTIAL. Decides the consumers of inferred integer ranges: at every return that drops an InRange/Mod/Minimum/Maximum/NormDim node (or licenses singular_like, index-ness, non-negative exponents, uniform '
             'constants) the path condition implies, by transitive closure with strictness, the inequality that makes the dropped node the identity; the elementary transfer functions equal interval arithmetic; every '
             'compiled field is an announced dependency; isconstant/arguments overrides are conservative. Soundness of the ~25 non-elementary transfer functions, shape/dtype of every node class and function.Array '
             'metadata are NOT decided (they need evaluation of the functions, concretely or symbolically - another technique family). The table of elementary transfer functions includes the index-producing nodes (SearchSorted, ArgSort, Find, Range); announced argument tables of the function-level wrappers are computed from the parsed replacement pairs. Announced integer ranges are computed only from the dependencies of the value; rewrites that keep the announced shape fire on certain equality of run-time lengths only. The shape announced by each function-level _Wrapper(evaluable.X, ..., shape=S) equals the shape property of X behind the point axes (17 sites, labelled-shape interpretation of both expressions).'
             ' Also decided: every name loaded in evaluable.py resolves in an enclosing scope (R06.10, symtable).'
             ' Round 4: transfer functions of Negative, Absolute, Sign, Minimum, Maximum, Add, Multiply, Mod, FloorDivide, NormDim and Einsum are INTERPRETED for all combinations of small operand ranges and must contain every value (R06.4 transfer-sound); Inflate scales its range by the number of dof map entries unless the map is repetition-free; multi-operand arrays announce the arguments of all operands and InRange guards strictly (R06.11).',
        note='Trusts: CPython ast; the meaning of each dropped node (index in [0,length), a mod b = a, ...); guards written in other algebraic spellings than comparisons of lo/hi terms are not understood and would be reported.',
        design='DESIGN.md section 2, C06'),
    'C05': dict(
        technique='static analysis: def-use facts over the final merge of Array.assparse, cross-module tuple-order agreement, decorator presence (ast)',
        text='PARTIAL (narrow). Decides that the final merge of the sparse form takes indices and inverse from one unique(..., return_inverse=True) over all parts, unravels the returned indices from that unique flat index with '
             'the same lengths (reversed) that flattened them, inflates the values over that inverse, that unique() wires sorter/mask/inverse consistently, and that the CSR tuple order (values, rowptr, colidx, ncols) agrees '
             'between evaluable.as_csr, matrix.assemble_csr/assemble_block_csr and function.as_csr. These are what make index tuples unique, sorted and decodable; the index arithmetic of each _assparse override, which is '
             'where values and positions are computed, is NOT decided, except: the flattening and unravel loops of Array.assparse are executed symbolically (row-major, mutually inverse for 1..4 axes), and two clauses added after seeds: the stride vector of Inflate._assparse is row-major (symbolic evaluation), and Multiply._assparse keeps its factor clusters axis-disjoint. _assparse gathers the chunks of every occurrence of the operands (multiset).'
             ' Also decided (round 3): compress_indices never returns on counts/end points alone (R05.9), numpy.bincount with weights is reached for floating point data only (R05.10), every path with parts to merge passes through the unique() merge (R05.1).'
             ' Round 4: the integer-range shortcuts the sparse index arithmetic relies on are licensed by the ranges (R05.11 = R06.1).',
        note='Trusts: CPython ast; anchored on the current shape of Array.assparse (ANALYSIS-ERROR if refactored beyond recognition).',
        design='DESIGN.md section 2, C05'),
    'C07': dict(
        technique='static analysis: symbolic evaluation (inlining of small wrappers, classes read through their emitted expression) of each dispatch chain to a polynomial normal form compared with a NumPy-semantics oracle (ast)',
        text='PARTIAL. Decides dispatch-table agreement for the 42 table-shaped of 81 NumPy registrations: the chain numpy.f -> function-level implementation -> evaluable wrapper/constructor -> emitted NumPy expression has, '
             'as a normal form over the operands (separately for complex operands where the wrapper branches on dtype), the meaning NumPy documents for f; min_dtype/force_dtype realise NumPy\'s result kind class; comparisons '
             'reject complex, logical operations decline non-booleans; the NEP-13/18 hooks consult the table; operators come from NumPy\'s mixin. A wrong table entry is wrong at every point of every sample; broadcasting, '
             'indexing, reshape, einsum, linear algebra and lowering with point axes (the composite implementations) are NOT decided. Also decided: linear-algebra wrappers announce an inexact kind; the dispatch layer never writes into caller-owned arrays; slice bounds are normalised with Python semantics in both layers; dot, matmul and vdot compare the operand shapes before their broadcasting product; every _Transpose is constructed from normalised, permutation-checked axes; shape preconditions that a wrapped evaluable node only asserts (det, inv, eig, eigh, searchsorted) are tested by the wrapping implementation; interp compares the lengths of xp and fp; the subscript loop is checked for joint treatment of index arrays (known finding F20: it applies them one by one); element kinds that a wrapped node only asserts (choose selector, index arrays, det/inv operands) are tested first; NumPy\'s boolean special cases (absolute, contractions, mask subscripts) are honoured. dot, matmul and vdot contract the axis carrying the contracted length of both operands and return NumPy\'s shape for 20 operand-dimension cases (labelled-shape interpretation); transpose, swapaxes, sum, prod, any, all, trace, diagonal and stack deliver NumPy\'s result shape for the 24 oracle calls, and _Transpose.to_end/from_end keep their contract for every axis list of up to four axes (bounded interpretation); build-time divisions by axis lengths exclude zero first.'
             ' Also decided (round 3): numpy.stack compares member shapes and does not broadcast (R07.7), diagonal/trace/moveaxis keep the order of their axis arguments (R07.8), the Zeros shortcut of Product answers 1 over an empty axis (R07.16).'
             ' Round 4: numpy.cross axis overrides all three axis arguments, numeric.inv visits every matrix of a batch, slice.indices components are all used (R07.17); constant-to-Range recognition proves unit steps (R07.18).',
        note='Trusts: CPython ast; oracles/numpy_api.json (documented NumPy semantics and result kinds); the normal-form algebra (one-sided: unforeseen correct spellings would be reported).',
        design='DESIGN.md section 2, C07'),
    'C09': dict(
        technique='static analysis: sibling agreement of the index bookkeeping members of the product/union samples and of the integral lowering (ast)',
        text='PARTIAL (narrow). Decides that all members of the product sample decompose the element index with the same divisor and stride points by the same factor, that all members of the union sample split and shift by '
             'the first part\'s element/point counts, that _Integral.lower takes weights, lower args and the reduction from one loop index and contracts weights with the integrand over the point axes, and that every concrete '
             'sample either implements the four accessors or integrates by delegation. Disagreement between siblings makes integrate != sum(w f) for nested samples; Gauss tables, exactness degrees, point containment and '
             'trimmed mosaics are numerical tables and are NOT decided. Also decided: a composite sample never hands its raw element index to a component accessor, and transformed points scale weights by the absolute determinant. TensorPoints enumerates coordinates, weights and triangulation with the same slow factor; getpoints changes the requested degree only under the bezier scheme test.'
             ' Also decided (round 3): take_elements and _offsets never return on counts alone (R09.8); a per-direction degree tuple is reduced to a total degree by its sum (R09.6).'
             ' Also decided: every name loaded in sample.py, points.py, pointsseq.py and element.py resolves (R09.9).'
             ' Round 4: slice.indices components all used, _Zip.getindex reads the stored point numbers, composite scheme strings are split at the first * (interpreted) (R09.10).'
             ' Also decided (round 5, R09.11): Topology.locate refuses per-target weights together with skip_missing (or restricts them to the found points); subset members read the point mask through getindex. The index arithmetic of R09.1 is compared by denotation (sa/indexform.py), not by spelling.',
        note='Trusts: CPython ast; the member names of sample._Mul/_Add/_Integral as read today.',
        design='DESIGN.md section 2, C09'),
}

NOT_APPLICABLE = {
    'C08': 'Equality of evaluated tensors (gradients of polynomials, unit normals, divergence theorem) over all geometries and element kinds: no clause whose truth is visible in the shape of the code; static analysis in reach cannot bound the values.',
    'C10': 'Measure conservation, closed boundaries and interface uniqueness are numerical/combinatorial facts about constructed meshes over all operation histories; no sound static argument in reach.',
    'C11': 'Equality of affine maps and of located points over all transform-chain nestings; the structural clauses found decide no part of the stated behaviour that can break alone (the shared arrays of _locate are covered under C16).',
    'C12': 'Partition of unity, continuity and dof-map inverses are values of constructed coefficient tables over all basis parameters; no structural necessary condition found.',
}

PENDING = {}  # property id -> reason while its check is not built yet


def main():
    props = [json.loads(l) for l in open(os.path.join(HERE, 'properties.jsonl'))]
    ids = [p['id'] for p in props]
    checks = []
    for pid in ids:
        if pid not in CLAIMS or not os.path.exists(os.path.join(HERE, 'rules', pid.lower() + '.py')):
            continue
        c = CLAIMS[pid]
        checks.append({
            'property_id': pid,
            'quick_cmd': f'{PY} {pid} --tier quick',
            'thorough_cmd': f'{PY} {pid} --tier thorough',
            'evidence_file': f'/verif/evidence/{pid}.json',
            'replay_cmd_template': f'{PY} {pid} --replay {{path}}',
            'engine': 'sa',
            'level_claimed': {'category': 'other', 'text': c['text'], 'design_ref': c['design']},
            'level_note': c['note'] + ' An obligation counts as violated only if it fails on the source as written and on its behaviour-preserving normal forms '
                          '(sa/normalize.py: single-assignment locals substituted under stated purity/ordering conditions, small private helpers expanded), so that naming a subexpression '
                          'or extracting a helper is not an alarm; the assumptions of those rewritings are listed in DESIGN.md 7.7.',
            'technique': c['technique'],
        })
    claimed = {c['property_id'] for c in checks}
    na = []
    for pid in ids:
        if pid in claimed:
            continue
        reason = NOT_APPLICABLE.get(pid) or PENDING.get(pid) or 'static check not built yet in this session; see DESIGN.md section 2 for the planned rules'
        na.append({'property_id': pid, 'reason': reason})
    man = {
        'version': 1,
        'setup_cmd': '/venv/bin/python -P /verif/check.py --help > /dev/null',
        'hooks': {
            'guard': 'NUTILS_VERIF',
            'enable': 'no hooks: the checks parse /repo/src/nutils with ast/symtable and never import or run it; nothing in /repo is instrumented',
            'baseline_off_cmd': 'cd /repo && /venv/bin/python -m pytest -ra -q -p no:cacheprovider --timeout=900 --continue-on-collection-errors',
            'source_commits': [],
            'add_only': True,
        },
        'engines': [{'name': 'sa', 'path': '/verif/sa', 'serves_properties': sorted(claimed),
                     'kind_free_text': 'repository-specific static analysis on the Python AST: source model with MRO, symtable scopes, structural flag-sensitive path enumeration, abstract test evaluation, order closure, '
                                       'behaviour-preserving normal forms (sa/normalize.py), propositional guard equivalence (sa/boolnf.py), metavariable patterns over resolved expressions (sa/pattern.py); rules in /verif/rules'}],
        'checks': checks,
        'not_applicable': na,
        'notes': 'All checks are static (ast/symtable over the working tree of /repo); exit 2 + ANALYSIS-ERROR means the machinery could not decide (anchor moved). '
                 'Genuine defects found on the pinned commit are recorded in /verif/known_findings.json (fixed: fix: commits in /repo; known: KNOWN-FINDING lines).',
    }
    with open(os.path.join(HERE, 'MANIFEST.json'), 'w') as f:
        json.dump(man, f, indent=1)
    print('claimed', sorted(claimed), 'not_applicable', [x['property_id'] for x in na])


if __name__ == '__main__':
    main()
