#!/venv/bin/python -P
'''Entry point of the static checks:  check.py <property-id> [--tier quick|thorough] [--root DIR] [--replay FILE]

Exit 0: every obligation of the property's rules holds on the tree under <root> (default /repo)
Exit 1: at least one unlisted violation; prints `VIOLATION property=<id> replay=<path>`
Exit 2: ANALYSIS-ERROR - the machinery could not decide (anchor vanished, unclassifiable construct)

Nothing of nutils is imported or executed; the sources are parsed with `ast`/`symtable`.
'''

import argparse
import importlib
import json
import os
import sys
import traceback

HERE = os.path.dirname(os.path.abspath(__file__))
if HERE not in sys.path:
    sys.path.insert(0, HERE)

from sa import AnalysisError  # noqa: E402
from sa.model import Model  # noqa: E402
from sa.report import Report  # noqa: E402

PROPS = ['C01', 'C02', 'C03', 'C04', 'C05', 'C06', 'C07', 'C09', 'C13', 'C14', 'C15', 'C16', 'C17', 'C18', 'C19', 'C20']


def analyse(pid, tier, root, evidence_dir=None, quiet=True, model=None):
    """Run the rules of one property and return the Report (nothing printed or written).
    An AnalysisError is re-raised only if no violation was established before it."""
    mod = importlib.import_module(f'rules.{pid.lower()}')
    model = model or Model(root)
    rep = Report(pid, tier, root, evidence_dir=evidence_dir, quiet=quiet)
    try:
        mod.run(model, rep, tier)
    except AnalysisError:
        if not any(not o.ok for o in rep.obligations):
            raise
    return rep


def run_property(pid, tier, root, evidence_dir=None, replay_key=None, quiet=False):
    mod = importlib.import_module(f'rules.{pid.lower()}')
    rep = Report(pid, tier, root, evidence_dir=evidence_dir, quiet=quiet)   # wall clock includes parsing
    model = Model(root)
    rep.unit('modules_parsed', len(model.modules))
    rep.unit('classes_in_model', len(model.classes))
    rep.unit('functions_in_model', len(model.functions))
    rep.extra_coverage['tree_digest'] = model.digest()
    try:
        mod.run(model, rep, tier)
    except AnalysisError as e:
        # an anchor moved or a construct could not be classified: say so, but do not lose violations that were already established
        print(f'ANALYSIS-ERROR property={pid}: {e}')
        if any(not o.ok for o in rep.obligations) and rep.finish(only_key=replay_key) == 1:
            return 1
        return 2
    shortfall = False
    if tier == 'thorough' and replay_key is None:
        shortfall = thorough_selftest(pid, root, rep)
    rc = rep.finish(only_key=replay_key)
    if rc == 0 and shortfall:
        print(f'ANALYSIS-ERROR property={pid}: self-test shortfall (a seeded fault was missed or a benign twin fired); the verdict of the rules on the tree above is unaffected')
        return 2
    return rc


def thorough_selftest(pid, root, rep):
    """Thorough tier: run the seeded-fault / benign-twin slice of this property against scratch copies of the
    tree under test (only the checker runs, never nutils) and record the tallies in the evidence."""
    from selftest import run as st
    import io
    import contextlib
    import tempfile
    out = tempfile.NamedTemporaryFile(prefix='verif-selftest-', suffix='.json', delete=False)
    out.close()
    buf = io.StringIO()
    with contextlib.redirect_stdout(buf):
        rc = st.main(['--property', pid, '--root', root, '--json', out.name, '--jobs', str(min(16, os.cpu_count() or 1))])
    try:
        with open(out.name) as f:
            tally = json.load(f)
    finally:
        os.unlink(out.name)
    rep.extra_coverage['selftest'] = {k: tally.get(k) for k in ('faults_seeded', 'faults_detected', 'benign_total', 'benign_silent', 'inapplicable', 'wall_s')}
    rep.extra_coverage['selftest']['problems'] = tally.get('problems', [])
    print(f"{pid} self-test: {tally.get('faults_detected')}/{tally.get('faults_seeded')} seeded faults detected, "
          f"{tally.get('benign_silent')}/{tally.get('benign_total')} benign twins silent, {tally.get('inapplicable')} inapplicable")
    for ln in tally.get('problems', []):
        print('  SELFTEST-SHORTFALL ' + ln)
    return bool(tally.get('problems'))


def main(argv=None):
    ap = argparse.ArgumentParser()
    ap.add_argument('property')
    ap.add_argument('--tier', default=os.environ.get('VERIF_TIER') or 'quick', choices=['quick', 'thorough'])
    ap.add_argument('--root', default=None)
    ap.add_argument('--evidence-dir', default=None)
    ap.add_argument('--replay', default=None)
    ap.add_argument('--quiet', action='store_true')
    a = ap.parse_args(argv)
    pid = a.property.upper()
    key = None
    try:
        if a.replay:
            with open(a.replay) as f:
                r = json.load(f)
            pid = r['property']
            key = (r['rule'], r['construct'], r.get('statement', ''))
            if a.root is None:
                a.root = r.get('root')
        if a.root is None:
            a.root = os.environ.get('VERIF_ROOT') or '/repo'
        if pid not in PROPS:
            print(f'ANALYSIS-ERROR property={pid}: no static check exists for this property (see MANIFEST.not_applicable)')
            return 2
        evdir = a.evidence_dir
        if evdir is None and os.path.abspath(a.root) != '/repo':
            evdir = os.path.join(HERE, 'out', 'evidence-scratch')
        return run_property(pid, a.tier, a.root, evdir, key, a.quiet)
    except AnalysisError as e:
        print(f'ANALYSIS-ERROR property={pid}: {e}')
        return 2
    except Exception:
        traceback.print_exc()
        print(f'ANALYSIS-ERROR property={pid}: internal error in the checker (traceback above)')
        return 2


if __name__ == '__main__':
    sys.exit(main())
