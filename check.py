#!/venv/bin/python -P
'''Entry point of the static checks:  check.py <property-id> [--tier quick|thorough] [--root DIR] [--replay FILE]

Exit 0: every obligation of the property's rules holds on the tree under <root> (default /repo)
Exit 1: at least one unlisted violation; prints `VIOLATION property=<id> replay=<path>`
Exit 2: ANALYSIS-ERROR - the machinery could not decide (anchor vanished, unclassifiable construct)

Nothing of nutils is imported or executed; the sources are parsed with `ast`/`symtable`.
'''

import argparse
import ast
import importlib
import json
import os
import sys
import traceback

HERE = os.path.dirname(os.path.abspath(__file__))
if HERE not in sys.path:
    sys.path.insert(0, HERE)

from sa import AnalysisError  # noqa: E402
from sa.model import Model  # noqa: E402
from sa.report import Report  # noqa: E402

PROPS = ['C01', 'C02', 'C03', 'C04', 'C05', 'C06', 'C07', 'C09', 'C13', 'C14', 'C15', 'C16', 'C17', 'C18', 'C19', 'C20']


def _run_rules(pid, tier, root, form, evidence_dir=None, quiet=True, model=None, only_modules=None, helpers=None, only_functions=None):
    mod = importlib.import_module(f'rules.{pid.lower()}')
    model = model or Model(root, form=form, only_modules=only_modules, helpers=helpers, only_functions=only_functions)
    rep = Report(pid, tier, root, evidence_dir=evidence_dir, quiet=quiet)
    mod.run(model, rep, tier)
    return rep, model


def _excused(o, repf, modelf):
    """Does the obligation that failed on the source as written hold in the normal form whose complete report is repf?
    It does when the same rule has obligations for the same construct there and all of them hold (never when it has none:
    a rule that no longer recognises the construct proves nothing).  A construct that the form removed (a private helper
    expanded at all its call sites) is judged by the obligations of its class/module siblings."""
    known = [e for e in repf._known() if e.get('status') == 'known']
    same = [p for p in repf.obligations if p.rule == o.rule and p.construct == o.construct and not (not p.ok and any(repf._matches(e, p) for e in known))]
    if same:
        return all(p.ok for p in same)
    if ':' in o.construct and o.construct not in modelf.functions and o.construct not in modelf.classes:
        prefix = o.construct.rsplit('.', 1)[0] + '.' if '.' in o.construct.split(':', 1)[1] else o.construct.split(':', 1)[0] + ':'
        sib = [p for p in repf.obligations if p.rule == o.rule and p.construct.startswith(prefix) and not (not p.ok and any(repf._matches(e, p) for e in known))]
        return bool(sib) and all(p.ok for p in sib)
    return False


def _nested_defs(tree, _cache={}):
    """names of the functions defined inside functions of a module (closures that a refactoring may have split off)"""
    if id(tree) not in _cache:
        _cache[id(tree)] = (tree, {d.name for f in ast.walk(tree) if isinstance(f, (ast.FunctionDef, ast.AsyncFunctionDef))
                                   for d in ast.walk(f) if d is not f and isinstance(d, (ast.FunctionDef, ast.AsyncFunctionDef))})
    return _cache[id(tree)][1]


def _relevant(bad, root):
    """The modules to normalise (those of the failing constructs) and the private helpers whose calls to expand (the failing
    constructs themselves and what they call): the rest of the tree is left as written."""
    import ast
    model = Model(root)
    mods, helpers, funcs, whole = set(), set(), {}, set()
    for o in bad:
        if ':' not in o.construct:
            continue
        m = o.construct.split(':', 1)[0]
        if m in model.modules:
            mods.add(m)
        fn = model.functions.get(o.construct)
        if fn is None and m in model.modules:
            whole.add(m)
        if fn is not None:
            funcs.setdefault(m, set()).add(fn.qualname)
            helpers.add(fn.name)
            for n in ast.walk(fn.node):
                if isinstance(n, ast.Call):
                    nm = n.func.attr if isinstance(n.func, ast.Attribute) else n.func.id if isinstance(n.func, ast.Name) else None
                    if nm and (nm.startswith('_') or nm in _nested_defs(model.modules[m].tree)):
                        helpers.add(nm)
    return (frozenset(mods) or None), frozenset(helpers), {m: frozenset(q) for m, q in funcs.items() if m not in whole}


def _decide_in_normal_forms(pid, tier, root, rep):
    """An obligation is violated only if it fails on the source as written and in every behaviour-preserving normal form
    of it (sa/normalize.py): a refactoring that names a subexpression or moves lines into a private helper must not alarm."""
    from sa.normalize import FORMS
    known = [e for e in rep._known() if e.get('status') == 'known']
    bad = [o for o in rep.obligations if not o.ok and not any(rep._matches(e, o) for e in known)]
    if not bad or os.environ.get('VERIF_FORMS') == 'raw':
        return
    tried = []
    mods, helpers, funcs = _relevant(bad, root)
    attempts = [(form, helpers) for form in FORMS[1:]]
    if 1 < len(helpers) <= 8:   # expanding one helper at a time: another helper of the same function may be one a rule anchors on
        attempts += [('helpers', frozenset({h})) for h in sorted(helpers)]
    for form, hs in attempts:
        try:
            repf, modelf = _run_rules(pid, tier, root, form, only_modules=mods, helpers=hs, only_functions=funcs)
        except Exception as e:    # AnalysisError, or a rule that cannot find its anchor in this form: the form proves nothing
            tried.append(f'{form} (not analysable: {type(e).__name__})')
            continue
        tried.append(form if hs is helpers else f'{form}[{",".join(sorted(hs))}]')
        for o in bad:
            if not o.ok and _excused(o, repf, modelf):
                o.ok = True
                o.detail = f'holds in normal form `{form}` of the source (not as written: {o.detail})'
                o.extra['normal_form'] = form
        bad = [o for o in bad if not o.ok]
        if not bad:
            break
    rep.extra_coverage['normal_forms_consulted'] = tried
    for o in bad:
        o.extra['normal_forms_consulted'] = tried


def analyse(pid, tier, root, evidence_dir=None, quiet=True, model=None):
    """Run the rules of one property and return the Report (nothing printed or written).
    An AnalysisError is re-raised only if no violation was established before it."""
    mod = importlib.import_module(f'rules.{pid.lower()}')
    model = model or Model(root)
    rep = Report(pid, tier, root, evidence_dir=evidence_dir, quiet=quiet)
    try:
        mod.run(model, rep, tier)
    except AnalysisError:
        _decide_in_normal_forms(pid, tier, root, rep)
        if not any(not o.ok for o in rep.obligations):
            rep2 = _retry_with_reference_names(pid, tier, root, evidence_dir, quiet)
            if rep2 is None:
                raise
            return rep2
        return rep
    _decide_in_normal_forms(pid, tier, root, rep)
    return rep


def _new_helpers(root):
    """Names of expandable private helpers (sa.normalize) of the tree under test that no function of the anchored tree carries."""
    from sa.normalize import reference_names, _module_helpers
    ref = reference_names()
    out = set()
    src_root = os.path.join(root, 'src', 'nutils')
    for dirpath, _, files in os.walk(src_root):
        for fn in files:
            if not fn.endswith('.py'):
                continue
            path = os.path.join(dirpath, fn)
            rel = os.path.relpath(path, src_root)[:-3].replace(os.sep, '.')
            short = rel[:-len('.__init__')] if rel.endswith('.__init__') else rel
            if short not in ref.get('__functions__', {}):
                continue
            known = set(ref['__functions__'][short])
            try:
                with open(path) as f:
                    tree = ast.parse(f.read())
            except (OSError, SyntaxError):
                continue
            out |= {h for h in _module_helpers(tree) if h not in known}
    return frozenset(out)


def _retry_with_reference_names(pid, tier, root, evidence_dir=None, quiet=True):
    """A rule that anchors on the NAME of a local gives up (AnalysisError) when that local was renamed.  Renaming locals consistently preserves
    behaviour, so the rules are run once more on the tree with the locals of every function renamed towards the reference naming of the anchored
    tree (oracles/local_names.json, by binding order).  Returns the complete report of that run, or None if it cannot be analysed either."""
    rep = None
    attempts = [(form, None) for form in ('names', 'names+canon', 'names+vocab', 'names+all')]
    new = _new_helpers(root)
    if new:   # statements that were moved into a private helper which the anchored tree does not have: put them back (whole tree, these helpers only)
        attempts += [(form, new) for form in ('helpers', 'names+helpers', 'names+canon+helpers', 'names+all+helpers')]
    for form, hs in attempts:
        try:
            rep, _ = _run_rules(pid, tier, root, form, evidence_dir=evidence_dir, quiet=quiet, helpers=hs)
            break
        except Exception:
            rep = None
    if rep is None:
        return None
    rep.extra_coverage['decided_on'] = f'the tree in normal form `{form}` (locals renamed to the reference naming; loops and conditionals in canonical spelling' + \
        (f'; calls of the private helpers {sorted(hs)}, which the anchored tree does not have, expanded' if hs else '') + '), because a rule could not find its anchor in the source as written'
    _decide_in_normal_forms(pid, tier, root, rep)
    return rep


def run_property(pid, tier, root, evidence_dir=None, replay_key=None, quiet=False):
    mod = importlib.import_module(f'rules.{pid.lower()}')
    rep = Report(pid, tier, root, evidence_dir=evidence_dir, quiet=quiet)   # wall clock includes parsing
    model = Model(root)
    rep.unit('modules_parsed', len(model.modules))
    rep.unit('classes_in_model', len(model.classes))
    rep.unit('functions_in_model', len(model.functions))
    rep.extra_coverage['tree_digest'] = model.digest()
    try:
        mod.run(model, rep, tier)
    except AnalysisError as e:
        # an anchor moved or a construct could not be classified: do not lose violations that were already established
        _decide_in_normal_forms(pid, tier, root, rep)
        if any(not o.ok for o in rep.obligations):
            print(f'ANALYSIS-ERROR property={pid}: {e}')
            return 1 if rep.finish(only_key=replay_key) == 1 else 2
        rep2 = _retry_with_reference_names(pid, tier, root, evidence_dir, quiet)
        if rep2 is None:
            print(f'ANALYSIS-ERROR property={pid}: {e}')
            return 2
        print(f'INFO {pid}: a rule could not find a local it anchors on ({str(e)[:120]}); decided on the tree with locals renamed to the reference naming')
        rep2.t0 = rep.t0
        rep2.units.update(rep.units)
        rep2.extra_coverage['tree_digest'] = rep.extra_coverage.get('tree_digest')
        rep = rep2
    _decide_in_normal_forms(pid, tier, root, rep)
    shortfall = False
    if tier == 'thorough' and replay_key is None:
        shortfall = thorough_selftest(pid, root, rep)
        thorough_forms(pid, root, rep)
    rc = rep.finish(only_key=replay_key)
    if rc == 0 and shortfall:
        print(f'ANALYSIS-ERROR property={pid}: self-test shortfall (a seeded fault was missed or a benign twin fired); the verdict of the rules on the tree above is unaffected')
        return 2
    return rc


def thorough_selftest(pid, root, rep):
    """Thorough tier: run the seeded-fault / benign-twin slice of this property against scratch copies of the
    tree under test (only the checker runs, never nutils) and record the tallies in the evidence."""
    from selftest import run as st
    import io
    import contextlib
    import tempfile
    out = tempfile.NamedTemporaryFile(prefix='verif-selftest-', suffix='.json', delete=False)
    out.close()
    buf = io.StringIO()
    with contextlib.redirect_stdout(buf):
        rc = st.main(['--property', pid, '--root', root, '--json', out.name, '--jobs', str(min(16, os.cpu_count() or 1))])
    try:
        with open(out.name) as f:
            tally = json.load(f)
    finally:
        os.unlink(out.name)
    rep.extra_coverage['selftest'] = {k: tally.get(k) for k in ('faults_seeded', 'faults_detected', 'benign_total', 'benign_silent', 'inapplicable', 'wall_s')}
    rep.extra_coverage['selftest']['problems'] = tally.get('problems', [])
    print(f"{pid} self-test: {tally.get('faults_detected')}/{tally.get('faults_seeded')} seeded faults detected, "
          f"{tally.get('benign_silent')}/{tally.get('benign_total')} benign twins silent, {tally.get('inapplicable')} inapplicable")
    for ln in tally.get('problems', []):
        print('  SELFTEST-SHORTFALL ' + ln)
    return bool(tally.get('problems'))


def thorough_forms(pid, root, rep):
    """Thorough tier: the rules are also run on whole-tree normal forms of the tree under test (every admissible local substituted).  A rule that
    holds as written but fails there depends on the spelling of a local (a refactoring that inlines that local would alarm); it is reported as
    information and recorded in the evidence - it is not a verdict on the property."""
    known = [e for e in rep._known() if e.get('status') == 'known']
    out = {}
    for form in ('proj', 'once', 'all'):
        try:
            repf, _ = _run_rules(pid, 'quick', root, form)
            bad = [o for o in repf.obligations if not o.ok and not any(rep._matches(e, o) for e in known)]
            out[form] = {'obligations': len(repf.obligations), 'spelling_dependent': [f'{o.rule} {o.construct}' for o in bad]}
        except Exception as e:
            out[form] = {'not_analysable': f'{type(e).__name__}: {str(e)[:160]}'}
    rep.extra_coverage['normal_form_robustness'] = out
    for form, r in out.items():
        if 'not_analysable' in r:
            print(f'INFO {pid} whole-tree normal form `{form}`: not analysable ({r["not_analysable"]})')
        else:
            print(f'INFO {pid} whole-tree normal form `{form}`: {r["obligations"]} obligations, {len(r["spelling_dependent"])} depend on the spelling of a local' +
                  (': ' + '; '.join(r['spelling_dependent'][:4]) if r['spelling_dependent'] else ''))


def main(argv=None):
    ap = argparse.ArgumentParser()
    ap.add_argument('property')
    ap.add_argument('--tier', default=os.environ.get('VERIF_TIER') or 'quick', choices=['quick', 'thorough'])
    ap.add_argument('--root', default=None)
    ap.add_argument('--evidence-dir', default=None)
    ap.add_argument('--replay', default=None)
    ap.add_argument('--quiet', action='store_true')
    a = ap.parse_args(argv)
    pid = a.property.upper()
    key = None
    try:
        if a.replay:
            with open(a.replay) as f:
                r = json.load(f)
            pid = r['property']
            key = (r['rule'], r['construct'], r.get('statement', ''))
            if a.root is None:
                a.root = r.get('root')
        if a.root is None:
            a.root = os.environ.get('VERIF_ROOT') or '/repo'
        if pid not in PROPS:
            print(f'ANALYSIS-ERROR property={pid}: no static check exists for this property (see MANIFEST.not_applicable)')
            return 2
        evdir = a.evidence_dir
        if evdir is None and os.path.abspath(a.root) != '/repo':
            evdir = os.path.join(HERE, 'out', 'evidence-scratch')
        return run_property(pid, a.tier, a.root, evdir, key, a.quiet)
    except AnalysisError as e:
        print(f'ANALYSIS-ERROR property={pid}: {e}')
        return 2
    except Exception:
        traceback.print_exc()
        print(f'ANALYSIS-ERROR property={pid}: internal error in the checker (traceback above)')
        return 2


if __name__ == '__main__':
    sys.exit(main())
