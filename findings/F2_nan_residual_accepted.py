import sys, numpy, warnings
warnings.simplefilter('ignore')
from nutils import function, solver
from nutils.solver import System, SolverError
from nutils import matrix
u = function.field('u')            # scalar unknown
res = numpy.log(u) + 3.           # d/dv (v*res): residual log(u)+3, Newton from u=1 jumps to u=-2 -> log(-2)=nan
v = function.field('v')
sys_ = System(v * res, trial='u', test='v')
try:
    out = sys_.solve(arguments=dict(u=numpy.array(1.)), tol=1e-10, maxiter=1)
except (SolverError, matrix.MatrixError) as e:
    print('ok: raised', type(e).__name__, e); sys.exit(0)
r = float(numpy.log(out['u']) + 3) if out['u'] > 0 else float('nan')
print('DEFECT F2: solve returned u =', out['u'], 'with residual', r); sys.exit(1)
