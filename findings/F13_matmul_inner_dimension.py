import sys, numpy, warnings
warnings.simplefilter('ignore')
from nutils import function
a = function.Argument('a', (2, 3)); b = function.Argument('b', (1, 4))
try:
    r = numpy.matmul(a, b)
except ValueError as e:
    print('ok: rejected:', e); sys.exit(0)
print('DEFECT F13: matmul of shapes (2,3) and (1,4) is accepted and broadcast to', r.shape, '- NumPy rejects it'); sys.exit(1)
