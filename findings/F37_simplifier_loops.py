'''F37 (C01, observed - no static rule decides it): two of the examples quoted in the property text are still present: the simplifier does not
terminate on TakeDiag/Power of an inflated Diagonalize.  Inflate._takediag answers Inflate(TakeDiag(Take(func, dofmap))), Diagonalize._take answers
Inflate(Diagonalize(Take(...))): for a dof map that does not shrink the array (a permutation, or repeated dofs) the two rules feed each other.
Termination of the rewriting system is outside what the structural rules decide (DESIGN 7.6); recorded as an observation.  exit 1 = still present.'''
import sys, signal, warnings, numpy
warnings.simplefilter('ignore')
from nutils import evaluable as ev
c = ev.constant


def alarm(*a):
    raise TimeoutError('no result after 20 s')
signal.signal(signal.SIGALRM, alarm)
bad = []
a = ev.Argument('a', (c(2),), float)
A = ev.Argument('A', (c(3), c(3)), float)
d = ev.Argument('d', (c(3),), float)
for name, build in (('(Inflate(Diagonalize(a), [1,0], 2))**2', lambda: ev.power(ev.Inflate(ev.Diagonalize(a), c(numpy.array([1, 0])), c(2)), c(2.))),
                    ('TakeDiag(Inflate(A, [0,0,2], 3) * Diagonalize(d))', lambda: ev.TakeDiag(ev.Inflate(A, c(numpy.array([0, 0, 2])), c(3)) * ev.Diagonalize(d)))):
    signal.alarm(20)
    try:
        build().simplified
    except BaseException as e:
        bad.append(f'{name}: {type(e).__name__}: {e}')
    finally:
        signal.alarm(0)
for line in bad:
    print('OBSERVED F37:', line)
if not bad:
    print('ok: both expressions simplify')
sys.exit(1 if bad else 0)
