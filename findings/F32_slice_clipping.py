import sys, numpy, warnings
warnings.simplefilter('ignore')
from nutils import function
a = function.Argument('a', (5,)); v = numpy.arange(5.)
bad = []
for sl in slice(-10, 3), slice(1, 10), slice(3, 1), slice(-100, 100):
    try:
        got = function.eval(a[sl], dict(a=v)).tolist()
    except Exception as e:
        bad.append(f'a[{sl.start}:{sl.stop}] of a length-5 function array fails with {type(e).__name__}; NumPy gives {v[sl].tolist()}'); continue
    if got != v[sl].tolist():
        bad.append(f'a[{sl.start}:{sl.stop}] of a length-5 function array evaluates to {got}; NumPy gives {v[sl].tolist()}')
for line in bad:
    print('DEFECT F32:', line)
if not bad:
    print('ok: slice bounds are clipped as in NumPy')
sys.exit(1 if bad else 0)
