import sys, numpy, warnings
warnings.simplefilter('ignore')
from nutils import function
a = function.Argument('a', (2, 3))
val = numpy.arange(6.).reshape(2, 3)
bad = []
for axes in (0, 0), (0,), (0, 1, 1):
    try:
        r = numpy.transpose(a, axes)
    except (ValueError, IndexError):
        continue
    bad.append(f'transpose of a (2,3) array with axes {axes} is accepted with shape {r.shape} - NumPy rejects it')
try:
    got = function.eval(numpy.transpose(a, (-1, 0)), dict(a=val))
    if got.shape != (3, 2) or (got != val.T).any():
        bad.append('transpose with axes (-1,0) gives the wrong value')
except Exception as ex:
    bad.append(f'transpose with axes (-1,0), valid in NumPy, fails with {type(ex).__name__} at evaluation')
for line in bad:
    print('DEFECT F16:', line)
if not bad:
    print('ok: transpose validates and normalises its axes')
sys.exit(1 if bad else 0)
