import sys, numpy, warnings
warnings.simplefilter('ignore')
from nutils import expression_v1, mesh
dom, geom = mesh.rectilinear([2, 2])
ns = expression_v1.Namespace(length_i=2)
ns.x = geom; ns.a = 2.; ns.b = numpy.array([1., 2.])
bad = []
try:
    ns.eval_i('(a + b_i b_i) b_i')
    bad.append("F33 '(a + b_i b_i) b_i' is accepted although the index i occurs three times ('(b_i b_i + a) b_i' is rejected)")
except expression_v1.ExpressionSyntaxError:
    pass
try:
    'foo(a)' @ ns
    bad.append("F34 'foo(a)' accepted")
except expression_v1.ExpressionSyntaxError:
    pass
except KeyError:
    bad.append("F34 the unknown function name in 'foo(a)' leaves as KeyError, not ExpressionSyntaxError")
fl = dict(ns.copy_()._fixed_lengths)
if fl != {'i': 2}:
    bad.append(f'F35 Namespace.copy_ turns the fixed index lengths {{"i": 2}} into {fl}')
for line in bad:
    print('DEFECT', line)
if not bad:
    print('ok')
sys.exit(1 if bad else 0)
