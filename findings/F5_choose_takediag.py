import sys, numpy
from nutils import evaluable as ev
i = ev.Argument('i', (ev.constant(3), ev.constant(4), ev.constant(3)), int)
a = ev.Argument('a', (ev.constant(3), ev.constant(4), ev.constant(3), ev.constant(2)), float)
d = ev.takediag(ev.Choose(i, a), 0, 2)
I = numpy.arange(36).reshape(3, 4, 3) % 2
A = numpy.arange(72.).reshape(3, 4, 3, 2)
ref = numpy.einsum('iji->ji', numpy.choose(I, numpy.moveaxis(A, -1, 0)))
plain = ev.compile(d, _simplify=False, _optimize=False)(dict(i=I, a=A))
try:
    simp = ev.compile(d.simplified, _simplify=False, _optimize=False)(dict(i=I, a=A))
except Exception as e:
    print('DEFECT F5: simplification fails:', type(e).__name__, e); sys.exit(1)
if plain.shape != simp.shape or not numpy.array_equal(plain, simp):
    print('DEFECT F5: simplified value differs from the unsimplified one'); sys.exit(1)
print('ok'); sys.exit(0)
