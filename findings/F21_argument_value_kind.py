import sys, numpy, warnings
warnings.simplefilter('ignore')
from nutils import function
a = function.Argument('a', (3,))
i = function.Argument('i', (3,), dtype=int)
bad = []
for name, f, arg in ('complex value for a real argument', a * 2, dict(a=numpy.ones(3) * 1j)), ('real value 1.5 for an integer argument', i * 2, dict(i=numpy.ones(3) * 1.5)), ('strings for a real argument', a * 2, dict(a=['1', '2', '3'])):
    try:
        r = function.eval(f, arg)
    except (TypeError, ValueError):
        continue
    bad.append(f'{name} is accepted and evaluates to {r.tolist()}')
ok = function.eval(a * 2, dict(a=numpy.arange(3))).tolist() == [0., 2., 4.]   # int for a real argument keeps working
if not ok:
    bad.append('integer values for a real argument no longer work')
for line in bad:
    print('DEFECT F21:', line)
if not bad:
    print('ok: argument values of another kind are rejected')
sys.exit(1 if bad else 0)
