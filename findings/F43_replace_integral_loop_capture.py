'''F43 (C13/C01): replacing an argument of one integral by another integral over the same sample nested two loops with the SAME loop id
(_Integral.lower names its loop `_sample_<depth>`, and _Replace.lower lowers the replacement outside the loops of its operand): the simplifier
treats the two indices as one and the value is silently wrong (2275.2 instead of 694.6 in this example); without simplification the value is right.
exit 1 = defect present.'''
import sys, numpy, warnings
warnings.simplefilter('ignore')
from nutils import mesh, function
topo, geom = mesh.rectilinear([4])
basis = topo.basis('std', degree=1)
J = function.J(geom)
x = geom[0]
u = function.Argument('u', basis.shape)
v = function.Argument('v', basis.shape)
F = topo.integral((basis @ u)**2 * (1 + x) * J, degree=4)
G = topo.integral(basis * (x**2 + basis @ v) * J, degree=4)
R = function.replace_arguments(F, dict(u=G))
vv = numpy.linspace(1, 2, len(basis))
two_steps = function.eval(F, dict(u=function.eval(G, dict(v=vv))))
one_step = function.eval(R, dict(v=vv))
if not numpy.allclose(two_steps, one_step):
    print(f'DEFECT F43: F with u replaced by the integral G evaluates to {one_step}, evaluating G first and then F gives {two_steps}')
    sys.exit(1)
print('ok: replacing an argument by an integral gives the value of the composition')
