import sys, numpy
from nutils import evaluable as ev
o = ev.InRange(ev.Argument('o', (), int), ev.constant(4))
i = ev.loop_index('i', 6)
K = ev.loop_concatenate(ev.InsertAxis(ev.astype(i, float) * 2., ev.constant(1)), i)      # a constant computed on the first call: [0,2,4,6,8,10]
f = ev.Take(K, ev.Range(ev.constant(3)) + ev.InsertAxis(o, ev.constant(3)))              # optimised to the slice K[o:o+3]
c = ev.compile(f)
r1 = c(dict(o=1))
if r1.flags.writeable:
    r1[...] = -7                                                                         # the user overwrites a result it was given
r2 = c(dict(o=1))
fresh = ev.compile(f)(dict(o=1))
if not numpy.array_equal(r2, fresh):
    print('KNOWN FINDING F12: the first call returns a WRITABLE view of a cached constant; after overwriting it the next call returns', r2, 'instead of', fresh); sys.exit(1)
print('ok'); sys.exit(0)
