import sys, numpy, warnings
warnings.simplefilter('ignore')
from nutils import expression_v1, mesh
dom, geom = mesh.rectilinear([2, 2])
ns = expression_v1.Namespace()
ns.x = geom
ns.s = 2.
bad = []
for e in 's) + 1', 's, anything )))', 's] t', 's> t', 's,i':
    try:
        r = e @ ns
    except expression_v1.ExpressionSyntaxError:
        continue
    bad.append(f'{e!r} @ ns is accepted and evaluates to s')
for line in bad:
    print('DEFECT F23:', line)
if not bad:
    print('ok: trailing input is rejected')
sys.exit(1 if bad else 0)
