import sys, numpy, warnings
warnings.simplefilter('ignore')
from nutils import function, evaluable
x = function.Argument('x', (3,))
val = numpy.array([-2., -1., 3.])
bad = []
for name, e in ('(x**4)**.25', numpy.power(numpy.power(x, 4), .25)), ('(x**4)**.125', numpy.power(numpy.power(x, 4), .125)):
    ea = e.as_evaluable_array
    v0 = evaluable.eval_once(ea, _simplify=False, _optimize=False, arguments=dict(x=val))
    v1 = evaluable.eval_once(ea, _simplify=True, _optimize=False, arguments=dict(x=val))
    if not numpy.allclose(v0, v1, equal_nan=True):
        bad.append(f'{name} at x={val.tolist()}: unsimplified {v0.tolist()}, simplified {v1.tolist()}')
for line in bad:
    print('DEFECT F31:', line)
if not bad:
    print('ok: simplification keeps the absolute value of even powers')
sys.exit(1 if bad else 0)
