import sys, numpy
from nutils import function
u = function.Argument('u', (2,), float)
f = u * 2.
try:
    g = function.replace_arguments(f, [(function.Argument('u', (2,), float), function.Argument('v', (2,), float))])
except NameError as e:
    print('DEFECT F1: Argument-object spelling raises', type(e).__name__, e); sys.exit(1)
assert 'v' in g.arguments and 'u' not in g.arguments
print('ok'); sys.exit(0)
