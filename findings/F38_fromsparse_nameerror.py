'''F38 (C15, known): matrix.fromsparse refers to the removed module nutils.sparse - NameError on every call.  exit 1 = still present.'''
import sys, numpy
from nutils import matrix
try:
    matrix.fromsparse(numpy.zeros((0,), dtype=[('index', [('i0', 'u1'), ('i1', 'u1')]), ('value', float)]))
except NameError as e:
    print('KNOWN F38:', e)
    sys.exit(1)
except Exception as e:
    print('other failure:', type(e).__name__, e)
    sys.exit(0)
print('ok')
