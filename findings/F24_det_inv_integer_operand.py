import sys, numpy, warnings
warnings.simplefilter('ignore')
from nutils import function
m = function.Argument('m', (2, 2), dtype=int)
val = numpy.array([[2, 1], [1, 3]])
bad = []
for f in numpy.linalg.det, numpy.linalg.inv:
    x = f(m)
    try:
        got = function.eval(x, dict(m=val))
    except Exception as e:
        bad.append(f'numpy.linalg.{f.__name__} of an integer function array announces dtype {x.dtype.__name__} but evaluation fails with {type(e).__name__}; NumPy returns {f(val).tolist()}')
        continue
    if not numpy.allclose(got, f(val)):
        bad.append(f'numpy.linalg.{f.__name__}: wrong value')
for line in bad:
    print('DEFECT F24:', line)
if not bad:
    print('ok: det and inv accept integer operands as NumPy does')
sys.exit(1 if bad else 0)
