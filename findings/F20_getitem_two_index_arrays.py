import sys, numpy, warnings
warnings.simplefilter('ignore')
from nutils import function
a = function.Argument('a', (2, 3))
val = numpy.arange(6.).reshape(2, 3)
got = a[[0, 1], [0, 1]]
want = val[[0, 1], [0, 1]]
if got.shape != want.shape:
    print(f'DEFECT F20: a[[0,1],[0,1]] of a (2,3) function array has shape {got.shape}: the index arrays are applied one after the other (outer indexing); NumPy broadcasts them against each other and gives shape {want.shape}')
    try:
        a[[0, 1], [0, 1, 2]]
        print('DEFECT F20: a[[0,1],[0,1,2]] is accepted - NumPy raises IndexError (shape mismatch: indexing arrays could not be broadcast together)')
    except (IndexError, ValueError):
        pass
    sys.exit(1)
print('ok'); sys.exit(0)
