import sys, warnings
warnings.simplefilter('ignore')
from nutils import SI, function, mesh
topo, geom = mesh.rectilinear([2, 2])
x = geom * SI.units.m
try:
    k = function.curvature(x)
except RecursionError:
    print('DEFECT F10: function.curvature of a Length-valued geometry recurses forever (handler passes the wrapped operand on)'); sys.exit(1)
if type(k) is not SI.Length**-1:
    print('DEFECT F10: curvature has dimension', type(k).__name__); sys.exit(1)
print('ok'); sys.exit(0)
