'''F44 (C06/C01): Inflate announced the integer range of its operand (and 0) although entries that share a dof are summed: with a dof map that has
repetitions the value leaves the announced range and range-based simplifications (here Mod -> dividend) silently change the value.  exit 1 = present.'''
import sys, numpy, warnings
warnings.simplefilter('ignore')
from nutils import evaluable as ev
c = ev.constant
i = ev.InRange(ev.Argument('i', (), int), c(2))                                         # a value in [0, 1]
g = ev.Inflate(ev.InsertAxis(i, c(3)), c(numpy.array([0, 0, 0])), c(1))               # 3*i: in [0, 3]
h = ev.Mod(g, ev.InsertAxis(c(2), c(1)))
plain = ev.compile(h, stats=False, _simplify=False, _optimize=False)(dict(i=numpy.array(1)))
default = ev.compile(h, stats=False)(dict(i=numpy.array(1)))
lo, hi = g._intbounds
bad = []
if not lo <= 3 <= hi:
    bad.append(f'Inflate of three entries in [0,1] onto one dof announces the range [{lo}, {hi}], the value can be 3')
if plain.tolist() != default.tolist():
    bad.append(f'(3*i) % 2 at i=1 evaluates to {default.tolist()} in the default (simplified) mode and to {plain.tolist()} without simplification')
for line in bad:
    print('DEFECT F44:', line)
if not bad:
    print('ok: the announced range of Inflate covers summed repetitions')
sys.exit(1 if bad else 0)
