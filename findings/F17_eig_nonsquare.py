import sys, numpy, warnings
warnings.simplefilter('ignore')
from nutils import function
bad = []
for shape in (2, 3), (3,):
    a = function.Argument('a', shape)
    for name in 'eig', 'eigh':
        try:
            w, v = getattr(numpy.linalg, name)(a)
        except ValueError:
            continue
        bad.append(f'numpy.linalg.{name} of a {shape} function array is accepted (eigenvalues {w.shape}, eigenvectors {v.shape}) - NumPy raises LinAlgError')
for line in bad:
    print('DEFECT F17:', line)
if not bad:
    print('ok: eig and eigh reject non-square operands')
sys.exit(1 if bad else 0)
