import sys, numpy, warnings
warnings.simplefilter('ignore')
from nutils import function, mesh
bad = []
m = function.Argument('m', (2, 0, 3))
for shape in (0, 6), (3, 0, 2), (2, -1, 3):
    try:
        got = numpy.reshape(m, shape).shape
        want = numpy.reshape(numpy.zeros((2, 0, 3)), shape).shape
        if got != want:
            bad.append(f'reshape of an empty (2,0,3) array to {shape} gives shape {got}, NumPy {want}')
    except ZeroDivisionError as e:
        bad.append(f'reshape of an empty (2,0,3) function array to {shape} raises ZeroDivisionError; NumPy returns an empty array')
try:
    numpy.reshape(m, (-1, 0))
    bad.append('reshape to (-1, 0) accepted')
except ValueError:
    pass
except ZeroDivisionError:
    bad.append('reshape of an empty array to (-1, 0) raises ZeroDivisionError; NumPy raises ValueError')
domX, geomX = mesh.rectilinear([2], space='X'); domY, geomY = mesh.rectilinear([2], space='Y')
smp = domX.sample('gauss', 2) * domY.sample('gauss', 1)
a = function.Argument('a', (1,))
try:
    v = smp.eval((a * geomX[0] * geomY[0])[1:], arguments=dict(a=numpy.array([1.5])))
    if v.shape != (smp.npoints, 0):
        bad.append(f'empty array on a product sample evaluates to shape {v.shape}')
except ZeroDivisionError:
    bad.append('evaluating an empty function array on a product sample raises ZeroDivisionError (plain samples return an empty array)')
for line in bad:
    print('DEFECT F29:', line)
if not bad:
    print('ok: empty arrays are reshaped and evaluated as in NumPy')
sys.exit(1 if bad else 0)
