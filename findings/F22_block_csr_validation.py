import sys, numpy, warnings
warnings.simplefilter('ignore')
from nutils import matrix
A = numpy.array([1., 2.])
bad = []
with matrix.backend('numpy'):
    for name, blocks in [
            ('row pointers [1,1,2] (not starting at 0) of a single block', [[(A, numpy.array([1, 1, 2]), numpy.array([0, 1]), 2)]]),
            ('column index 2 in a block of 2 columns', [[(A, numpy.array([0, 1, 2]), numpy.array([0, 2]), 2), (A, numpy.array([0, 1, 2]), numpy.array([0, 1]), 2)]])]:
        try:
            m = matrix.assemble_block_csr(blocks)
        except matrix.MatrixError:
            continue
        bad.append(f'{name}: accepted, giving {m.export("dense").tolist()}')
for line in bad:
    print('DEFECT F22:', line)
if not bad:
    print('ok: invalid block data is rejected')
sys.exit(1 if bad else 0)
