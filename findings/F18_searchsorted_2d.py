import sys, numpy, warnings
warnings.simplefilter('ignore')
from nutils import function
v = function.Argument('v', (3,))
try:
    r = numpy.searchsorted(numpy.arange(6.).reshape(2, 3), v)
except ValueError as e:
    print('ok: rejected:', e); sys.exit(0)
print('DEFECT F18: searchsorted in a two-dimensional array is accepted with shape', r.shape, '- NumPy raises ValueError'); sys.exit(1)
