import sys, warnings, tempfile
warnings.simplefilter('ignore')
from nutils import mesh, function, cache
from nutils.solver import System, Arnoldi
topo, geom = mesh.rectilinear([4])
basis = topo.basis('std', degree=1)
u = function.field('u', basis); v = function.field('v', basis)
s = System(topo.integral((u - 1) * v * function.J(geom), degree=2), trial='u', test='v')
ref = s.solve(method=Arnoldi(), tol=1e-10)['u']
with tempfile.TemporaryDirectory() as d, cache.enable(d):
    try:
        a = s.solve(method=Arnoldi(), tol=1e-10)['u']
        b = s.solve(method=Arnoldi(), tol=1e-10)['u']   # served from the cache
    except TypeError as e:
        print('DEFECT F11: with caching enabled System.solve(method=Arnoldi()) raises', e); sys.exit(1)
if abs(a - ref).max() > 1e-9 or abs(b - ref).max() > 1e-9:
    print('DEFECT F11: cached result differs'); sys.exit(1)
print('ok'); sys.exit(0)
