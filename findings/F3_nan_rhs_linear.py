import sys, numpy, warnings
warnings.simplefilter('ignore')
from nutils import matrix
A = matrix.eye(2)
try:
    x = A.solve(numpy.array([numpy.nan, 1.]), atol=1e-8)
except matrix.MatrixError as e:
    print('ok: raised', type(e).__name__, e); sys.exit(0)
print('DEFECT F3: solve returned', x, 'for a NaN right-hand side'); sys.exit(1)
