import sys, numpy, warnings
warnings.simplefilter('ignore')
from nutils import function
bad = []
d = function.Argument('d', (3, 1)); e = function.Argument('e', (1, 3))
args = dict(d=numpy.arange(3.).reshape(3, 1) + 1, e=numpy.arange(3.).reshape(1, 3) + 1)
got, want = function.eval(numpy.vdot(d, e), args), numpy.vdot(args['d'], args['e'])
if got != want:
    bad.append(f'vdot of shapes (3,1) and (1,3) evaluates to {got}, NumPy gives {want}')
b = function.Argument('b', (3,)); c = function.Argument('c', (1,))
try:
    r = numpy.vdot(b, c)
except ValueError as ex:
    pass
else:
    bad.append('vdot of shapes (3,) and (1,) is accepted and broadcast - NumPy rejects it')
for line in bad:
    print('DEFECT F15:', line)
if not bad:
    print('ok: vdot flattens as NumPy does and rejects operands of unequal size')
sys.exit(1 if bad else 0)
