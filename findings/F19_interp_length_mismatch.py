import sys, numpy, warnings
warnings.simplefilter('ignore')
from nutils import function
x = function.Argument('x', (3,))
bad = []
for xp, fp in ([0, 1, 2], [0, 1]), ([0, 1], [0, 1, 2]):
    try:
        r = numpy.interp(x, xp, fp)
    except ValueError:
        continue
    bad.append(f'interp with xp={xp}, fp={fp} is accepted and evaluates to {function.eval(r, dict(x=numpy.array([0., .5, 1.5])))} - NumPy raises ValueError (fp and xp are not of the same length)')
for line in bad:
    print('DEFECT F19:', line)
if not bad:
    print('ok: interp rejects data of unequal length')
sys.exit(1 if bad else 0)
