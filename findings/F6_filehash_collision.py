import sys, io
from nutils import types
a = io.BytesIO(b'2xyz'); a.seek(1)
b = io.BytesIO(b'xyz');  b.seek(12)
ha, hb = types.nutils_hash(a), types.nutils_hash(b)
if ha == hb:
    print('KNOWN FINDING F6: BytesIO(b"2xyz")@1 and BytesIO(b"xyz")@12 share nutils_hash', ha.hex()); sys.exit(1)
print('ok'); sys.exit(0)
