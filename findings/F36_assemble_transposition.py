'''F36 (C02): Assemble._compile_with_out transposed its operand by the func-axis numbers of the advanced indices and the index POSITIONS of the
ranges, and decided "separated by a slice" from func axes - so an arrangement with a scalar (0-d) advanced index, or an index with two axes,
next to a range was scattered into transposed positions.  The property's own example: stack([scatter(a, [2,0,1], axis=1), b], -1) on shape (3,3,2)
evaluates to wrong values in the default optimised mode (silently, because the two axis lengths coincide).  exit 1 = defect present.'''
import sys, numpy, warnings
warnings.simplefilter('ignore')
from nutils import evaluable as ev
c = ev.constant
bad = []
shape = (3, 3, 2)
a = ev.Argument('a', tuple(map(c, shape)), float); b = ev.Argument('b', tuple(map(c, shape)), float)
f = ev.stack([ev._inflate(a, c(numpy.array([2, 0, 1])), c(3), 1), b], -1)
av = numpy.arange(18.).reshape(shape); bv = -1 - av
ref_sc = numpy.zeros(shape); ref_sc[:, [2, 0, 1]] = av
ref = numpy.stack([ref_sc, bv], -1)
for kw in (dict(_simplify=False, _optimize=False), dict(_simplify=False, _optimize=True), dict()):
    try:
        r = ev.compile(f, stats=False, **kw)(dict(a=av, b=bv))
        if r.shape != ref.shape or not numpy.allclose(r, ref):
            bad.append(f'compile(stack([scatter(a,[2,0,1],axis=1), b], -1), {kw}) returns other values than the unoptimised translation')
    except Exception as e:
        bad.append(f'compile(..., {kw}) raises {type(e).__name__}: {e}')
# scalar index, range, index vector (only reachable without the simplification pass)
i = ev.loop_index('i', 2)
g = ev.Argument('g', (c(2), c(2)), float)
d0 = ev.get(ev.Guard(c(numpy.array([3, 1]))), 0, i)
d2 = ev.get(ev.Guard(c(numpy.array([[1, 0], [2, 3]]))), 0, i)
y = ev.loop_sum(ev._inflate(ev._inflate(g * ev.astype(i + 1, float), d2, c(4), 1), d0, c(4), 0), i)
gv = numpy.array([[1., 2.], [3., 4.]])
want = numpy.zeros((4, 2, 4))
for ii in range(2):
    for r_ in range(2):
        for k in range(2):
            want[[3, 1][ii], r_, [[1, 0], [2, 3]][ii][k]] += (ii + 1) * gv[r_, k]
for kw in (dict(_simplify=False, _optimize=True),):
    try:
        r = ev.compile(y, stats=False, **kw)(dict(g=gv))
        if not numpy.allclose(r, want):
            bad.append(f'scatter through (scalar index, range, index vector) with {kw}: values land in transposed positions')
    except Exception as e:
        bad.append(f'scatter through (scalar index, range, index vector) with {kw} raises {type(e).__name__}: {e}')
for line in bad:
    print('DEFECT F36:', line)
if not bad:
    print('ok: Assemble transposes its operand as NumPy combined indexing requires')
sys.exit(1 if bad else 0)
