import sys
from nutils import function
u = function.Argument('u', (), float); ua = function.Argument('ua', (), float)
g = function.replace_arguments(u * 2. + ua, 'ua:b')
real = {a.name for a in g.as_evaluable_array.arguments}
if set(g.arguments) != real:
    print('DEFECT F8: announced', sorted(g.arguments), 'but the lowered array depends on', sorted(real)); sys.exit(1)
h = function.replace_arguments(u * 2., [('u', 'v')])
if set(h.arguments) != {'v'}:
    print('DEFECT F8: pair spelling announces', sorted(h.arguments)); sys.exit(1)
print('ok'); sys.exit(0)
