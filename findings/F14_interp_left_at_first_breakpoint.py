import sys, numpy, warnings
warnings.simplefilter('ignore')
from nutils import function
xp = numpy.array([0., 1., 2.]); fp = numpy.array([10., 20., 30.])
x = numpy.array([0., 0.5, 2., -1., 3.])
got = function.evaluate(numpy.interp(function.Array.cast(x), xp, fp, left=-5., right=-7.))[0]
want = numpy.interp(x, xp, fp, left=-5., right=-7.)
if not numpy.allclose(got, want):
    print('OBSERVED F14 (value level, no static rule): interp with left= returns', got, 'NumPy returns', want); sys.exit(1)
print('ok'); sys.exit(0)
