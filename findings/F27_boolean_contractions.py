import sys, numpy, warnings
warnings.simplefilter('ignore')
from nutils import function
b = function.Argument('b', (3,), dtype=bool)
val = numpy.array([True, False, True])
bad = []
for name, f in ('dot', lambda x: numpy.dot(x, x)), ('matmul', lambda x: numpy.matmul(x, x)), ('vdot', lambda x: numpy.vdot(x, x)), ('einsum', lambda x: numpy.einsum('i,i', x, x)):
    want = f(val); x = f(b); got = function.eval(x, dict(b=val))
    if numpy.asarray(got).dtype != numpy.asarray(want).dtype or got != want:
        bad.append(f'numpy.{name} of boolean vectors gives {got!r} ({x.dtype.__name__}); NumPy gives {want!r}')
try:
    x = abs(b)
    got = function.eval(x, dict(b=val))
    if got.tolist() != val.tolist():
        bad.append('abs of a boolean array gives the wrong value')
except Exception as e:
    bad.append(f'abs of a boolean function array announces {x.dtype.__name__} and fails with {type(e).__name__} when evaluated; NumPy returns the operand')
for line in bad:
    print('DEFECT F27/F28:', line)
if not bad:
    print('ok: boolean operands behave as in NumPy')
sys.exit(1 if bad else 0)
