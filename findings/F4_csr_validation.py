import sys, numpy
from nutils import matrix
bad = 0
try:
    A = matrix.assemble_csr(numpy.array([1., 2.]), numpy.array([0, 2]), numpy.array([0, 0]), 2)
    print('DEFECT F4a: repeated column accepted, dense =', A.export('dense')); bad = 1
except matrix.MatrixError as e:
    print('ok: repeated column rejected:', e)
try:
    A = matrix.assemble_csr(numpy.array([1.]), numpy.array([0, 1]), numpy.array([-1]), 2)
    print('DEFECT F4b: negative column accepted, dense =', A.export('dense')); bad = 1
except matrix.MatrixError as e:
    print('ok: negative column rejected:', e)
sys.exit(bad)
