import sys, numpy, warnings
warnings.simplefilter('ignore')
from nutils import function
a = function.Argument('a', (3,)); b = function.Argument('b', (3,), dtype=bool); f = function.Argument('f', (3,))
args = dict(a=numpy.array([1., 2., 3.]), b=numpy.array([True, False, True]), f=numpy.array([0., 1., 2.]))
bad = []
# choose with a boolean selector: NumPy treats it as 0/1
try:
    got = function.eval(numpy.choose(b, [a, a * 2]), args)
    if got.tolist() != numpy.choose(args['b'], [args['a'], args['a'] * 2]).tolist():
        bad.append('choose with a boolean selector gives the wrong value')
except Exception as e:
    bad.append(f'choose with a boolean selector is accepted when built and fails with {type(e).__name__} when evaluated (NumPy: [2, 2, 6])')
# real-valued index arrays: NumPy rejects them when the call is made
for name, build in ('choose', lambda: numpy.choose(f, [a, a * 2])), ('take', lambda: numpy.take(a, f)), ('subscript', lambda: a[f]):
    try:
        build()
    except (TypeError, IndexError):
        continue
    bad.append(f'{name} with a real-valued index array is accepted when the expression is built (NumPy raises)')
# a boolean array used as subscript is a mask
try:
    got = function.eval(a[numpy.array([True, False, True])], args).tolist()
    if got != [1., 3.]:
        bad.append(f'a[[True,False,True]] evaluates to {got}, NumPy gives [1.0, 3.0]')
except Exception as e:
    pass   # refusing masks is acceptable
try:
    x = a[b]
    got = function.eval(x, args).tolist()
    if got != [1., 3.]:
        bad.append(f'a[mask] with a boolean function array evaluates to {got} (mask applied as the indices 0/1), NumPy gives [1.0, 3.0]')
except IndexError:
    pass
for line in bad:
    print('DEFECT F25/F26:', line)
if not bad:
    print('ok: index arrays must be integer or boolean; masks select positions')
sys.exit(1 if bad else 0)
