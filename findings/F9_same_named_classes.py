import sys, dataclasses
from nutils import types
def make(factor):
    @dataclasses.dataclass(frozen=True)
    class Scale:
        n: int
        def __call__(self, x):
            return factor * self.n * x
    return Scale
A, B = make(2), make(3)          # two different classes, both named 'Scale', same fields, different behaviour
a, b = A(1), B(1)
bad = 0
if a(1.) != b(1.) and types.nutils_hash(a) == types.nutils_hash(b):
    print('KNOWN FINDING F9: two same-named dataclasses that behave differently share nutils_hash', types.nutils_hash(a).hex()); bad = 1
class P: pass
Q = type('P', (), {'x': 1})
if types.nutils_hash(P) == types.nutils_hash(Q):
    print('KNOWN FINDING F9: two different classes named P share nutils_hash(type)'); bad = 1
sys.exit(bad)
