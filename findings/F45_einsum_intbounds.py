'''F45 (C06): Einsum announced an integer range computed with the UPPER bound of the summed lengths at both ends.  exit 1 = present.'''
import sys, warnings
warnings.simplefilter('ignore')
from nutils import evaluable as ev
c = ev.constant
i = ev.loop_index('i', 3)
twos = ev.InsertAxis(c(2), i + 1)                   # a vector of 1..3 twos
e = ev.Einsum((twos, twos), ((0,), (0,)), ())       # 4, 8 or 12
lo, hi = e._intbounds
if not (lo <= 4 and 12 <= hi):
    print(f'DEFECT F45: the sum of 1..3 products 2*2 announces the range [{lo}, {hi}]; its values are 4, 8 and 12')
    sys.exit(1)
print('ok')
