'''C03 Compiled functions are pure functions of their arguments across calls - hidden-state protocol.

Decided: R03.1 no emitted in-place operation can target an argument, a constant or a cached value (= R02.1) and the
rerun filter can see every nested statement (= R02.4); R03.2 the constant-intermediate cache protocol of compile()
(what is cached, frozen read-only, declared global, first_run dispatch and reset); R03.3 only argument-free nodes are
cacheable (isconstant/arguments discipline); R03.4 argument values are ingested through numpy.asarray and
shape-checked; R03.5 memo slots of solver.System hold one kind of object under one guard.
Not decided: aliasing of returned arrays through zero-stride views, per-object memo tables of function.Basis.
'''

import ast

from sa import AnalysisError
from sa.boolnf import equivalent
from sa.pattern import pmatch, pfind
from sa.astutil import dotted, src, stmt_text, params, find_stmts, calls_in, method_name, walk_no_nested, const, deep_resolved
from sa.guards import enclosing_conditions, facts_at


def check_cache_protocol(model, rep):
    f = model.func('evaluable:compile')
    ifs = [s for s in f.body if isinstance(s, ast.If) and src(s.test) == 'cache_const_intermediates']
    if len(ifs) != 1:
        raise AnalysisError('compile(): the cache_const_intermediates branch was not found')
    br = ifs[0]
    txt = ' ; '.join(src(s) for s in br.body)
    # Everything below is matched on structure and on what expressions denote (sa.pattern, resolved locals): the names of the nested helper, of loop
    # variables and of temporaries, a lambda versus a local def, and positional versus keyword spelling of _pyast constructors do not matter.
    walked = [c.args[0].id for c in calls_in(f.node) if src(c.func) == 'util.tree_walk' and c.args and isinstance(c.args[0], ast.Name)]
    collect = [s for s in br.body if isinstance(s, ast.FunctionDef) and s.name in walked and len(s.args.args) == 1]
    ok = False
    if collect:
        c = collect[0]
        P = c.args.args[0].arg
        i = [s for s in c.body if isinstance(s, ast.If)]
        ok = len(i) == 1 and equivalent(i[0].test, f'isinstance({P}, Array) and {P}.isconstant') and f'cache_evaluables.add({P})' in src(i[0]) and \
            any(isinstance(x, ast.Return) and src(x.value) == '()' for x in i[0].body) and f'rerun_evaluables.add({P})' in src(i[0]) and f'evaluable_deps.get({P}, ())' in src(i[0])
    rep.ob('R03.2', f.key, f.where(collect[0]) if collect else f.where(br), ok, 'exactly the argument-free Array nodes reached from the outputs are cached; everything else is recomputed and recursed into' if ok else
           'the predicate `isinstance(e, Array) and e.isconstant` selecting what is cached across calls changed', statement='cache-predicate')
    cv = [s for s in br.body if isinstance(s, ast.Assign) and src(s.targets[0]) == 'cache_vars']
    ok = len(cv) == 1 and (pmatch('tuple((cache[E_] for E_ in cache_evaluables))', cv[0].value) is not None or pmatch('tuple([cache[E_] for E_ in cache_evaluables])', cv[0].value) is not None)
    rep.ob('R03.2', f.key, f.where(cv[0]) if cv else f.where(br), ok, 'the cached variables are those of the cached evaluables', statement='cache-vars')
    # freeze loop
    loops = [s for s in br.body if isinstance(s, ast.For) and src(s.iter) == 'cache_vars' and isinstance(s.target, ast.Name)]
    ok = False
    if len(loops) == 1:
        V = loops[0].target.id
        fnl = ast.FunctionDef(name='_', args=f.node.args, body=loops[0].body, decorator_list=[], lineno=loops[0].lineno, col_offset=0)
        for x in loops[0].body:
            if isinstance(x, ast.Expr) and pmatch(f"main.append(_pyast.Exec({V}.get_attr('setflags').call(write=_pyast.LiteralBool(False))))", deep_resolved(fnl, x.value)) is not None:
                ok = True
    rep.ob('R03.2', f.key, f.where(loops[0]) if loops else f.where(br), ok, 'every cached variable is made read-only at the end of the first run' if ok else
           'cached intermediates are no longer frozen with setflags(write=False): writing into a returned array that is itself a cached constant changes later calls', statement='freeze-cached')
    # global declaration and first_run dispatch
    ok = '_pyast.Global((first_run,) + cache_vars)' in txt and bool(pfind('_pyast.If(first_run, main, main_rerun)', br) or pfind('_pyast.If(first_run, main, else_body=main_rerun)', br) or
                                                                     pfind('_pyast.If(first_run, body=main, else_body=main_rerun)', br))
    rep.ob('R03.2', f.key, f.where(br), ok, 'first_run and the cached variables are declared global and the body dispatches on first_run' if ok else
           'the global declaration of the cached variables or the first_run dispatch changed', statement='global-and-dispatch')
    reset = [s for s in br.body if isinstance(s, ast.Expr) and src(s.value).replace(' ', '') == 'main.append(_pyast.Assign(first_run,_pyast.LiteralBool(False)))']
    ok = len(reset) == 1 and bool(loops) and reset[0].lineno > loops[0].lineno
    rep.ob('R03.2', f.key, f.where(reset[0]) if reset else f.where(br), ok, 'first_run is cleared after the freeze, at the end of the first-run body' if ok else
           'first_run is not cleared at the end of the first run: the cached intermediates are recomputed or the flag is cleared before they exist', statement='first-run-reset')
    fl = [s for s in br.body if isinstance(s, ast.Assign) and src(s.targets[0]) == 'main_rerun']
    # the predicate handed to main.filter: a lambda, or a local def of this branch
    filters = []
    for flt in [c for c in calls_in(f.node) if src(c.func) == 'main.filter' and c.args]:
        a0 = flt.args[0]
        if isinstance(a0, ast.Lambda):
            filters.append(a0)
        elif isinstance(a0, ast.Name):
            filters += [d for d in ast.walk(f.node) if isinstance(d, ast.FunctionDef) and d.name == a0.id and d is not f.node]
    ok = len(fl) == 1 and 'main.filter(' in src(fl[0].value) and bool(filters) and bool(loops) and fl[0].lineno < loops[0].lineno
    rep.ob('R03.2', f.key, f.where(fl[0]) if fl else f.where(br), ok, 'the rerun body is filtered from main before the freeze statements are appended' if ok else
           'main_rerun is derived after the freeze/reset statements were appended: reruns would re-freeze or clear state', statement='rerun-filter-order')
    # what the filter of the rerun body skips, in terms of the compile state (whatever the intermediate sets are called)
    ok = False
    for flt in filters:
        for cmp_ in [n for n in ast.walk(flt) if isinstance(n, ast.Compare) and len(n.ops) == 1 and isinstance(n.ops[0], ast.In)]:
            m = pmatch('util.IDSet(itertools.chain.from_iterable((evaluable_block_map[E_] for E_ in util.IDSet(evaluable_block_map) - rerun_evaluables)))',
                       deep_resolved(f.node, cmp_.comparators[0]))
            ok = ok or m is not None
    sk = [s for s in br.body if isinstance(s, ast.Assign) and src(s.targets[0]) == 'rerun_skip_evaluables']
    rep.ob('R03.2', f.key, f.where(sk[0]) if sk else f.where(br), ok, 'exactly the blocks of evaluables that are not recomputed are skipped on reruns' if ok else
           'the set of blocks skipped on reruns is no longer (all compiled) minus (recomputed)', statement='rerun-skip-set')
    # util.function binds the generated globals once
    ok = "globals = dict(first_run=True" in src(f.node) or "first_run=True" in src(f.node)
    rep.ob('R03.2', f.key, f.where(), ok, 'first_run starts True in the globals of the generated function', statement='first-run-init')


def check_freeze_before_views(model, rep):
    """R03.6: a cached intermediate must be read-only before a view of it can be created in the same run.  NumPy fixes the writeable
    flag of a view when the view is created, so freezing the base at the END of the first run leaves every view of a cached array
    that was created during that run (slice, item, transpose, real/imag) writable - and it may be returned to the caller."""
    from rules.c04 import emitted_function
    f = model.func('evaluable:compile')
    ifs = [s for s in f.body if isinstance(s, ast.If) and src(s.test) == 'cache_const_intermediates']
    br = ifs[0]
    freeze = [s for s in br.body if isinstance(s, ast.For) and src(s.iter) == 'cache_vars']
    at_end = bool(freeze) and any(isinstance(x, ast.Expr) and src(x.value).startswith('main.append(') and 'setflags' in src(x.value) for x in freeze[0].body)
    A = model.cls('evaluable:Array')
    viewers = []
    for c in model.subclasses(A, strict=True):
        mem = c.members.get('_compile_expression')
        if mem is None or mem.func is None:
            continue
        rets = find_stmts(mem.func.body, lambda s: isinstance(s, ast.Return))
        t = ' '.join(src(r.value) for r in rets if r.value is not None)
        pos = params(mem.func.node)[0][1:]
        if any(f'{p}.get_item(' in t for p in pos) or "get_attr('transpose')" in t or "get_attr('real')" in t or "get_attr('imag')" in t or "get_attr('reshape')" in t:
            viewers.append(c.name)
    rep.unit('view_emitting_node_classes', len(viewers))
    ok = not (at_end and viewers)
    rep.ob('R03.6', f.key, f.where(freeze[0]) if freeze else f.where(br), ok, 'cached intermediates are frozen before any view of them can be created' if ok else
           f'cached intermediates are frozen only at the END of the first run (main.append(setflags)), while {len(viewers)} node classes ({", ".join(viewers[:6])}, ...) emit NumPy views of their operand: a view of a cached array '
           'created during the first run stays writable, and overwriting it changes every later call', statement='freeze-at-end-vs-views')


def check_system_cache(model, rep):
    '''solver.System.__cache: each key holds one kind of object, written under the same guard it is read.'''
    c = model.cls('solver:System')
    slots = {}
    for mem in c.members.values():
        f = mem.func
        if f is None:
            continue
        conds = enclosing_conditions(f.node)
        for s in ast.walk(f.node):
            if isinstance(s, ast.Assign) and isinstance(s.targets[0], ast.Subscript) and src(s.targets[0].value) == 'self.__cache':
                keyexpr = src(s.targets[0].slice)
                keys = _resolve_key(f, s, keyexpr)
                kind = _kind(f, s.value)
                # what holds whenever the store is reached: enclosing tests AND earlier tests that left the function (early return)
                held = set(conds.get(id(s), ()))
                try:
                    fa = facts_at(f.node, lambda x, s=s: x is s)
                    held |= {(src(nd), v) for nd, v in fa.facts.values()}
                except AnalysisError:
                    pass
                for k in keys:
                    slots.setdefault(k, []).append((f, s, kind, tuple(sorted((t, v) for t, v in held if 'is_constant_matrix' in t))))
    if len(slots) < 4:
        raise AnalysisError(f'System.__cache: only {len(slots)} slots found')
    for k, writes in sorted(slots.items()):
        kinds = {(kind, guard) for _, _, kind, guard in writes}
        # a slot may hold a matrix only under is_constant_matrix, a compiled function otherwise
        bad = None
        for f, s, kind, guard in writes:
            if kind == 'matrix' and ('self.is_constant_matrix', True) not in guard:
                bad = (f, s, 'a matrix is memoised although the matrix is not known to be constant: later calls with other arguments reuse it')
            if kind == 'function' and ('self.is_constant_matrix', True) in guard:
                bad = (f, s, 'a compiled function is stored in the slot that readers treat as a constant matrix')
        f0, s0 = writes[0][0], writes[0][1]
        rep.ob('R03.5', f0.key, (bad[0] if bad else f0).where(bad[1] if bad else s0), bad is None,
               f'memo slot {k!r} holds {sorted({kk for kk, _ in kinds})} consistently with the is_constant_matrix guard' if bad is None else f'memo slot {k!r}: {bad[2]}', statement=f'slot {k}')
    ok = any(isinstance(s, ast.Assign) and src(s.targets[0]) == 'self.__cache' and src(s.value) == '{}' for s in ast.walk(c.members['__init__'].func.node))
    rep.ob('R03.5', 'solver:System.__init__', c.members['__init__'].func.where(), ok, 'every System starts with an empty memo table', statement='cache-init')


def _resolve_key(f, stmt, keyexpr):
    if keyexpr.startswith("'"):
        return [keyexpr.strip("'")]
    vals = [const(s.value) for s in find_stmts(f.body, lambda s: isinstance(s, ast.Assign)) if src(s.targets[0]) == keyexpr and isinstance(const(s.value), str) and s.lineno < stmt.lineno]
    # the nearest preceding assignment wins along straight-line code; branches may re-bind
    return [vals[-1]] if vals else ['?']


def _kind(f, value):
    t = src(value)
    if 'assemble_block_csr' in t:
        return 'matrix'
    if t.startswith('evaluable.compile('):
        return 'function'
    if isinstance(value, ast.Name):
        defs = [s for s in find_stmts(f.body, lambda s: isinstance(s, ast.Assign)) if src(s.targets[0]) == value.id]
        kinds = {_kind(f, d.value) for d in defs}
        kinds.discard('unknown')
        if len(kinds) == 1:
            return kinds.pop()
        if kinds:
            # choose by the nearest definition that dominates textually
            near = max((d for d in defs), key=lambda d: d.lineno)
            return _kind(f, near.value)
    return 'unknown'


CALLER_MAPS = ('arguments', 'constrain', 'lhs0', 'args', 'cons')
FRESH_CALLS = ('numpy.full', 'numpy.zeros', 'numpy.ones', 'numpy.empty', 'numpy.array', 'numpy.copy', 'numpy.concatenate', 'numpy.stack', 'numpy.zeros_like', 'numpy.ones_like', 'numpy.full_like', 'numpy.empty_like', 'numpy.choose', 'numpy.where')
VIEW_METHODS = ('ravel', 'reshape', 'view', 'squeeze', 'transpose', 'swapaxes')


def check_solver_ownership(model, rep):
    """R03.7: the solver front ends receive the caller's arrays inside the `arguments` / `constrain` dictionaries.  Per enumerated path
    every local array is classified as CALLER-OWNED (taken from such a dictionary, or a no-copy view / conversion of a caller-owned
    array: x[...] with a basic index, .ravel(), .reshape(), numpy.asarray(x), x.astype(..., copy=False)) or FRESH (numpy.full/zeros/
    array/..., .copy(), .astype(...) with a copy, arithmetic, boolean- or index-array selections).  An in-place store (x[...] = ...,
    x += ..., out=x) into a caller-owned array changes what the caller passes to the next call."""
    from sa.paths import PathEnumerator, Event
    mod = model.module('solver')
    nstores = nfun = 0
    RANK = {None: 0, 'fresh': 1, 'caller': 2}
    worst = lambda a, b: a if RANK[a] >= RANK[b] else b
    # what a method of this module hands back, per position of its returned tuple ('caller' if on some path it is (a view of) a caller's array):
    # filled by a first pass over all functions, used by the second pass where the result of `self.<method>(...)` is bound
    summaries = {}
    funcs = [f for f in model.functions.values() if f.module is mod and not isinstance(f.node, ast.Lambda)]
    for final in (False, True):
      for f in funcs:
        pos, kwonly, va, kwv = params(f.node)
        maps = {p for p in list(pos) + list(kwonly) if p in CALLER_MAPS}
        if not maps:
            continue

        def kind(e, state):
            # 'caller' | 'fresh' | None (not an array we track)
            if isinstance(e, ast.Name):
                return state.get(e.id)
            if isinstance(e, ast.Subscript):
                base = e.value
                if isinstance(base, ast.Name) and base.id in maps:
                    return 'caller'
                k = kind(base, state)
                if k == 'caller':
                    idx = e.slice
                    basic = isinstance(idx, (ast.Slice, ast.Constant)) or (isinstance(idx, ast.Tuple) and all(isinstance(x, (ast.Slice, ast.Constant)) for x in idx.elts)) or src(idx) == '...'
                    return 'caller' if basic else 'fresh'
                return k
            if isinstance(e, (ast.List, ast.Tuple)):
                k = None
                for x in e.elts:
                    k = worst(k, kind(x.value if isinstance(x, ast.Starred) else x, state))
                return k    # a container holds caller-owned storage if one of its items does
            if isinstance(e, ast.Call):
                fn = src(e.func)
                if isinstance(e.func, ast.Attribute) and isinstance(e.func.value, ast.Name) and e.func.value.id in maps and e.func.attr in ('get', 'pop', 'setdefault'):
                    return 'caller'
                if isinstance(e.func, ast.Attribute) and src(e.func.value) == 'self' and e.func.attr in summaries and len(summaries[e.func.attr]) == 1:
                    return summaries[e.func.attr][0]
                if fn in FRESH_CALLS:
                    return 'fresh'
                if fn in ('numpy.asarray', 'numpy.asanyarray', 'numpy.ascontiguousarray') and e.args:
                    return kind(e.args[0], state)
                if isinstance(e.func, ast.Attribute):
                    recv = kind(e.func.value, state)
                    if recv is not None:
                        if e.func.attr == 'copy':
                            return 'fresh'
                        if e.func.attr == 'astype':
                            nocopy = any(k.arg == 'copy' and const(k.value) is False for k in e.keywords)
                            return recv if nocopy else 'fresh'
                        if e.func.attr in VIEW_METHODS:
                            return recv
                return None
            if isinstance(e, (ast.BinOp, ast.UnaryOp, ast.Compare)):
                return 'fresh' if any(kind(x, state) for x in ast.iter_child_nodes(e) if isinstance(x, ast.expr)) else None
            if isinstance(e, ast.IfExp):
                ks = {kind(e.body, state), kind(e.orelse, state)}
                return 'caller' if 'caller' in ks else 'fresh' if 'fresh' in ks else None
            return None

        def on_stmt(s_, st):
            evs = []
            if isinstance(s_, ast.Return) and s_.value is not None:
                evs.append(Event('RET', s_, s_.value))
            if isinstance(s_, ast.Expr) and isinstance(s_.value, ast.Call) and isinstance(s_.value.func, ast.Attribute) and s_.value.func.attr in ('append', 'extend', 'insert') \
                    and isinstance(s_.value.func.value, ast.Name) and s_.value.args:
                evs.append(Event('APPEND', s_, (s_.value.func.value.id, s_.value.args[-1])))
            if isinstance(s_, ast.Assign) and len(s_.targets) == 1:
                t = s_.targets[0]
                if isinstance(t, ast.Name):
                    evs.append(Event('BIND', s_, (t.id, s_.value)))
                elif isinstance(t, (ast.Tuple, ast.List)) and all(isinstance(x, ast.Name) for x in t.elts):
                    v = s_.value
                    if isinstance(v, ast.Call) and isinstance(v.func, ast.Attribute) and src(v.func.value) == 'self' and len(summaries.get(v.func.attr, ())) == len(t.elts):
                        for x, k_ in zip(t.elts, summaries[v.func.attr]):     # a, b = self.method(...): what the method hands back at each position
                            evs.append(Event('BINDK', s_, (x.id, k_)))
                    elif isinstance(v, (ast.Tuple, ast.List)) and len(v.elts) == len(t.elts):
                        for x, vv in zip(t.elts, v.elts):
                            evs.append(Event('BIND', s_, (x.id, vv)))
                    else:
                        for x in t.elts:    # unpacking a container: each name may be any of its items
                            evs.append(Event('BIND', s_, (x.id, v)))
                elif isinstance(t, ast.Subscript) and isinstance(t.value, ast.Name) and t.value.id not in maps:
                    evs.append(Event('STORE', s_, t.value.id))
            elif isinstance(s_, ast.AugAssign):
                t = s_.target
                if isinstance(t, ast.Name):
                    evs.append(Event('STORE', s_, t.id))
                elif isinstance(t, ast.Subscript) and isinstance(t.value, ast.Name) and t.value.id not in maps:
                    evs.append(Event('STORE', s_, t.value.id))
            for c_ in ast.walk(s_) if not isinstance(s_, (ast.If, ast.For, ast.While, ast.With, ast.Try)) else ():
                if isinstance(c_, ast.Call):
                    for k in c_.keywords:
                        if k.arg == 'out' and isinstance(k.value, ast.Name):
                            evs.append(Event('STORE', s_, k.value.id))
            return evs
        try:
            paths = PathEnumerator(f.node, on_stmt=on_stmt, unroll=1, max_states=60000, emit_truncated=True).paths()
        except AnalysisError:
            rep.info(f'R03.7 {f.key}: too many paths, ownership of its arrays is not decided')
            continue
        bad = {}
        retk = {}
        for p_ in paths:
            state = {}
            for e in p_.events:
                if e.kind == 'BIND':
                    nme, val = e.data
                    k = kind(val, state)
                    if k is None:
                        state.pop(nme, None)
                    else:
                        state[nme] = k
                elif e.kind == 'BINDK':
                    nme, k = e.data
                    if k is None:
                        state.pop(nme, None)
                    else:
                        state[nme] = k
                elif e.kind == 'APPEND':
                    nme, val = e.data
                    k = worst(state.get(nme), kind(val, state))
                    if k is not None:
                        state[nme] = k
                elif e.kind == 'RET':
                    v = e.data
                    ks = [kind(x, state) for x in v.elts] if isinstance(v, ast.Tuple) else [kind(v, state)]
                    prev = retk.get(len(ks))
                    retk[len(ks)] = ks if prev is None else [worst(a_, b_) for a_, b_ in zip(prev, ks)]
                elif e.kind in ('iter', 'loop-body'):
                    pass
                elif e.kind == 'STORE':
                    nstores += 1
                    if state.get(e.data) == 'caller':
                        bad.setdefault(e.node.lineno, (e.node, e.data))
        if not final:
            if len(retk) == 1:
                summaries[f.name] = next(iter(retk.values()))
            continue
        nfun += 1
        for node, nme in bad.values():
            rep.ob('R03.7', f.key, f.where(node), False, f'`{stmt_text(node)[:60]}` writes into `{nme}`, which on this path is (a no-copy view or conversion of) an array the caller passed in `{", ".join(sorted(maps))}`: '
                   'the caller\'s array is changed, so a second call with the same arguments is not the call the caller made', statement=f'store-into-caller {nme}')
        if not bad:
            rep.ob('R03.7', f.key, f.where(), True, f'no in-place store into an array taken from {", ".join(sorted(maps))} on any of {len(paths)} paths', statement='caller-arrays-untouched')
    if nfun < 8:
        raise AnalysisError(f'R03.7: only {nfun} solver functions receiving argument dictionaries were analysed')


def check_array_memo_key(model, rep):
    """R03.8: types.lru_cache memoises functions of immutable arrays under a key built from the array's buffer.  A NumPy view is determined
    by its start address, shape, strides and element type together; a key that leaves one of them out makes two different views (an array
    and its transpose, a slice with another step) share an entry, and the second call is served the result of the first.  Writeable arrays
    must bypass the memo (their content can change under the same key)."""
    f = model.functions.get('types:lru_cache.<locals>.wrapped')
    if f is None:
        raise AnalysisError('types.lru_cache.wrapped not found')
    branch = [g for g in ast.walk(f.node) if isinstance(g, ast.If) and 'numpy.ndarray' in src(g.test)]
    if len(branch) != 1:
        raise AnalysisError('types.lru_cache: the ndarray branch was not found')
    # the statements executed for an ndarray argument, whichever way round the test is written
    from sa.astutil import if_branches as _ifb
    holder = next((blk for o_ in ast.walk(f.node) for blk in (getattr(o_, 'body', None), getattr(o_, 'orelse', None)) if isinstance(blk, list) and branch[0] in blk), None)
    t_, e_ = _ifb(holder, branch[0]) if holder is not None else (branch[0].body, branch[0].orelse)
    negated = isinstance(branch[0].test, ast.UnaryOp) and isinstance(branch[0].test.op, ast.Not)
    arr_stmts = e_ if negated else t_
    arr_root = ast.Module(body=list(arr_stmts), type_ignores=[])
    appends = [c for c in ast.walk(arr_root) if isinstance(c, ast.Call) and src(c.func) == 'key.append']
    if len(appends) != 1:
        raise AnalysisError('types.lru_cache: the key component of ndarray arguments was not found')
    from sa.astutil import deep_resolved as _dr
    keyexpr = _dr(f.node, appends[0].args[0])
    text = src(appends[0].args[0])
    mentions = {const(x) for x in ast.walk(keyexpr) if isinstance(x, ast.Constant) and isinstance(x.value, str)} | {x.attr for x in ast.walk(keyexpr) if isinstance(x, ast.Attribute)}
    need = {'start address': ('data',), 'strides': ('strides',), 'shape': ('shape',), 'element type': ('typestr', 'dtype', 'descr')}
    missing = [what for what, names in need.items() if not any(nm in mentions for nm in names)]
    ok = not missing
    rep.ob('R03.8', f.key, f.where(appends[0]), ok, 'the memo key of an array argument covers start address, strides, shape and element type' if ok else
           f'the memo key `{text[:70]}` of an array argument leaves out the {" and the ".join(missing)}: two immutable views that differ only there (an array and its transpose) share one memo entry, and the later call returns '
           'the result computed for the earlier one', statement='array-key-complete')
    bypass = any(isinstance(g, ast.If) and 'writeable' in src(g.test) and any(isinstance(b, ast.Return) for b in g.body) for g in ast.walk(arr_root))
    rep.ob('R03.8', f.key, f.where(branch[0]), bypass, 'a writeable array (or base) bypasses the memo' if bypass else 'writeable arrays are memoised: their content can change under the same key', statement='writeable-bypass')


ARRAY_MAKERS = {'reshape', 'ravel', 'copy', 'astype', 'take', 'transpose', 'swapaxes', 'flatten', 'squeeze', 'repeat', 'cumsum', 'view'}
COPYING = {'numpy.array', 'numpy.copy', 'numpy.empty', 'numpy.zeros', 'numpy.ones', 'numpy.full', 'numpy.empty_like', 'numpy.zeros_like', 'numpy.array_like'}


def _builds_array(e):
    """Does the expression (syntactically) build a new NumPy array / a view of a local one - something writable unless frozen?"""
    if isinstance(e, ast.Call):
        n = dotted(e.func) or ''
        if n.startswith('numpy.') and n not in ('numpy.asarray',):
            return True
        if isinstance(e.func, ast.Attribute) and e.func.attr in ARRAY_MAKERS:
            return True
        return False
    if isinstance(e, ast.BinOp):
        return True
    if isinstance(e, ast.Subscript):
        return _builds_array(e.value) or isinstance(e.value, ast.Name)
    return False


def check_long_lived_arrays(model, rep):
    """R03.9: arrays that live as long as the library object that hands them out are read-only when handed out.
    (a) points.py: Points objects are Singletons shared by every sample; their cached_property members (coords, weights, tri, hull, ...) are
        returned to callers and baked into compiled functions (PointsSequence.get_evaluable_coords).  A member that returns an array it
        built itself (numpy call, reshape/ravel/..., arithmetic, subscript of a local) without types.frozenarray hands out a writable array:
        writing into a result changes every later call that uses those points.
    (b) evaluable.Constant.value feeds builder.add_constant: it must be a no-copy view of the immutable arraydata (numpy.asarray), never a
        copying constructor - a copy is writable until the first run has ended, and views of it created during that run stay writable."""
    from sa.astutil import deep_resolved
    mod = model.module('points')
    n = 0
    for c in sorted(model.classes.values(), key=lambda c: c.key):
        if c.module is not mod:
            continue
        for mem in c.members.values():
            f = mem.func
            if f is None or isinstance(f.node, ast.Lambda) or 'cached_property' not in ' '.join(f.decorators):
                continue
            for r in find_stmts(f.body, lambda s_: isinstance(s_, ast.Return) and s_.value is not None):
                v = deep_resolved(f.node, r.value)
                elems = v.elts if isinstance(v, ast.Tuple) else [v]
                for e in elems:
                    if isinstance(e, ast.Call) and (dotted(e.func) or '').endswith('frozenarray'):
                        n += 1
                        rep.ob('R03.9', f.key, f.where(r), True, f'{c.name}.{f.name} hands out a frozen array', statement=f'frozen {f.name}')
                    elif _builds_array(e) or (isinstance(r.value, ast.Name) and _locally_built(f, r.value.id)):
                        n += 1
                        rep.ob('R03.9', f.key, f.where(r), False, f'{c.name}.{f.name} returns `{src(r.value)[:60]}`, an array it built itself, without types.frozenarray: the cached member of a shared Points singleton is writable, '
                               'so writing into an array a compiled function returned (get_evaluable_coords) changes the results of every later call', statement=f'frozen {f.name}')
    if n < 10:
        raise AnalysisError(f'R03.9: only {n} array-valued cached members found in points.py')
    f = model.func('evaluable:Constant.value')
    rets = find_stmts(f.body, lambda s_: isinstance(s_, ast.Return) and s_.value is not None)
    for r in rets:
        v = deep_resolved(f.node, r.value)
        name = dotted(v.func) if isinstance(v, ast.Call) else None
        bad = name in COPYING or (isinstance(v, ast.Call) and isinstance(v.func, ast.Attribute) and v.func.attr == 'copy') or \
            (isinstance(v, ast.Call) and any(k.arg == 'copy' and const(k.value) is True for k in v.keywords))
        rep.ob('R03.9', f.key, f.where(r), not bad, 'Constant.value is a view of the immutable arraydata (no copy)' if not bad else
               f'Constant.value returns `{src(r.value)}`, a COPY of the immutable storage: the copy is writable until the end of the first run and views of it created during that run stay writable, '
               'so writing into a returned array rewrites the constant for all later calls', statement='constant-no-copy')


def _locally_built(f, name):
    for s_ in ast.walk(f.node):
        if isinstance(s_, ast.Assign) and any(isinstance(t, ast.Name) and t.id == name for t in s_.targets) and _builds_array(s_.value):
            return True
    return False


def run(model, rep, tier):
    from rules.c02 import check_destinations, check_printer
    from rules.c06 import check_constancy
    from rules.c13 import check_runtime
    rep.explanation = (
        'R03.1 (= R02.1/R02.4) no emitted in-place operation targets a compiled dependency, a constant or an argument, and every statement class lets the rerun filter reach its nested statements. '
        'R03.2 the cache_const_intermediates branch of compile(): cached set = `isinstance(e, Array) and e.isconstant` nodes, their variables are frozen with setflags(write=False), declared global together with '
        'first_run, the body is If(first_run, main, main_rerun), the rerun body is filtered before the freeze is appended, first_run is cleared last. R03.3 (= R06.3) isconstant/arguments overrides are conservative, so '
        'nothing that depends on an argument is cached. R03.4 (= R13.3) arguments are ingested with numpy.asarray and shape-checked (never written). R03.5 the memo slots of solver.System hold a matrix only under '
        'is_constant_matrix and a compiled function otherwise. These are the hidden-state protocols whose violation makes a later call depend on an earlier one; aliasing of returned arrays with zero-stride views and '
        'Basis memo tables are NOT decided.')
    rep.rule('R03.1', 'no in-place write to arguments/constants/cached values; rerun filter reaches all statements')
    rep.rule('R03.2', 'constant-intermediate cache protocol of compile()')
    rep.rule('R03.3', 'only argument-free nodes are cacheable')
    rep.rule('R03.4', 'argument ingestion by asarray + shape check')
    rep.rule('R03.5', 'System memo slots are typed by the is_constant_matrix guard')
    rep.rule('R03.7', 'solver front ends never store into arrays the caller passed in arguments/constrain (ownership typestate per path)')
    rep.rule('R03.8', 'the buffer-keyed memo (types.lru_cache) keys arrays by address, strides, shape and element type; writeable arrays bypass it')
    rep.rule('R03.6', 'cached intermediates are read-only before a view of them can exist')
    check_destinations(model, rep, rule='R03.1')
    check_printer(model, _Rename(rep, {'R02.4': 'R03.1', 'R02.5': 'R03.1'}))
    check_cache_protocol(model, rep)
    check_freeze_before_views(model, rep)
    check_constancy(model, _Rename(rep, {'R06.3': 'R03.3'}))
    check_runtime(model, _Rename(rep, {'R13.3': 'R03.4'}))
    check_system_cache(model, rep)
    check_solver_ownership(model, rep)
    check_array_memo_key(model, rep)
    rep.rule('R03.9', 'arrays that live as long as a shared library object (Points members, Constant.value) are handed out read-only / without a writable copy')
    check_long_lived_arrays(model, rep)
    from rules.c02 import check_dependency_registration, check_fields_announced
    check_fields_announced(model, rep, rule='R03.3')
    check_dependency_registration(model, rep, rule='R03.2')
    from rules import round4 as _r4
    rep.rule('R03.10', 'functools-memoised functions do not hand out writable arrays; types.lru_cache bypasses arguments with ANY writable base')
    _r4.check_memoised_arrays(model, rep, 'R03.10')
    _r4.check_writeable_over_bases(model, rep, 'R03.10')
    rep.require('R03.2', 8)
    rep.require('R03.1', 40)
    rep.require('R03.5', 5)


class _Rename:
    '''Report proxy that files obligations of a shared rule under this property's rule id.'''

    def __init__(self, rep, mapping):
        self._rep = rep
        self._map = mapping

    def ob(self, rule, *a, **k):
        return self._rep.ob(self._map.get(rule, rule), *a, **k)

    def __getattr__(self, name):
        return getattr(self._rep, name)
