'''Rules that came out of the fourth round of seeded changes.  Each is a structural necessary condition of the property it is wired into
(see the run() of the property modules); the docstrings say what is decided.'''

import ast

from sa import AnalysisError
from sa.astutil import src, find_stmts, calls_in, method_name, params, const, resolved, deep_resolved, walk_no_nested
from sa.guards import paths_to, facts_at, decompose
from sa.paths import Event
from sa.pattern import pmatch, pfind


# ------------------------------------------------------------------------------------------------------------------ C02
def check_fields_on_every_path(model, rep, rule):
    """A node's code emitter `_compile_expression` reads a field of the node (`self.side`, `self.n`, ...) on EVERY returning path or on none:
    a field that configures the emitted call and is consulted only under a test on some OTHER operand (e.g. `side=` only when a sorter is given)
    is silently replaced by NumPy's default on the remaining paths."""
    A = model.cls('evaluable:Array')
    n = 0
    for c in model.subclasses(A, strict=True):
        mem = c.members.get('_compile_expression')
        if mem is None or mem.func is None:
            continue
        f = mem.func
        fields = {x.attr for x in ast.walk(f.node) if isinstance(x, ast.Attribute) and isinstance(x.value, ast.Name) and x.value.id == 'self'}
        for fld in sorted(fields):
            def uses(node, fld=fld):
                return any(isinstance(x, ast.Attribute) and x.attr == fld and isinstance(x.value, ast.Name) and x.value.id == 'self' for x in ast.walk(node))
            ps = paths_to(f.node, lambda s: isinstance(s, ast.Return), on_extra=lambda s, st, uses=uses: (Event('USE', s),) if uses(s) else ())
            miss = [p for p, idx, facts in ps if not any(e.kind == 'USE' for e in p.events[:idx]) and not uses(p.events[idx].node)
                    and not any(e.kind == 'cond' and uses(e.node) for e in p.events[:idx])]
            n += 1
            ok = not miss or len(miss) == len(ps)
            rep.ob(rule, f.key, f.where(), ok, f'{c.name}._compile_expression consults self.{fld} on every path' if ok else
                   f'{c.name}._compile_expression consults `self.{fld}` on {len(ps) - len(miss)} of {len(ps)} paths only: on the others the emitted call falls back on the default of the NumPy function, '
                   'so the compiled function computes something else than the node denotes', statement=f'field-on-every-path {fld}')
    if n < 12:
        raise AnalysisError(f'{rule}: only {n} field uses in _compile_expression methods found')


def check_tiling_slices(model, rep, rule):
    """When a call spreads several slices of ONE sequence (`multiply(*factors[:i], *factors[i+1:j], *factors[j+1:], new)`), the slices tile the sequence
    up to the single elements that are taken out: every slice starts where the previous one ended, or one element later.  A gap of more than one
    element drops operands (factors between x and sign(x) vanish from the product)."""
    n = 0
    for f in model.functions.values():
        if f.module.short != 'evaluable' or isinstance(f.node, ast.Lambda):
            continue
        for c in calls_in(f.node, nested=False):
            groups = {}
            for a in c.args:
                if isinstance(a, ast.Starred) and isinstance(a.value, ast.Subscript) and isinstance(a.value.slice, ast.Slice) and a.value.slice.step is None:
                    groups.setdefault(src(a.value.value), []).append(a.value.slice)
            for seq, sls in groups.items():
                if len(sls) < 2:
                    continue
                n += 1
                bad = None
                for prev, cur in zip(sls, sls[1:]):
                    if prev.upper is None or cur.lower is None:
                        bad = bad or (prev, cur)
                        continue
                    pu, cl = src(prev.upper).replace(' ', ''), src(cur.lower).replace(' ', '')
                    if cl not in (pu, pu + '+1', '1+' + pu):
                        bad = bad or (prev, cur)
                ok = bad is None and sls[0].lower is None and sls[-1].upper is None or bad is None
                rep.ob(rule, f.key, f.where(c), bad is None, f'the slices of `{seq}` tile it up to single removed elements' if bad is None else
                       f'`{src(c)[:90]}` spreads `{seq}[{src(bad[0].lower) if bad[0].lower else ""}:{src(bad[0].upper) if bad[0].upper else ""}]` and then `{seq}[{src(bad[1].lower) if bad[1].lower else ""}:...]`: '
                       'the elements in between are dropped from the result', statement=f'tiling-slices {seq}')
    if n < 4:
        raise AnalysisError(f'{rule}: only {n} calls spreading several slices of one sequence found')


# ------------------------------------------------------------------------------------------------------------------ C09 / C07
def check_slice_components(model, rep, rule, modules):
    """`start, stop, step = s.indices(n)` (slice.indices) yields three numbers that together describe the selection; a function that unpacks them
    and never reads one of them (typically the step) selects other items than the slice denotes."""
    n = 0
    for f in model.functions.values():
        if f.module.short not in modules or isinstance(f.node, ast.Lambda):
            continue
        for s_ in walk_no_nested(f.node):
            if isinstance(s_, ast.Assign) and isinstance(s_.value, ast.Call) and method_name(s_.value) == 'indices' and isinstance(s_.targets[0], ast.Tuple) and len(s_.targets[0].elts) == 3:
                n += 1
                names = [e.id for e in s_.targets[0].elts if isinstance(e, ast.Name)]
                # a read inside a comparison only tests the value, it does not use it - unless the comparison is a refusal (assert, or an if that raises)
                refusing = {id(x) for a_ in ast.walk(f.node) if isinstance(a_, ast.Assert) or (isinstance(a_, ast.If) and any(isinstance(b, ast.Raise) for b in a_.body))
                            for x in ast.walk(a_.test)}
                incmp = {id(x) for c_ in ast.walk(f.node) if isinstance(c_, ast.Compare) for x in ast.walk(c_)} - refusing
                unused = [nm for nm in names if nm != '_' and not nm.startswith('_') and
                          not any(isinstance(x, ast.Name) and x.id == nm and isinstance(x.ctx, ast.Load) and id(x) not in incmp for x in ast.walk(f.node))]
                rep.ob(rule, f.key, f.where(s_), not unused, f'all components of `{src(s_.value)}` are used' if not unused else
                       f'`{src(s_)}` unpacks the slice but `{unused[0]}` is never used outside a comparison: a slice with that component different from its default selects other items than requested', statement='slice-components')
    return n


def check_zip_index(model, rep, rule):
    """_Zip stores the grouping permutation of its points in `self._indices`; getindex(ielem) must hand out the entries of that array for the element
    (not a contiguous range of the same length): the point numbers of an element are the stored ones."""
    f = model.func('sample:_Zip.getindex')
    rets = find_stmts(f.body, lambda s: isinstance(s, ast.Return) and s.value is not None)
    ok = bool(rets) and all('self._indices' in src(deep_resolved(f.node, r.value)) for r in rets)
    rep.ob(rule, f.key, f.where(), ok, '_Zip.getindex reads the stored point numbers' if ok else
           '_Zip.getindex no longer reads self._indices: it hands out a contiguous range where the zip stores a permutation of the point numbers, so consumers of getindex (nested zip, subset) pair other points',
           statement='zip-getindex-indices')


def check_scheme_split(model, rep, rule):
    """TensorReference.getpoints hands the part of a composite scheme string before the FIRST '*' to ref1 and everything after it to ref2 (which splits again):
    the statement that splits the string is interpreted (sa.miniexec) for 'a*b*c' and must give ('a', 'b*c')."""
    from sa.miniexec import MiniExec, Returned
    from sa.algebra import Unsupported
    f = model.func('element:TensorReference.getpoints')
    # the statements of the function body that bind the two parts (one conditional expression, or an if/else that assigns them)
    asg = [s_ for s_ in f.node.body if isinstance(s_, (ast.Assign, ast.If)) and any(isinstance(n_, ast.Name) and isinstance(n_.ctx, ast.Store) and n_.id in ('ischeme1', 'ischeme2') for n_ in ast.walk(s_))]
    if not asg:
        raise AnalysisError('TensorReference.getpoints: the scheme split was not found')
    try:
        ex = MiniExec({'ischeme': 'a*b*c'})
        ex.env['str'] = str
        from rules.c09 import _self_with_helpers
        ex.env['self'] = _self_with_helpers(model, 'element:TensorReference', ex)
        ex.run(asg)
        got = (ex.env.get('ischeme1'), ex.env.get('ischeme2'))
    except (Unsupported, Exception) as e:
        got = f'not interpretable ({type(e).__name__}: {e})'
    ok = got == ('a', 'b*c')
    rep.ob(rule, f.key, f.where(asg[0]), ok, "the scheme 'a*b*c' is split into 'a' for ref1 and 'b*c' for ref2" if ok else
           f"`{src(asg[0])[:90]}` turns the scheme 'a*b*c' into {got}: the scheme names in the middle are lost, the inner factors of a nested tensor reference get another rule than requested", statement='scheme-split')


def check_cross_axis(model, rep, rule):
    """numpy.cross(a, b, axis=k): `axis` overrides axisa, axisb AND axisc.  In the implementation the branch taken when axis is given must bind all three."""
    from rules.c07 import registrations
    m, regs = registrations(model)
    by = {fn.name: fn for fn, _ in regs}
    fn = by.get('cross')
    if fn is None:
        return
    ifs = [s_ for s_ in ast.walk(fn) if isinstance(s_, ast.If) and 'axis is not None' in src(s_.test)]
    ok = False
    for i_ in ifs:
        bound = set()
        for s_ in i_.body:
            if isinstance(s_, ast.Assign) and src(s_.value) == 'axis':
                bound |= {src(t) for t in s_.targets}
        ok = ok or {'axisa', 'axisb', 'axisc'} <= bound
    rep.ob(rule, 'function:__implementations__.cross', f'{m.relpath}:{fn.lineno}', ok, 'numpy.cross: axis overrides axisa, axisb and axisc' if ok else
           'numpy.cross: the `axis` argument no longer overrides all of axisa, axisb and axisc: the vector axis of the result stays where axisc puts it, so the result is permuted (silently for square operands)',
           statement='cross-axis-override')


def check_batch_loops(model, rep, rule):
    """numeric.inv treats singular matrices of a batch one by one; the loop must visit every matrix of the batch, i.e. iterate numpy.ndindex over ALL leading axes."""
    f = model.func('numeric:inv')
    loops = [l for l in ast.walk(f.node) if isinstance(l, ast.For) and any(isinstance(x, ast.Call) and src(x.func).startswith('numpy.linalg.') for x in ast.walk(l))]
    if not loops:
        raise AnalysisError('numeric.inv: the per-matrix fallback loop was not found')
    ok = all(pmatch('numpy.ndindex(A_.shape[:-2])', l.iter) is not None for l in loops)
    rep.ob(rule, f.key, f.where(loops[0]), ok, 'the per-matrix fallback of numeric.inv visits every matrix of the batch' if ok else
           f'the per-matrix fallback of numeric.inv iterates `{src(loops[0].iter)}` instead of numpy.ndindex over all leading axes: with two or more leading axes whole sub-batches are treated as one matrix', statement='inv-batch-loop')


# ------------------------------------------------------------------------------------------------------------------ C03
def check_memoised_arrays(model, rep, rule):
    """A function memoised with functools.lru_cache / functools.cache hands the SAME object to every caller.  If it returns a NumPy array it built itself,
    that array is writable hidden state shared by all compiled functions: writing into one result changes later calls."""
    from rules.c03 import _builds_array
    n = 0
    for f in model.functions.values():
        if f.module.short not in ('evaluable', 'function', 'sample', 'points', 'pointsseq', 'numeric', 'transform', 'transformseq', 'element') or isinstance(f.node, ast.Lambda):
            continue
        decos = ' '.join(f.decorators)
        if 'lru_cache' not in decos and 'functools.cache' not in decos:
            continue
        n += 1
        bad = [r for r in find_stmts(f.body, lambda s: isinstance(s, ast.Return) and s.value is not None) if _builds_array(deep_resolved(f.node, r.value))
               and 'frozenarray' not in src(deep_resolved(f.node, r.value))]
        rep.ob(rule, f.key, f.where(bad[0]) if bad else f.where(), not bad, f'{f.qualname} (memoised) does not hand out a writable array' if not bad else
               f'{f.qualname} is memoised and returns `{src(bad[0].value)[:50]}`, a writable array: every caller gets the same object, so writing into a returned array corrupts all later calls with the same arguments', statement='memoised-array')
    rep.ob(rule, 'evaluable:memoised', 'src/nutils/evaluable.py:1', True, f'{n} functools-memoised functions inspected', statement='memoised-inspected')


def check_writeable_over_bases(model, rep, rule):
    """types.lru_cache keys arrays by address; that is only sound for arrays that cannot change.  A read-only view of a writable buffer can: the bypass for
    writable arrays must look at EVERY base of the argument (a loop over _array_bases(arg)), not at the flag of the argument alone."""
    f = model.func('types:lru_cache.<locals>.wrapped')
    loops = [l for l in ast.walk(f.node) if isinstance(l, ast.For) and '_array_bases(' in src(l.iter) and isinstance(l.target, ast.Name)]
    ok = False
    for l in loops:
        b = l.target.id
        ok = ok or any(isinstance(i_, ast.If) and f'{b}.flags.writeable' in src(i_.test) and any(isinstance(x, ast.Return) and 'func(*args)' in src(x) for x in i_.body) for i_ in l.body)
    rep.ob(rule, f.key, f.where(), ok, 'memoisation is bypassed when the argument or any of its bases is writable' if ok else
           'the bypass of types.lru_cache no longer tests every base of an array argument for writability: a read-only view of a writable buffer is memoised by address and served after the buffer changed', statement='writeable-over-bases')


# ------------------------------------------------------------------------------------------------------------------ C06
def check_arguments_of_all_operands(model, rep, rule):
    """A function.Array built from several operands announces the arguments of ALL of them: `arguments=` handed to Array.__init__ is the join over the
    operands, never the table of one element of a sequence of operands (`self.arrays[0].arguments`)."""
    n = 0
    for f in model.functions.values():
        if f.module.short != 'function' or f.name != '__init__' or f.cls is None:
            continue
        for c in calls_in(f.node):
            if not (isinstance(c.func, ast.Attribute) and c.func.attr == '__init__' and src(c.func.value).startswith('super(')):
                continue
            val = next((k.value for k in c.keywords if k.arg == 'arguments'), c.args[3] if len(c.args) > 3 else None)
            if val is None:
                continue
            n += 1
            v = deep_resolved(f.node, val)
            one = isinstance(v, ast.Attribute) and v.attr == 'arguments' and isinstance(v.value, ast.Subscript) and isinstance(v.value.slice, ast.Constant)
            rep.ob(rule, f.key, f.where(c), not one, f'{f.cls.name} announces the arguments of its operands' if not one else
                   f'{f.cls.name} announces `{src(val)}`, the arguments of ONE of its operands: an argument that only a later operand depends on is missing from the table, so arguments_for omits it and linearize/derivative to it silently give zero',
                   statement='arguments-of-all-operands')
    if n < 20:
        raise AnalysisError(f'{rule}: only {n} Array.__init__ calls with an arguments table found')


def check_inrange_guard(model, rep, rule):
    """InRange announces the range [0, length-1]; the run-time guard that makes this true must require index.max() < length (strictly) and 0 <= index.min()."""
    f = model.func('evaluable:InRange.evalf')
    asserts = [a for a in f.body if isinstance(a, ast.Assert)]
    ok = False
    for a in asserts:
        atoms = [src(nd).replace(' ', '') for nd in ast.walk(a.test) if isinstance(nd, ast.Compare)]
        strict = any(t in ('index.max()<length', 'length>index.max()') for t in atoms) or any('index.max()<length' in t for t in atoms)
        lower = any('0<=index.min()' in t or 'index.min()>=0' in t for t in atoms)
        ok = ok or (strict and lower and not any('index.max()<=length' in t for t in atoms))
    rep.ob(rule, f.key, f.where(), ok, 'InRange checks 0 <= index.min() and index.max() < length at run time' if ok else
           'the run-time guard of InRange no longer requires index.max() < length: an index equal to the length is passed on although the announced range ends at length-1', statement='inrange-guard')


# ------------------------------------------------------------------------------------------------------------------ C04
def check_lower_does_not_simplify(model, rep, rule):
    """function.Array.lower() hands out the raw evaluable; simplification belongs to compile().  A lower() that returns `<...>.simplified` strips the
    WithDerivative wrappers that carry the dependence on the coordinates, so a later grad() of the result is identically zero."""
    n = 0
    for f in model.functions.values():
        if f.module.short != 'function' or f.name != 'lower' or f.cls is None:
            continue
        n += 1
        bad = [x for x in ast.walk(f.node) if isinstance(x, ast.Attribute) and x.attr in ('simplified', 'optimized_for_numpy')]
        rep.ob(rule, f.key, f.where(bad[0]) if bad else f.where(), not bad, f'{f.cls.name}.lower hands out the unsimplified evaluable' if not bad else
               f'{f.cls.name}.lower applies `.{bad[0].attr}`: simplification removes the derivative wrappers of the operands, a spatial derivative taken afterwards is silently zero', statement='lower-unsimplified')
    if n < 20:
        raise AnalysisError(f'{rule}: only {n} lower() methods found')


def check_pseudo_inverse(model, rep, rule):
    """The declared derivative of tip coordinates to root coordinates for a non-square linear map L is the left inverse (L^T L)^-1 L^T; the transpose alone is
    the inverse only for orthonormal columns (not after refinement).  Matched structurally in _TransformsCoords.lower."""
    f = model.func('function:_TransformsCoords.lower')
    txt = src(f.node)
    found = False
    for c in calls_in(f.node):
        m = pmatch("evaluable.einsum('ik,jk->ij', evaluable.inverse(G_), L_)", deep_resolved(f.node, c))
        if m is not None and pmatch("evaluable.einsum('ki,kj->ij', L_, L_)", m['G_'], {'L_': m['L_']}) is not None:
            found = True
    if 'inverse' not in txt and not found:
        found = False
    rep.ob(rule, f.key, f.where(), found, 'the non-square branch uses the left inverse (L^T L)^-1 L^T' if found else
           'the non-square branch of _TransformsCoords.lower no longer builds (L^T L)^-1 L^T: with any other matrix (e.g. L^T) gradients on refined or simplex boundary elements are scaled wrongly', statement='left-inverse')


# ------------------------------------------------------------------------------------------------------------------ C14
def check_constraint_update(model, rep, rule):
    """System.solve_constraints returns x* = x0 + dx: the vector handed to self.construct(...) must be data-dependent on BOTH the deconstructed initial state
    (second result of self.deconstruct) and the increment from jac.solve."""
    f = model.func('solver:System.solve_constraints')
    dec = pfind('A_, X_ = self.deconstruct(P_, Q_)', f.node)
    sol = [s_ for s_ in find_stmts(f.body, lambda s: isinstance(s, ast.Assign)) if any(isinstance(c, ast.Call) and (src(c.func) or '').endswith('jac.solve') for c in ast.walk(s_.value))]
    con = [c for c in calls_in(f.node) if src(c.func) == 'self.construct' and len(c.args) >= 2]
    if len(dec) != 1 or len(sol) != 1 or len(con) != 1:
        raise AnalysisError('System.solve_constraints: deconstruct / jac.solve / construct were not found')
    x0, dx = src(dec[0][1]['X_']), src(sol[0].targets[0])
    # names that flow DIRECTLY into each local: through assignments, in-place updates and arithmetic, but not through the arguments of a call
    # (the increment is computed FROM the state by assemble/solve; that does not make it the state)
    def direct_names(e):
        out = set()
        def rec(x):
            if isinstance(x, ast.Call):
                if isinstance(x.func, ast.Attribute):
                    rec(x.func.value)       # x.copy(), x.astype(...)
                return
            if isinstance(x, ast.Name):
                out.add(x.id)
            for ch in ast.iter_child_nodes(x):
                rec(ch)
        rec(e)
        return out
    flow = {}

    def targets_of(t):
        if isinstance(t, (ast.Tuple, ast.List)):
            return [b for x in t.elts for b in targets_of(x)]
        base = t
        while isinstance(base, (ast.Subscript, ast.Attribute, ast.Starred)):
            base = base.value
        return [base.id] if isinstance(base, ast.Name) else []
    for s_ in walk_no_nested(f.node):
        if isinstance(s_, ast.Assign):
            for t in s_.targets:
                for nm in targets_of(t):
                    flow.setdefault(nm, set()).update(direct_names(s_.value))
        elif isinstance(s_, ast.AugAssign):
            for nm in targets_of(s_.target):
                flow.setdefault(nm, set()).update(direct_names(s_.value) | {nm})

    def closure(name):
        seen, todo = set(), [name]
        while todo:
            k = todo.pop()
            if k in seen:
                continue
            seen.add(k)
            todo.extend(flow.get(k, ()))
        return seen
    arg = con[0].args[1]
    deps = set().union(*[closure(n_) for n_ in direct_names(arg)]) if direct_names(arg) else set()
    ok = x0 in deps and dx in deps
    rep.ob(rule, f.key, f.where(con[0]), ok, f'the returned state is built from the initial state `{x0}` and the increment `{dx}`' if ok else
           f'`{src(con[0])[:70]}` builds the returned arguments from {sorted(deps & {x0, dx}) or "neither"} only: the solution is x0 + dx; without the initial state the returned constraints are off by the initial guess',
           statement='constraint-update')


def check_column_norm_reduction(model, rep, rule):
    """Matrix._solver handles a block of right-hand sides at once; a tolerance test that lets it stop (zero right-hand side shortcut, convergence) must hold for
    EVERY column, so the per-column norms are reduced with max (never min/mean) before they are compared with a tolerance."""
    f = model.func('matrix._base:Matrix._solver')
    n = 0
    for s_ in find_stmts(f.body, lambda s: isinstance(s, ast.Assign)):
        v = s_.value
        if isinstance(v, ast.Call) and isinstance(v.func, ast.Attribute) and v.func.attr in ('max', 'min', 'mean', 'sum') and 'numpy.linalg.norm(' in src(v.func.value) and 'axis=0' in src(v.func.value):
            n += 1
            ok = v.func.attr == 'max'
            rep.ob(rule, f.key, f.where(s_), ok, f'`{src(s_.targets[0])}` is the largest column norm' if ok else
                   f'`{src(s_)}` reduces the column norms with {v.func.attr}(): the tolerance tests that follow then hold for one column only, and the other columns are returned unsolved', statement=f'column-norm {src(s_.targets[0])}')
    if n < 1:
        raise AnalysisError('Matrix._solver: no reduction of per-column norms found')


def check_strict_linear_solve(model, rep, rule):
    """Direct solves a linear system once and System.solve re-checks its residual only when a tolerance was requested: the linear solve of Direct must be the
    strict `solve` (which raises ToleranceNotReached), not `solve_leniently` (which the iterative methods may use because they re-assemble the residual)."""
    c = model.cls('solver:Direct')
    f = c.members['__call__'].func
    calls = [x for x in calls_in(f.node) if method_name(x) in ('solve', 'solve_leniently') and isinstance(x.func, ast.Attribute)]
    if not calls:
        raise AnalysisError('Direct.__call__: the linear solve was not found')
    bad = [x for x in calls if method_name(x) == 'solve_leniently']
    rep.ob(rule, f.key, f.where((bad or calls)[0]), not bad, 'Direct uses the strict linear solve' if not bad else
           'Direct.__call__ uses solve_leniently: a linear solver that misses its tolerance only logs a warning, and without a tolerance on System.solve the unconverged vector is returned as the solution', statement='direct-strict-solve')


# ------------------------------------------------------------------------------------------------------------------ C19
def check_v1_duplicate_guards(model, rep, rule):
    """expression_v1: an index may occur at most twice; the methods of _Array that ADD an index (append_axis, ...) refuse an index that is already free
    (self.indices) or already summed (self.summed).  Sibling rule over every `Duplicate index` guard of _Array."""
    c = model.cls('expression_v1:_Array')
    n = 0
    for mem in c.members.values():
        f = mem.func
        if f is None or isinstance(f.node, ast.Lambda):
            continue
        for i_ in [s_ for s_ in ast.walk(f.node) if isinstance(s_, ast.If) and any(isinstance(b, ast.Raise) and 'Duplicate index' in src(b) for b in s_.body)]:
            t = src(i_.test)
            if 'self.indices' not in t and 'self.summed' not in t:
                continue
            n += 1
            ok = 'self.indices' in t and 'self.summed' in t
            rep.ob(rule, f.key, f.where(i_), ok, f'_Array.{f.name} refuses an index that is already free or already summed' if ok else
                   f'_Array.{f.name} tests `{t[:60]}` only: an index that was already contracted inside an operand can be added a third time and the expression is evaluated instead of rejected', statement=f'duplicate-guard {f.name}')
    if n < 1:
        raise AnalysisError(f'{rule}: no duplicate-index guard on self.indices/self.summed found in expression_v1._Array')


def check_v1_length_identity(model, rep, rule):
    """expression_v1 identifies an unknown axis length by the position of the index character that introduced it: a `_Length(...)` created inside a loop over the
    indices of one token must depend on the loop counter, otherwise all axes of `1_ij` share ONE unknown length (non-square arrays are rejected, or lengths are linked
    that are not)."""
    m = model.module('expression_v1')
    n = 0
    for f in model.functions.values():
        if f.module is not m or isinstance(f.node, ast.Lambda):
            continue
        for l in [x for x in ast.walk(f.node) if isinstance(x, (ast.For, ast.ListComp, ast.GeneratorExp))]:
            if isinstance(l, ast.For):
                tnames = {x.id for x in ast.walk(l.target) if isinstance(x, ast.Name)}
                body = l.body
            else:
                tnames = {x.id for g in l.generators for x in ast.walk(g.target) if isinstance(x, ast.Name)}
                body = [l.elt]
            inner = {t.id for b in body for s_ in ast.walk(b) if isinstance(s_, ast.Assign) for t in s_.targets if isinstance(t, ast.Name)}
            for c in [x for b in body for x in ast.walk(b) if isinstance(x, ast.Call) and src(x.func) == '_Length']:
                n += 1
                reads = {x.id for x in ast.walk(c) if isinstance(x, ast.Name)}
                ok = bool(reads & (tnames | inner))
                rep.ob(rule, f.key, f.where(c), ok, 'each axis gets its own unknown length' if ok else
                       f'`{src(c)}` inside a loop over indices does not depend on the loop variable: every axis created by this loop is the SAME unknown length', statement='length-identity')
    if n < 1:
        raise AnalysisError(f'{rule}: no _Length(...) created inside a loop found')
