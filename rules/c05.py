'''C05 Sparse extraction denotes exactly the dense array - narrow structural clauses.

Decided: R05.1 the final merge of Array.assparse takes indices and inverse from ONE unique(..., return_inverse=True)
call, the returned indices are unravelled from that unique flat index and the values are inflated over that inverse
(this is what makes index tuples unique and sorted); R05.2 ravel and unravel use the same axis lengths in opposite
order; R05.3 unique() wires sorter, mask and inverse consistently; R05.4 the CSR tuple order of evaluable.as_csr
agrees with its consumers (matrix.assemble_csr / assemble_block_csr / function.as_csr); R05.5 every _assparse
override is verified in debug mode; R05.6 the stride vector with which Inflate._assparse addresses the row-major flattened
dof map is row-major (symbolic evaluation for 1..4 axes); R05.7 Multiply._assparse keeps its factor clusters pairwise
axis-disjoint.  Not decided: the remaining index arithmetic of the individual _assparse overrides.
'''

import ast

from sa import AnalysisError
from sa.pattern import pmatch, pfind
from sa.astutil import dotted, src, stmt_text, params, find_stmts, calls_in, method_name, const, deep_resolved
from sa.algebra import Poly, Unsupported
from sa.flatindex import Exec, Inexact, row_major, symbols, product


def _sym_tuple(e, shape):
    """Symbolic value of a tuple-valued expression over the axis lengths `shape` (a list of monomials = sorted tuples of symbols)."""
    if isinstance(e, ast.Attribute) and e.attr == 'shape':
        return list(shape)
    if isinstance(e, ast.Constant) and e.value == 1:
        return ()
    if isinstance(e, ast.Tuple) or isinstance(e, ast.List):
        out = []
        for x in e.elts:
            if isinstance(x, ast.Starred):
                out.extend(_sym_tuple(x.value, shape))
            else:
                out.append(_sym_tuple(x, shape))
        return out
    if isinstance(e, ast.Subscript) and isinstance(e.slice, ast.Slice):
        base = _sym_tuple(e.value, shape)
        def c(x):
            if x is None:
                return None
            v = const(x) if not (isinstance(x, ast.UnaryOp) and isinstance(x.op, ast.USub)) else -const(x.operand)
            if not isinstance(v, int):
                raise AnalysisError(f'stride expression: slice bound `{src(x)}` is not a literal')
            return v
        return base[slice(c(e.slice.lower), c(e.slice.upper), c(e.slice.step))]
    if isinstance(e, ast.Call):
        f = src(e.func)
        if f in ('tuple', 'list') and len(e.args) == 1:
            return list(_sym_tuple(e.args[0], shape))
        if f == 'reversed' and len(e.args) == 1:
            return list(_sym_tuple(e.args[0], shape))[::-1]
        if f in ('itertools.accumulate', 'accumulate') and len(e.args) == 2 and src(e.args[1]) in ('operator.mul', 'mul'):
            acc, out = None, []
            for x in _sym_tuple(e.args[0], shape):
                acc = x if acc is None else tuple(sorted(acc + x))
                out.append(acc)
            return out
    raise AnalysisError(f'stride expression `{src(e)[:60]}` uses a construct the symbolic evaluator does not know')


def check_strides(model, rep):
    """R05.6: Inflate._assparse addresses the row-major flattened dof map (_flat = repeated Ravel of the last two axes) with
    sum(index_k * stride_k); the stride vector must be the row-major one, stride_k = product of the axis lengths after k.  The
    stride expression is evaluated symbolically for dof maps of 1..4 axes."""
    f = model.func('evaluable:Inflate._assparse')
    flat = model.func('evaluable:_flat')
    if not any(isinstance(c, ast.Call) and src(c.func) == 'Ravel' for c in ast.walk(flat.node)):
        raise AnalysisError('evaluable._flat no longer flattens with Ravel (row-major): R05.6 needs review')
    # The method is interpreted (sa.miniexec, nothing of nutils runs) for dof maps of 1..4 axes with symbolic axis lengths and one chunk of
    # symbolic indices; the index handed to Take(<flattened dof map>, .) must be the row-major flat index, however the strides are spelled.
    import itertools
    import operator
    import functools
    from sa.miniexec import MiniExec, Opaque, Sym, Returned, AssertionFailed
    bad = None
    try:
        for n in range(1, 5):
            i, sh = symbols('i', n), symbols('s', n)
            dofmap = Sym(shape=tuple(sh), ndim=n)
            keep, values = Opaque('k0'), Opaque('values')
            me = MiniExec({'self': Sym(dofmap=dofmap, func=Sym(ndim=n + 1, _assparse=[(keep, *i, values)])), '_flat': Opaque('_flat'), 'Take': Opaque('Take'), 'appendaxes': Opaque('appendaxes'),
                           'itertools': Sym(accumulate=itertools.accumulate, chain=itertools.chain), 'operator': Sym(mul=operator.mul, add=operator.add),
                           'functools': Sym(reduce=functools.reduce), 'map': map})
            try:
                me.run(f.body)
                raise Unsupported('no return')
            except Returned as r:
                chunks = list(r.value)
            if len(chunks) != 1 or len(chunks[0]) != 3 or chunks[0][0] is not keep or chunks[0][2] is not values:
                bad = (n, 'the chunk is no longer (kept indices, inflated index, values)', None)
                break
            take = chunks[0][1]
            if not isinstance(take, Opaque) or not take.origin or take.origin[0] != 'Take' or len(take.origin[1]) != 2:
                bad = (n, 'the inflated index is not Take(flattened dof map, flat index)', None)
                break
            flat, got = take.origin[1]
            if not isinstance(flat, Opaque) or not flat.origin or flat.origin[0] != '_flat' or flat.origin[1][0] is not dofmap:
                bad = (n, 'the dof map is not flattened with _flat(self.dofmap)', None)
                break
            got = Poly._coerce(got)
            if got is None or not got == row_major(i, sh):
                bad = (n, f'the flat index is {got!r}', row_major(i, sh))
                break
    except (Unsupported, AssertionFailed, TypeError, ValueError, IndexError, AttributeError, KeyError) as e:
        raise AnalysisError(f'Inflate._assparse: the method uses a construct the interpreter does not know: {type(e).__name__}: {e}')
    rep.ob('R05.6', f.key, f.where(), bad is None, 'the index into the flattened dof map is the row-major flat index for 1..4 axes (interpreted)' if bad is None else
           f'for a dof map of {bad[0]} axes {bad[1]}' + (f'; the row-major flattening of _flat needs {bad[2]!r}: the sparse values are scattered to the wrong dofs' if bad[2] is not None else ''), statement='row-major-strides')


def check_clusters(model, rep):
    """R05.7: Multiply._assparse writes the product as a sum of products over clusters of factors and assigns every axis to ONE
    cluster; that needs the clusters to be pairwise axis-disjoint, which the collection loop establishes by merging a new factor
    with EVERY existing cluster it overlaps.  The scan over the existing clusters must therefore not end early and the merged
    cluster is appended after the scan."""
    f = model.func('evaluable:Multiply._assparse')
    outer = [l for l in f.body if isinstance(l, ast.For) and src(l.iter) == 'self._factors']
    if len(outer) != 1:
        raise AnalysisError('Multiply._assparse: the loop over the factors was not found')
    inner = [l for l in outer[0].body if isinstance(l, ast.For) and 'clusters' in src(l.iter)]
    if len(inner) != 1:
        raise AnalysisError('Multiply._assparse: the scan over the existing clusters was not found')
    scan = inner[0]
    merges = [i for i in scan.body if isinstance(i, ast.If) and '&' in src(i.test) or isinstance(i, ast.If) and 'isdisjoint' in src(i.test)]
    early = [n for n in ast.walk(scan) if isinstance(n, (ast.Break, ast.Return))]
    after = outer[0].body[outer[0].body.index(scan) + 1:]
    appended = any(isinstance(c, ast.Call) and src(c.func) == 'clusters.append' for s_ in after for c in ast.walk(s_))
    ok = bool(merges) and not early and appended
    rep.ob('R05.7', f.key, f.where(early[0]) if early else f.where(scan), ok, 'a new factor is merged with every existing cluster it shares an axis with (no early exit), then appended: clusters stay pairwise axis-disjoint' if ok else
           ('the scan over the existing clusters ends early: a factor that shares axes with two clusters fuses only one of them, the clusters are no longer axis-disjoint and the sum-of-products step assigns an axis twice '
            '(silently wrong values, e.g. f1(i) f2(j) f3(i,j))' if early else 'the cluster collection loop lost its merge test or the append after the scan'), statement='clusters-disjoint')


DEDUP = ('set', 'frozenset', 'dict.fromkeys', 'numpy.unique', 'collections.OrderedDict.fromkeys')


def check_term_multiset(model, rep):
    """R05.8: the operands of an n-ary node are a multiset (Add.funcs is a frozenmultiset: a + a has the term a twice).  An _assparse
    that gathers the chunks of its operands must visit every occurrence; iterating over a de-duplicated collection (set, frozenset,
    dict.fromkeys, unique) drops the repeated contribution while shape, order and uniqueness of the indices stay intact."""
    ev = model.module('evaluable')
    n = 0
    for c in ev.classes.values():
        mem = c.members.get('_assparse')
        if mem is None or mem.func is None:
            continue
        fn = mem.func.node
        binds = {}
        for s_ in ast.walk(fn):
            if isinstance(s_, ast.Assign) and len(s_.targets) == 1 and isinstance(s_.targets[0], ast.Name):
                binds.setdefault(s_.targets[0].id, []).append(s_.value)
        for comp in ast.walk(fn):
            if not isinstance(comp, (ast.GeneratorExp, ast.ListComp)):
                continue
            if not any(isinstance(x, ast.Attribute) and x.attr == '_assparse' for x in ast.walk(comp.elt)):
                continue
            for g in comp.generators:
                n += 1
                its = [g.iter] + (binds.get(g.iter.id, []) if isinstance(g.iter, ast.Name) else [])
                bad = [x for it in its for x in ast.walk(it) if isinstance(x, ast.Call) and src(x.func) in DEDUP]
                ok = not bad
                rep.ob('R05.8', mem.func.key, mem.func.where(comp), ok, f'{c.name}._assparse gathers the chunks of every occurrence of its operands (`{src(g.iter)[:40]}`)' if ok else
                       f'{c.name}._assparse iterates over `{src(bad[0])[:50]}`: a repeated operand (a + a) contributes its chunks once, so the sparse values are those of a, not 2a', statement='operand-multiset')
    if n < 2:
        raise AnalysisError(f'only {n} operand loops over _assparse found')


def check_bincount(model, rep):
    """R05.10: numpy.bincount(..., weights=w) adds the weights up in double precision whatever their type.  It stands for the exact sum
    of the scattered values (numeric.accumulate = the value merge of Assemble and of a single sparse chunk) only for floating point
    data: integers above 2**53 are rounded, complex values lose their imaginary part.  Every such call must therefore be dominated
    by a test that the data are floating point."""
    from sa.guards import facts_at
    n = 0
    for f in model.functions.values():
        if isinstance(f.node, ast.Lambda) or f.module.short.startswith('testing'):
            continue
        for c in calls_in(f.node, nested=False):
            if src(c.func) not in ('numpy.bincount', 'bincount') or not any(k.arg == 'weights' for k in c.keywords):
                continue
            n += 1
            w = next(k.value for k in c.keywords if k.arg == 'weights')
            base = w
            while isinstance(base, (ast.Attribute, ast.Subscript, ast.Call)):
                base = base.func if isinstance(base, ast.Call) else base.value
            b = src(base)
            stmt = next(s_ for s_ in find_stmts(f.body, lambda s_: any(x is c for x in ast.walk(s_))) if not isinstance(s_, (ast.If, ast.For, ast.While, ast.With, ast.Try)))
            facts = facts_at(f.node, lambda s_: s_ is stmt)
            accepted = {f"{b}.dtype.kind == 'f'", f'{b}.dtype == float', f'{b}.dtype == numpy.float64', f'{b}.dtype is float', f"'f' == {b}.dtype.kind", f'float == {b}.dtype'}
            ok = any(src(node_) in accepted and v for node_, v in facts.facts.values())
            rep.ob('R05.10', f.key, f.where(c), ok, f'bincount(weights={src(w)}) is reached for floating point data only' if ok else
                   f'`numpy.bincount(..., weights={src(w)})` is not dominated by a test that `{b}` is floating point (found: {sorted(facts.facts)[:4]}): bincount sums in double precision, so integer entries above 2**53 are '
                   'rounded (and complex ones lose their imaginary part) while the dense evaluation stays exact - listed values and dense array differ', statement='bincount-float-only')
    if n < 1:
        raise AnalysisError('R05.10: no numpy.bincount(..., weights=...) found (numeric.accumulate expected)')


def run(model, rep, tier):
    rep.explanation = (
        'R05.1 def-use inside evaluable.Array.assparse: `flatindex, inverse = unique(Guard(concatenate(index_parts)), return_inverse=True)`; the index list starts from that flatindex and the values are '
        'Inflate(part, Take(inverse, slice), flatindex.shape[0]) summed over the parts. R05.2 the flattening loop multiplies by self.shape[1:] in forward order, the unravel loop divmods by the same lengths reversed. '
        'R05.3 unique(): sorter=ArgSort(array), mask=UniqueMask(Take(array, sorter)), index=Take(sorter, Find(mask)), inverse=UniqueInverse(mask, sorter), and the result selection. R05.4 evaluable.as_csr returns '
        '(values, CompressIndices(rowidx, nrows), colidx, ncols), the order matrix.assemble_csr and assemble_block_csr take and function.as_csr unpacks. R05.5 every _assparse override carries @verify_sparse_chunks. '
        'These decide only the final merge and the cross-module tuple contracts; the index arithmetic of each _assparse override (value level) is NOT decided.')
    rep.rule('R05.1', 'final merge: one unique() provides indices and inverse')
    rep.rule('R05.2', 'ravel/unravel use the same lengths in opposite order')
    rep.rule('R05.3', 'unique() wiring')
    rep.rule('R05.4', 'CSR tuple order agrees across modules')
    rep.rule('R05.5', '_assparse overrides are debug-verified')
    rep.rule('R05.8', '_assparse gathers the chunks of every occurrence of the operands (multiset, no de-duplication)')
    rep.rule('R05.6', 'Inflate._assparse: stride vector of the flattened dof map is row-major (symbolic evaluation)')
    rep.rule('R05.7', 'Multiply._assparse: factor clusters are kept pairwise axis-disjoint (full scan, then append)')
    A = model.cls('evaluable:Array')
    f = A.members['assparse'].func
    txt = src(f.node)
    u = [s for s in find_stmts(f.body, lambda s: isinstance(s, ast.Assign)) if isinstance(s.value, ast.Call) and src(s.value.func) == 'unique']
    ok = len(u) == 1 and isinstance(u[0].targets[0], ast.Tuple) and len(u[0].targets[0].elts) == 2 and any(k.arg == 'return_inverse' and const(k.value) is True for k in u[0].value.keywords) \
        and not any(k.arg == 'return_index' for k in u[0].value.keywords)
    if not u:
        raise AnalysisError('Array.assparse: the unique() merge was not found')
    fi, inv = (src(e) for e in u[0].targets[0].elts) if ok else ('?', '?')
    rep.ob('R05.1', f.key, f.where(u[0]), ok, f'`{stmt_text(u[0])[:70]}` yields the sorted unique flat indices and the inverse map' if ok else
           'the merge no longer unpacks (unique indices, inverse) from unique(..., return_inverse=True)', statement='unique-call')
    # every path that has parts to merge goes through that unique() call: a branch that hands the parts out unmerged ("already ordered") confuses
    # sorted with unique and returns repeated index tuples
    from sa.guards import paths_to
    from sa.paths import Event
    ps = paths_to(f.node, lambda s_: isinstance(s_, ast.Return), on_extra=lambda s_, st: (Event('UNIQUE', s_),) if s_ is u[0] else ())
    skipping = [(p_, facts) for p_, idx, facts in ps if facts.get('value_parts') is True and not any(e.kind == 'UNIQUE' for e in p_.events[:idx])]
    okp = bool(ps) and not skipping
    rep.ob('R05.1', f.key, f.where(u[0]), okp, 'every path with parts to merge passes through the unique() merge' if okp else
           f'a path with non-empty value_parts reaches the return without the unique() merge (under {sorted(k for k, v in skipping[0][1].items())[:5]}): index tuples that occur in several entries '
           'are handed out repeatedly, so the listed values no longer denote the dense array (COO indices not unique, CSR columns repeated)', statement='merge-on-every-path')
    ok2 = ok and 'concatenate(index_parts)' in src(u[0].value)
    rep.ob('R05.1', f.key, f.where(u[0]), ok2, 'unique() is applied to the concatenation of ALL index parts' if ok2 else 'unique() is not applied to concatenate(index_parts)', statement='unique-over-all-parts')
    ind = [s for s in find_stmts(f.body, lambda s: isinstance(s, ast.Assign)) if src(s.targets[0]) == 'indices' and isinstance(s.value, ast.List) and len(s.value.elts) == 1]
    ok3 = ok and any(src(s.value.elts[0]) == fi for s in ind)
    rep.ob('R05.1', f.key, f.where(ind[0]) if ind else f.where(), ok3, 'the returned indices are unravelled from the unique flat index' if ok3 else
           'the returned indices do not start from the first result of unique(): duplicates and unsorted tuples are handed out', statement='indices-from-unique')
    # matched structurally on what the expression denotes (local names bound once are read as their right-hand sides): every part f is inflated over
    # its own slice s of THE inverse map to the length of THE unique index, and the slices are Range(length_k) + (sum of the lengths before k)
    vals = [s for s in find_stmts(f.body, lambda s: isinstance(s, ast.Assign)) if src(s.targets[0]) == 'values' and 'Inflate(' in src(deep_resolved(f.node, s.value))]
    m = pmatch('util.sum((Inflate(F_, Take(INV_, S_), FI_.shape[0]) for F_, S_ in zip(value_parts, SL_)))', deep_resolved(f.node, vals[0].value)) if len(vals) == 1 else None
    call = src(u[0].value)
    ok4 = ok and m is not None and src(m['INV_']) in (inv, f'{call}[1]') and src(m['FI_']) in (fi, f'{call}[0]')
    rep.ob('R05.1', f.key, f.where(vals[0]) if vals else f.where(), ok4, 'values of equal index tuples are summed by inflating every part over the inverse map' if ok4 else
           'the values are not inflated over the inverse of the same unique() call: values and indices no longer correspond', statement='values-over-inverse')
    m2 = pmatch('[Range(L_) + O_ for L_, O_ in zip(LEN_, util.cumsum(LEN_))]', m['SL_']) if m is not None else None
    ok5 = m2 is not None and pmatch('[A_.shape[0] for A_ in value_parts]', m2['LEN_']) is not None
    rep.ob('R05.1', f.key, f.where(vals[0]) if vals else f.where(), ok5, 'each part addresses its own slice of the inverse map (offsets = cumulative lengths)' if ok5 else 'the per-part slices of the inverse map changed', statement='part-slices')
    # R05.2: ravel and unravel, executed symbolically for 1..4 axes (sa/flatindex.py)
    outer = [l for l in ast.walk(f.node) if isinstance(l, ast.For) and src(l.iter) == 'self._assparse']
    fl = [l for o in outer for l in o.body if isinstance(l, ast.For)]
    ul = [l for l in ast.walk(f.node) if isinstance(l, ast.For) and any('divmod' in src(b) for b in l.body)]
    init = [s_ for s_ in find_stmts(f.body, lambda s_: isinstance(s_, ast.Assign)) if src(s_.targets[0]) == 'indices' and isinstance(s_.value, ast.List)]
    if len(outer) != 1 or len(fl) != 1 or len(ul) != 1 or not init:
        raise AnalysisError('Array.assparse: flattening loop or unravel loop not found')
    tnames = [n.id for n in ast.walk(outer[0].target) if isinstance(n, ast.Name)]
    bad_r = bad_u = None
    try:
        for n in range(1, 5):
            i, sh = symbols('i', n), symbols('s', n)
            ex = Exec({}, binder=lambda t, sh=sh: list(sh) if t == 'self.shape' else None)
            ex.bind(outer[0].target, [i[0], *i[1:], Poly.atom('values')])
            env = ex.run([fl[0]])
            got = env[tnames[0]]
            if not got == row_major(i, sh):
                bad_r = (n, got, row_major(i, sh))
                break
        for n in range(1, 5):
            i, sh = symbols('i', n), symbols('s', n)
            ex = Exec({'flatindex': row_major(i, sh)}, binder=lambda t, sh=sh: list(sh) if t == 'self.shape' else None)
            try:
                env = ex.run([init[-1], ul[0]])
            except Inexact as e:
                bad_u = (n, str(e), i)
                break
            if env['indices'] != i:
                bad_u = (n, env['indices'], i)
                break
    except Unsupported as e:
        raise AnalysisError(f'Array.assparse: the ravel/unravel loops use a construct the symbolic executor does not know: {e}')
    rep.ob('R05.2', f.key, f.where(fl[0]), bad_r is None, 'flat index = row-major ravel of the index tuple over self.shape (symbolic execution, 1..4 axes)' if bad_r is None else
           f'for {bad_r[0]} axes the flattening loop computes {bad_r[1]!r}, not the row-major flat index {bad_r[2]!r}: index tuples are merged and ordered wrongly', statement='ravel')
    rep.ob('R05.2', f.key, f.where(ul[0]), bad_u is None, 'unravel inverts the ravel: repeated divmod returns the index tuple (symbolic execution under 0 <= i_k < s_k, 1..4 axes)' if bad_u is None else
           f'for {bad_u[0]} axes the unravel loop returns {bad_u[1]!r} for the flat index of {bad_u[2]!r}: indices of arrays with unequal axis lengths are decoded wrongly', statement='unravel')
    # R05.3
    uq = model.func('evaluable:unique')
    t = src(uq.node)
    # what unique() returns, in terms of its argument (sa.pattern on the resolved return expression): sort, mark first occurrences of the SORTED
    # array, gather through the SAME sorter, inverse from the SAME mask and sorter
    # unique() is INTERPRETED (sa.miniexec) with opaque node constructors for the four flag combinations: the returned terms must be the documented wiring
    from sa.miniexec import MiniExec, Opaque, Sym, Returned, RaisedIn, AssertionFailed

    class _Arr(Opaque):     # an opaque array that passes `isinstance(array, Array)` and `array.ndim == 1` style preconditions
        pass
    SORT = 'ArgSort(array)'
    MASK = f'UniqueMask(Take(array, {SORT}))'
    IDX = f'Take({SORT}, Find({MASK}))'
    WANT = {'unique': f'Take(array, {IDX})', 'index': IDX, 'inverse': f'UniqueInverse({MASK}, {SORT})'}
    missing, sel_ok = [], True
    try:
        for ri, rv in ((False, False), (True, False), (False, True), (True, True)):
            arr = _Arr('array')
            ex = MiniExec({'array': arr, 'return_index': ri, 'return_inverse': rv, 'Array': _Arr, 'isinstance': isinstance, 'slice': slice,
                           **{k: Opaque(k) for k in ('ArgSort', 'UniqueMask', 'Take', 'Find', 'UniqueInverse')}})
            ex_attr = ex.ev

            def ev_patched(e, env=None, _orig=ex_attr):
                if isinstance(e, ast.Attribute) and src(e) == 'array.ndim':
                    return 1
                return _orig(e, env)
            ex.ev = ev_patched
            try:
                ex.run(uq.node.body)
                got = None
            except Returned as r:
                got = r.value
            names = ['unique'] + (['index'] if ri else []) + (['inverse'] if rv else [])
            gl = [repr(x) for x in (got if isinstance(got, (tuple, list)) else [got])]
            if (ri or rv) != isinstance(got, (tuple, list)) or len(gl) != len(names):
                sel_ok = False
                continue
            for nm, g_ in zip(names, gl):
                if g_ != WANT[nm] and f'{nm} = {WANT[nm]}' not in missing:
                    missing.append(f'{nm} = {WANT[nm]}')
    except (Unsupported, AssertionFailed, RaisedIn, TypeError, ValueError, KeyError, IndexError, AttributeError) as e:
        raise AnalysisError(f'evaluable.unique uses a construct the interpreter does not know: {type(e).__name__}: {e}')
    rep.ob('R05.3', uq.key, uq.where(), not missing, 'unique() = sort, mark first occurrences, gather, inverse through the same sorter and mask' if not missing else f'unique(): {missing} changed', statement='unique-wiring')
    ok = sel_ok
    rep.ob('R05.3', uq.key, uq.where(), ok, 'the result selection returns (unique, inverse) for return_inverse only' if ok else 'the result selection of unique() changed', statement='unique-selection')
    # R05.4
    ac = model.func('evaluable:as_csr')
    r = find_stmts(ac.body, lambda s: isinstance(s, ast.Return))
    ok = len(r) == 1 and src(r[0].value).replace(' ', '').strip('()') == 'values,CompressIndices(rowidx,nrows),colidx,ncols'.strip('()') and 'values, (rowidx, colidx), (nrows, ncols) = array.simplified.assparse' in src(ac.node)
    rep.ob('R05.4', ac.key, ac.where(), ok, 'as_csr returns (values, rowptr, colidx, ncols)' if ok else 'evaluable.as_csr no longer returns (values, CompressIndices(rowidx, nrows), colidx, ncols)', statement='as_csr-order')
    mc = model.func('matrix:assemble_csr')
    ok = params(mc.node)[0][:4] == ['values', 'rowptr', 'colidx', 'ncols']
    rep.ob('R05.4', mc.key, mc.where(), ok, 'matrix.assemble_csr takes (values, rowptr, colidx, ncols) in that order', statement='assemble_csr-order')
    mb = model.func('matrix:assemble_block_csr')
    ok = any(isinstance(s, ast.For) and src(s.target).replace(' ', '').strip('()') == 'block_values,block_rowptr,block_colidx,block_ncols' for s in ast.walk(mb.node))
    rep.ob('R05.4', mb.key, mb.where(), ok, 'assemble_block_csr unpacks blocks as (values, rowptr, colidx, ncols)', statement='block-order')
    fc = model.func('function:as_csr')
    ok = 'values, rowptr, colidx, ncols = evaluable.as_csr(' in src(fc.node) and 'return (values, rowptr, colidx)' in src(fc.node)
    rep.ob('R05.4', fc.key, fc.where(), ok, 'function.as_csr unpacks and returns (values, rowptr, colidx)', statement='function-as_csr')
    fo = model.func('function:as_coo')
    ok = False
    for a_ in ast.walk(fo.node):
        if isinstance(a_, ast.Assign) and src(a_.targets[0]).replace('(', '').replace(')', '') == 'values, indices, shape':
            v_ = a_.value
            if src(v_) == 'array.as_evaluable_array.simplified.assparse':
                ok = True
            elif isinstance(v_, ast.Call) and isinstance(v_.func, ast.Attribute) and src(v_.func.value) == 'evaluable' and len(v_.args) == 1 and src(v_.args[0]) == 'array.as_evaluable_array':
                # through a helper of evaluable.py that returns <its argument>.simplified.assparse
                g_ = model.functions.get(f'evaluable:{v_.func.attr}')
                if g_ is not None and not isinstance(g_.node, ast.Lambda):
                    from sa.astutil import resolved_return
                    r_ = resolved_return(g_.node)
                    ps_ = params(g_.node)[0]
                    ok = r_ is not None and bool(ps_) and src(r_) == f'{ps_[0]}.simplified.assparse'
    ok = ok and 'return (values, *indices)' in src(fo.node)
    rep.ob('R05.4', fo.key, fo.where(), ok, 'function.as_coo returns (values, *indices) of the simplified array', statement='function-as_coo')
    ci = model.cls('evaluable:CompressIndices').members['_compile_expression'].func
    ok = "get_attr('compress_indices').call(indices, length)" in src(ci.node)
    rep.ob('R05.4', ci.key, ci.where(), ok, 'row pointers are numeric.compress_indices(rowidx, nrows)', statement='compress-indices')
    # R05.5
    n = 0
    for c in model.subclasses(A, strict=False):
        mem = c.members.get('_assparse')
        if mem is None or mem.func is None:
            continue
        n += 1
        ok = any('verify_sparse_chunks' in d for d in mem.func.decorators)
        rep.ob('R05.5', mem.func.key, mem.func.where(), ok, 'decorated with @verify_sparse_chunks (shape/dtype/length of every chunk asserted in debug mode)' if ok else
               f'{c.name}._assparse lost @verify_sparse_chunks', statement='verified')
    if n < 12:
        raise AnalysisError(f'only {n} _assparse implementations found')
    check_strides(model, rep)
    check_clusters(model, rep)
    check_term_multiset(model, rep)
    rep.rule('R05.9', 'compress_indices (CSR row pointers) never returns on counts / end points of the row indices alone (rules/shortcuts.py)')
    from rules import shortcuts
    shortcuts.check(model, rep, 'R05.9', 'numeric:compress_indices', why='the number of stored entries and the first and last row do not determine the row pointers; rows with several or no entries get the pointers of other rows, and the CSR triple denotes another matrix than the COO data')
    rep.rule('R05.11', 'the integer-range shortcuts that the sparse index arithmetic (divmod of Unravel, Take of offsets) relies on are licensed by the ranges (= R06.1)')
    from rules.c06 import check_consumers
    from rules.c03 import _Rename as _Rn
    check_consumers(model, _Rn(rep, {'R06.1': 'R05.11'}))
    rep.require('R05.9', 2)
    rep.rule('R05.10', 'numpy.bincount with weights (double precision accumulation) is reached for floating point data only')
    check_bincount(model, rep)
    rep.require('R05.1', 5)
    rep.require('R05.4', 6)
