'''Shared rule: a function that computes a PER-ELEMENT structure from a sequence may not return on aggregate information alone.

compress_indices (row pointers from row indices), Sample.take_elements (a sub-sample from element numbers) and sample._offsets
(point offsets from a sequence of point sets) produce one entry per element of their input.  A return that is reached without the
function ever having read the elements - only len(), .size, .shape, .npoints, .nelems, a constant subscript or .get(<constant>) - has
decided the result from counts and end points; that is correct only for inputs of one particular kind (strictly increasing indices,
the identity selection, uniform point counts) which those aggregates cannot establish.  The only licensed aggregate-only return is the
one for an EMPTY input (and members of a class that is itself the empty sample).

Decided per path (structural enumeration): on every path that reaches a `return`, some executed statement or test reads the
designated parameter as a whole (a slice, an elementwise operation, iteration, or as an argument of a call), or the path carries
the fact that the input is empty.
'''

import ast

from sa import AnalysisError
from sa.astutil import src, params
from sa.guards import paths_to, decompose

AGG_ATTRS = {'size', 'shape', 'ndim', 'npoints', 'nelems', 'dtype', 'ndims'}


def _parents(root):
    par = {}
    for n in ast.walk(root):
        for c in ast.iter_child_nodes(n):
            par[id(c)] = n
    return par


def full_reads(node, name):
    '''Occurrences of `name` in node that read the elements (not only a count, a shape or one fixed element).'''
    par = _parents(node)
    out = []
    for n in ast.walk(node):
        if not (isinstance(n, ast.Name) and n.id == name and isinstance(n.ctx, ast.Load)):
            continue
        p = par.get(id(n))
        if isinstance(p, ast.Call) and src(p.func) in ('len', 'builtins.len', 'bool') and len(p.args) == 1 and p.args[0] is n:
            continue
        if isinstance(p, ast.Attribute) and p.value is n:
            if p.attr in AGG_ATTRS:
                continue
            pp = par.get(id(p))
            if p.attr == 'get' and isinstance(pp, ast.Call) and pp.func is p and len(pp.args) == 1 and isinstance(pp.args[0], ast.Constant):
                continue
        if isinstance(p, ast.Subscript) and p.value is n and (isinstance(p.slice, ast.Constant) or
                                                              (isinstance(p.slice, ast.UnaryOp) and isinstance(p.slice.operand, ast.Constant))):
            continue
        if isinstance(p, ast.UnaryOp) and isinstance(p.op, ast.Not):
            continue    # truthiness of a sequence = non-emptiness
        if isinstance(p, (ast.If, ast.While, ast.IfExp, ast.BoolOp)) and (getattr(p, 'test', None) is n or isinstance(p, ast.BoolOp)):
            continue
        out.append(n)
    return out


def _empty_fact(facts, name):
    pos = {f'len({name})': False, f'not len({name})': True, f'len({name}) == 0': True, f'len({name}) > 0': False, f'len({name}) != 0': False,
           f'{name}.size': False, f'not {name}.size': True, f'{name}.size == 0': True, f'{name}': False, f'not {name}': True}
    return any(k in pos and pos[k] == v for k, v in facts.items())


def check(model, rep, rule, key, param=None, why=''):
    f = model.func(key)
    name = param or params(f.node)[0][1 if f.cls is not None else 0]

    def on_extra(s, st):
        from sa.paths import Event
        real = getattr(s, '_owner', None)
        probe = s if real is None else s    # header expressions arrive wrapped in an Expr
        if not isinstance(s, ast.Return) and full_reads(probe, name):
            return (Event('FULLREAD', s),)
        return ()
    ps = paths_to(f.node, lambda s: isinstance(s, ast.Return), on_extra=on_extra)
    if not ps:
        raise AnalysisError(f'{key}: no returning path found')
    n = 0
    from sa.astutil import deep_resolved

    def expand(text):
        # a fact about a local that merely names len(x) / x.size is a fact about the input
        try:
            return src(deep_resolved(f.node, ast.parse(text, mode='eval').body))
        except SyntaxError:
            return text
    for p, idx, facts in ps:
        facts = {**facts, **{expand(k): v for k, v in facts.items()}}
        ret = p.events[idx].node
        before = p.events[:idx]
        read = any(e.kind == 'FULLREAD' for e in before) or any(e.kind == 'cond' and full_reads(e.node, name) for e in before) \
            or (ret.value is not None and bool(full_reads(ret.value, name)))
        ok = read or _empty_fact(facts, name)
        n += 1
        rep.ob(rule, f.key, f.where(ret), ok, f'`return {src(ret.value)[:50] if ret.value is not None else ""}` is reached after the elements of `{name}` were read (or for an empty input)' if ok else
               f'`return {src(ret.value)[:60] if ret.value is not None else ""}` is reached on a path that has only looked at counts / end points of `{name}` '
               f'({", ".join(sorted(k for k in facts))[:120]}): {why}', statement=f'aggregate-only return {src(ret.value)[:40] if ret.value is not None else ""}')
    return n
