'''C20 Physical dimensions are tracked soundly.

Decided: every entry of Quantity's dispatch table routes its operation to a handler whose abstract
transfer signature (required equalities between operand dimensions, exponent vector of the result)
equals what dimensional analysis dictates for that operation (oracle table); handlers pass only
unwrapped operands on; operators bind the table entry of the operator of the same name, reflected
ones through _reverse; the Dimension algebra adds/subtracts/scales exponents and canonicalises; unit
strings are parsed with the documented precedence and name resolution; prefix tables equal the SI
table; unchecked parsing is reachable only through the dimension-checking constructor.
Not decided: numerical values of conversions, format round trip.
'''

import ast
import json
import os
from fractions import Fraction

from sa import AnalysisError
from sa.boolnf import equivalent
from sa.pattern import pmatch, pfind
from sa.astutil import dotted, src, stmt_text, params, find_stmts, calls_in, method_name, walk_no_nested, const, deep_resolved
from sa.guards import facts_at, enclosing_conditions

ORACLE = os.path.join(os.path.dirname(os.path.dirname(os.path.abspath(__file__))), 'oracles', 'dimension_rules.json')


def load_oracle():
    with open(ORACLE) as f:
        return json.load(f)


class Handler:
    def __init__(self, fn):
        self.fn = fn
        self.name = fn.name
        self.registered = []
        for d in fn.decorator_list:
            if isinstance(d, ast.Call) and src(d.func) == 'register' and d.args:
                self.registered.append(src(d.args[0]))
        self.operands = []      # operand expression texts, in order
        self.dimnames = []      # dim variable names, parallel to operands (or one name for star form)
        self.argnames = []
        self.star = None        # ('dims', 'args') for zip(*unpack(*X)) forms
        self.star_source = None
        self.requires = []      # list of frozenset({i, j}) or 'all'
        self.result = None      # ('dim', exponent map) | ('plain',) | ('each',) | ('product',) | ('first',)
        self.op_call = None
        self.problems = []
        self._abstract()

    @staticmethod
    def _unrolled(stmts):
        """The statements with every loop over a literal tuple of tuples unrolled (loop targets replaced by the items) and single-use locals of the
        unrolled body substituted into its tests: `for name, dim, value in ('tol', dimtol, tol), (...): if dim != dimgeom and ...: raise` is one guard per item."""
        import copy
        out = []
        for s in stmts:
            if isinstance(s, ast.For) and isinstance(s.iter, ast.Tuple) and s.iter.elts and all(isinstance(e, ast.Tuple) for e in s.iter.elts) and isinstance(s.target, ast.Tuple) \
                    and all(isinstance(t, ast.Name) for t in s.target.elts) and all(len(e.elts) == len(s.target.elts) for e in s.iter.elts) and not s.orelse:
                for item in s.iter.elts:
                    env = {t.id: v for t, v in zip(s.target.elts, item.elts)}

                    class Sub(ast.NodeTransformer):
                        def visit_Name(self, n, env=env):
                            return copy.deepcopy(env[n.id]) if isinstance(n.ctx, ast.Load) and n.id in env else n
                    for b in s.body:
                        b2 = Sub().visit(copy.deepcopy(b))
                        if isinstance(b2, ast.Assign) and len(b2.targets) == 1 and isinstance(b2.targets[0], ast.Name) and isinstance(b2.value, (ast.BoolOp, ast.Compare, ast.UnaryOp)):
                            env[b2.targets[0].id] = b2.value      # a named part of the test that follows
                            continue
                        out.append(ast.fix_missing_locations(b2))
            else:
                out.append(s)
        return out

    def _abstract(self):
        fn = self.fn
        for s in self._unrolled(fn.body):
            if isinstance(s, ast.Assign) and isinstance(s.value, ast.Call):
                v = s.value
                if src(v.func) == 'Quantity.__unpack':
                    t = s.targets[0]
                    if isinstance(t, ast.Tuple) and all(isinstance(e, ast.Tuple) and len(e.elts) == 2 for e in t.elts) and len(t.elts) == len(v.args):
                        for e, a in zip(t.elts, v.args):
                            self.dimnames.append(src(e.elts[0]))
                            self.argnames.append(src(e.elts[1]))
                            self.operands.append(src(a))
                    else:
                        self.problems.append(f'unrecognised unpack `{stmt_text(s)}`')
                elif src(v.func) == 'zip' and v.args and isinstance(v.args[0], ast.Starred) and isinstance(v.args[0].value, ast.Call) and src(v.args[0].value.func) == 'Quantity.__unpack':
                    t = s.targets[0]
                    inner = v.args[0].value
                    if isinstance(t, ast.Tuple) and len(t.elts) == 2 and len(inner.args) == 1 and isinstance(inner.args[0], ast.Starred):
                        self.star = (src(t.elts[0]), src(t.elts[1]))
                        self.star_source = src(inner.args[0].value)
                    else:
                        self.problems.append(f'unrecognised unpack `{stmt_text(s)}`')
            elif isinstance(s, ast.If):
                exc = [b for b in s.body if isinstance(b, ast.Raise)]
                if not exc or 'DimensionError' not in src(exc[0]):
                    self.problems.append(f'guard `{stmt_text(s)}` does not raise DimensionError')
                    continue
                self._guard(s.test)
        rets = [s for s in fn.body if isinstance(s, ast.Return)]
        if len(rets) != 1:
            self.problems.append('handler has no single return')
            return
        self._result(rets[0].value)

    def _guard(self, t):
        """The guard raises when `t` holds.  It is recognised by propositional equivalence (sa.boolnf) with one of the templates
        built from the handler's own operand names, so De Morgan rewrites and reordered operands are the same guard."""
        for i, a in enumerate(self.dimnames):
            for j, b in enumerate(self.dimnames):
                if i < j and equivalent(t, f'{a} != {b}'):
                    self.requires.append(frozenset((i, j)))
                    return
        if isinstance(t, ast.Call) and src(t.func) == 'any' and self.star and isinstance(t.args[0], ast.GeneratorExp):
            g = t.args[0]
            if isinstance(g.elt, ast.Compare) and isinstance(g.elt.ops[0], ast.NotEq) and src(g.generators[0].iter) == f'{self.star[0]}[1:]' \
                    and {src(g.elt.left), src(g.elt.comparators[0])} == {src(g.generators[0].target), f'{self.star[0]}[0]'}:
                self.requires.append('all')
                return
        # locate-style: an optional operand is either absent (dimensionless and None) or has the dimension of another operand
        for i, (a, x) in enumerate(zip(self.dimnames, self.argnames)):
            for j, b in enumerate(self.dimnames):
                if i != j and equivalent(t, f'not ({a} == Dimensionless and {x} is None or {a} == {b})'):
                    self.requires.append(('optional', i, j))
                    return
            for j, b in enumerate(self.dimnames):
                for k, c in enumerate(self.dimnames):
                    if j < k and i not in (j, k) and equivalent(t, f'not ({a} == Dimensionless and {x} is None or {b} == {c})'):
                        self.requires.append(('optional-mismatch', a, (b, c)))
                        return
        self.problems.append(f'unrecognised guard `{src(t)}`')

    def _dimexpr(self, e):
        '''exponent map {operand index: Fraction | ('sym', text)} of a dimension expression, or None.'''
        t = src(e)
        if t in self.dimnames:
            return {self.dimnames.index(t): Fraction(1)}
        if isinstance(e, ast.BinOp) and isinstance(e.op, (ast.Mult, ast.Div)):
            a, b = self._dimexpr(e.left), self._dimexpr(e.right)
            if a is None or b is None:
                return None
            out = dict(a)
            for k, v in b.items():
                if isinstance(v, tuple) or isinstance(out.get(k, Fraction(0)), tuple):
                    return None
                out[k] = out.get(k, Fraction(0)) + (v if isinstance(e.op, ast.Mult) else -v)
            return out
        if isinstance(e, ast.BinOp) and isinstance(e.op, ast.Pow):
            a = self._dimexpr(e.left)
            if a is None:
                return None
            p = self._number(e.right)
            if p is None:
                return {k: ('sym', src(e.right)) for k, v in a.items() if v == 1} if all(v == 1 for v in a.values()) else None
            return {k: v * p for k, v in a.items()}
        return None

    @staticmethod
    def _number(e):
        c = const(e)
        if isinstance(c, (int, float)) and not isinstance(c, bool):
            return Fraction(c).limit_denominator(1000)
        if isinstance(e, ast.Call) and src(e.func) in ('fractions.Fraction', 'Fraction') and all(isinstance(const(a), int) for a in e.args) and 1 <= len(e.args) <= 2:
            return Fraction(*[const(a) for a in e.args])
        return None

    def _result(self, v):
        if isinstance(v, ast.Call) and isinstance(v.func, ast.Attribute) and v.func.attr == 'wrap' and len(v.args) == 1:
            d = v.func.value
            inner = v.args[0]
            if self.star and src(d) == f'{self.star[0]}[0]':
                self.result = ('first',)
            elif self.star and src(d) == f'reduce(operator.mul, {self.star[0]})':
                self.result = ('product',)
            else:
                m = self._dimexpr(d)
                if m is None:
                    self.problems.append(f'unrecognised result dimension `{src(d)}`')
                    return
                self.result = ('dim', m)
            if isinstance(inner, ast.Name):
                defs = [x for x in self.fn.body if isinstance(x, ast.Assign) and src(x.targets[0]) == inner.id]
                if len(defs) == 1:
                    inner = defs[0].value
            self.op_call = inner if isinstance(inner, ast.Call) and src(inner.func) == 'op' else None
            if self.op_call is None:
                self.problems.append(f'wrapped value `{src(inner)[:50]}` is not the call of the dispatched operation')
        elif isinstance(v, ast.Call) and src(v.func) == 'op':
            self.result = ('plain',)
            self.op_call = v
        elif isinstance(v, ast.Call) and src(v.func) == 'tuple' and self.star and isinstance(v.args[0], ast.GeneratorExp) and '.wrap(' in src(v.args[0].elt):
            self.result = ('each',)
            g = v.args[0]
            calls = [c for c in ast.walk(g) if isinstance(c, ast.Call) and src(c.func) == 'op']
            self.op_call = calls[0] if calls else None
            ok = src(g.elt).replace(' ', '') == 'dim.wrap(ret)' and src(g.generators[0].iter).replace(' ', '').startswith(f'zip({self.star[0]},op(')
            if not ok:
                self.problems.append(f'`{src(v)[:70]}` does not pair every result with the dimension of its own function')
        else:
            self.problems.append(f'unrecognised return `{src(v)[:60]}`')

    def unwrapped_ok(self):
        '''operands that went through __unpack must be passed on by their unwrapped names'''
        c = self.op_call
        if c is None:
            return None, 'no op(...) call'
        args = [src(a) for a in c.args] + [f'{k.arg}={src(k.value)}' for k in c.keywords]
        for opnd, argn in zip(self.operands, self.argnames):
            # raw operand passed on?
            for a in c.args:
                t = src(a)
                if t == opnd and opnd != argn:
                    return False, f'passes the wrapped operand `{opnd}` on to the operation'
                if isinstance(a, ast.Starred):
                    base = src(a.value)
                    # *args or *args[k:] covering the operand position
                    if opnd.startswith('args[') and base == 'args':
                        return False, f'`*args` passes the wrapped operand `{opnd}` on: the call is dispatched to this handler again (infinite recursion)'
                    if opnd.startswith('args[') and base.startswith('args[') and base.endswith(':]'):
                        k = const(ast.parse(opnd).body[0].value.slice)
                        lo = const(ast.parse(base).body[0].value.slice.lower)
                        if isinstance(k, int) and isinstance(lo, int) and k >= lo:
                            return False, f'`*{base}` still contains the wrapped operand `{opnd}`'
            for k in c.keywords:
                if src(k.value) == opnd and opnd != argn:
                    return False, f'passes the wrapped operand `{opnd}` on'
            if argn not in [src(a) for a in c.args] + [src(k.value) for k in c.keywords]:
                return False, f'the unwrapped value `{argn}` of operand `{opnd}` is not passed to the operation'
        if self.star:
            dims, vals = self.star
            passed = [src(a.value) if isinstance(a, ast.Starred) else src(a) for a in c.args]
            if vals not in passed:
                return False, f'the unwrapped values `{vals}` are not passed to the operation'
        return True, 'only unwrapped operands are passed on'


def expected_signature(cat):
    res = cat['result']
    if res == 'plain':
        r = ('plain',)
    elif res == 'each':
        r = ('each',)
    elif res == 'product':
        r = ('product',)
    elif res == 'd[0]':
        r = ('first',)
    else:
        table = {'d0': {0: Fraction(1)}, 'd0*d1': {0: Fraction(1), 1: Fraction(1)}, 'd0/d1': {0: Fraction(1), 1: Fraction(-1)}, 'd0/d1**2': {0: Fraction(1), 1: Fraction(-2)},
                 'd0**1/2': {0: Fraction(1, 2)}, 'd0**arg1': {0: ('sym', 'args[1]')}, 'd0**-1': {0: Fraction(-1)}, 'd2': {2: Fraction(1)}}
        r = ('dim', table[res])
    return r


def check_dispatch(model, rep, oracle):
    q = model.cls('SI:Quantity')
    handlers = [Handler(s) for s in q.node.body if isinstance(s, ast.FunctionDef) and any(isinstance(d, ast.Call) and src(d.func) == 'register' for d in s.decorator_list)]
    if len(handlers) < 15:
        raise AnalysisError(f'only {len(handlers)} dispatch handlers found in SI.Quantity')
    rep.unit('dispatch_handlers', len(handlers))
    nreg = 0
    cats = oracle['categories']
    funcs = oracle['functions']
    for h in handlers:
        where = f'{q.module.relpath}:{h.fn.lineno}'
        key = f'SI:Quantity.{h.name}@{h.fn.lineno}' if sum(1 for x in handlers if x.name == h.name) > 1 else f'SI:Quantity.{h.name}'
        if h.problems:
            raise AnalysisError(f'{key}: cannot abstract the handler: {h.problems[0]}')
        ok, det = h.unwrapped_ok()
        rep.ob('R20.6', key, where, bool(ok), det if ok else f'handler {h.name} {det}', statement='unwrapped-operands')
        for fname in h.registered:
            nreg += 1
            cname = funcs.get(fname)
            if cname is None:
                rep.info(f'R20.1 {where}: registration of {fname} on {h.name} is not in the oracle table (new entry, not judged)')
                continue
            cat = cats[cname]
            exp = expected_signature(cat)
            problems = []
            # operands
            if cat['operands'] == 'special':
                # locate: geom == coords, tol and maxdist optional-equal geom
                eqs = [r for r in h.requires if isinstance(r, frozenset)]
                opts = [r for r in h.requires if isinstance(r, tuple) and r[0] == 'optional']
                mism = [r for r in h.requires if isinstance(r, tuple) and r[0] == 'optional-mismatch']
                if mism:
                    problems.append(f'the guard for the optional operand with dimension `{mism[0][1]}` compares {mism[0][2]} instead of `{mism[0][1]}` with the geometry dimension: that operand is accepted with any dimension')
                elif len(eqs) != 1 or len(opts) != 2 or h.result != ('plain',):
                    problems.append('locate must require geom==coords, tol and maxdist of the geometry dimension (or None), and return a plain value')
                else:
                    geom = sorted(eqs[0])[0]
                    if any(o[2] != geom for o in opts) or len({o[1] for o in opts}) != 2:
                        problems.append('tol and maxdist must each be compared with the dimension of the geometry')
            elif cat['operands'] in (['*'], ['*0']):
                if not h.star:
                    problems.append('expected all operands to be unpacked')
                elif cat['operands'] == ['*0'] and h.star_source != 'args[0]':
                    problems.append(f'expected the sequence args[0] to be unpacked, got {h.star_source}')
                elif cat['operands'] == ['*'] and h.star_source != 'args':
                    problems.append(f'expected every argument to be unpacked, got {h.star_source}')
                if cat['require'] == 'all' and 'all' not in h.requires:
                    problems.append('all parts must be required to have one dimension (no `any(dim != dims[0] ...)` guard raising DimensionError)')
                if h.result != exp:
                    problems.append(f'result is {h.result}, expected {exp}')
            else:
                want_ops = cat['operands']
                got_ops = []
                for o in h.operands:
                    if o.startswith('args[') and o.endswith(']'):
                        got_ops.append(const(ast.parse(o).body[0].value.slice))
                    else:
                        got_ops.append(o)
                # named-parameter handlers (interp, sample): map by position in the signature
                pos = [a.arg for a in h.fn.args.args]
                got_idx = [g if isinstance(g, int) else (pos.index(g) - 1 if g in pos else None) for g in got_ops]
                if got_idx != want_ops:
                    problems.append(f'unpacks operands {h.operands}, dimensional analysis needs positions {want_ops}')
                else:
                    req = {frozenset(r) for r in cat['require']}
                    got_req = {r for r in h.requires if isinstance(r, frozenset)}
                    if req - got_req:
                        problems.append('operands must have equal dimensions but no `dimA != dimB: raise DimensionError` guard enforces it')
                    elif got_req - req:
                        problems.append('handler requires equal dimensions although the operation is defined for different ones')
                    # result: expected exponent map is indexed by position in `operands`
                    if exp[0] == 'dim' and h.result and h.result[0] == 'dim':
                        e = {}
                        for k, v in exp[1].items():
                            e[k if cname not in ('interp',) else k] = v
                        got = {k: v for k, v in h.result[1].items() if v != 0}
                        if got != {k: v for k, v in e.items()}:
                            problems.append(f'result dimension has exponents {_fmt(got)} over the operands, dimensional analysis gives {_fmt(e)}')
                    elif h.result != exp:
                        problems.append(f'result is {h.result}, expected {exp}')
            okk = not problems
            rep.ob('R20.1', key, where, okk, f'{fname} -> {h.name}: {cat["meaning"]}' if okk else
                   f'{fname} is registered on {h.name}, but {problems[0]} ({cat["meaning"]})', statement=f'register {fname}')
    rep.unit('registrations', nreg)
    if nreg < 80:
        raise AnalysisError(f'only {nreg} registrations found, expected at least 80')
    return handlers


def _fmt(m):
    return '{' + ', '.join(f'd{k}^{v[1] if isinstance(v, tuple) else v}' for k, v in sorted(m.items())) + '}'


def check_operators(model, rep, oracle):
    q = model.cls('SI:Quantity')
    ops = oracle['operators']
    seen = 0
    for s in q.node.body:
        if isinstance(s, ast.Assign) and isinstance(s.value, ast.Call) and src(s.value.func) == 'partialmethod' and isinstance(s.targets[0], ast.Name):
            name = s.targets[0].id
            args = s.value.args
            entry = args[-1]
            opname = None
            if isinstance(entry, ast.Subscript) and src(entry.value) == '__DISPATCH_TABLE' and src(entry.slice).startswith('operator.'):
                opname = src(entry.slice)[len('operator.'):]
            reverse = any(src(a) == '_reverse' for a in args[:-1])
            guarded = any(src(a) == '_try_or_noimp' for a in args[:-1])
            where = f'{q.module.relpath}:{s.lineno}'
            key = f'SI:Quantity.{name}'
            exp = ops.get(name)
            if exp is None:
                rep.info(f'R20.3 {where}: operator binding {name} not in the oracle table')
                continue
            seen += 1
            ok = opname == exp[0] and reverse == exp[1]
            if ok:
                det = f'{name} binds operator.{opname}' + (' reflected through _reverse' if reverse else '')
            elif opname != exp[0]:
                det = f'{name} is bound to the table entry of operator.{opname}, not operator.{exp[0]}'
            else:
                det = f'{name} must {"" if exp[1] else "not "}swap its operands through _reverse: for a non-commutative operation the reflected dunder computes other OP self'
            rep.ob('R20.3', key, where, ok, det, statement=f'{name} = operator.{exp[0]}' + (' reversed' if exp[1] else ''))
            # binary arithmetic and comparisons must turn DimensionError into NotImplemented (so that python falls back / raises TypeError)
    if seen < 24:
        raise AnalysisError(f'only {seen} operator bindings recognised')
    # helper definitions
    rv = model.func('SI:_reverse')
    rets = find_stmts(rv.body, lambda s: isinstance(s, ast.Return))
    pos, _, _, _ = params(rv.node)
    ok = len(rets) == 1 and len(pos) == 3 and src(rets[0].value).replace(' ', '') == f'{pos[1]}({pos[2]},{pos[0]})'
    rep.ob('R20.3', rv.key, rv.where(), ok, '_reverse(self, func, arg) calls func(arg, self)' if ok else '_reverse no longer swaps its operands', statement='_reverse')
    # __truediv__: string shortcut goes through the dimension-checking constructor
    td = q.members['__truediv__'].func
    ifs = [s for s in td.body if isinstance(s, ast.If)]
    ok = False
    det = 'the `q / "unit"` shortcut was not found'
    if ifs and 'str' in src(ifs[0].test):
        r = [b for b in ifs[0].body if isinstance(b, ast.Return)]
        if r:
            calls = [src(c.func) for c in calls_in(r[0])]
            ok = any(c in ('self.__class__', 'type(self)') for c in calls) and 'parse' not in calls
            det = 'the `q / "unit"` shortcut converts the string through the quantity\'s own dimension-checking constructor' if ok else \
                f'`{stmt_text(r[0])}` converts the unit string without the dimension check of type(self)(...): dividing by a unit of another dimension returns a bare number'
    rep.ob('R20.3', td.key, td.where(), ok, det, statement='truediv-string')
    last = td.body[-1]
    ok = isinstance(last, ast.Return) and src(last.value) in ('self.__truediv(other)',)
    rep.ob('R20.3', td.key, td.where(last), ok, 'other divisors go through the operator.truediv table entry' if ok else '__truediv__ no longer falls back to the truediv table entry', statement='truediv-fallback')
    # third-party dispatch hooks all consult the same table and return NotImplemented when absent
    for name in ('__array_ufunc__', '__array_function__', '__nutils_dispatch__'):
        fn = q.members[name].func
        txt = src(fn.node)
        ok = '__DISPATCH_TABLE.get(' in txt and 'return NotImplemented' in txt
        rep.ob('R20.3', fn.key, fn.where(), ok, f'{name} looks the operation up in the dispatch table' if ok else f'{name} no longer consults the dispatch table', statement=f'{name}-lookup')
    uf = q.members['__array_ufunc__'].func
    # on every path that hands the call on to a table entry the method is known to be '__call__' (whichever way the guard is written)
    from sa.guards import path_returns
    rets_ = path_returns(uf.node)
    handed = [(f_, r_) for f_, r_ in rets_ if src(r_) != 'NotImplemented']
    ok = bool(handed) and all(f_.get("method != '__call__'") is False or f_.get("method == '__call__'") is True for f_, r_ in handed)
    rep.ob('R20.3', uf.key, uf.where(), ok, 'ufunc methods other than __call__ (reduce, accumulate, ...) are declined' if ok else 'ufunc reduce/accumulate are no longer declined', statement='ufunc-call-only')
    # __format__ and __iter__ and __hash__
    it = q.members['__iter__'].func
    ok = src(it.body[-1]).replace(' ', '') == 'returnmap(type(self).wrap,self.__value)'
    rep.ob('R20.3', it.key, it.where(), ok, 'iteration yields quantities of the same dimension' if ok else 'iteration does not re-wrap the items with type(self)', statement='iter-wrap')
    fm = q.members['__format__'].func
    ok = 'self / type(self)(format_spec[n:])' in src(fm.node)
    rep.ob('R20.3', fm.key, fm.where(), ok, 'formatting divides by the unit parsed with the quantity\'s own (dimension-checking) type' if ok else
           '__format__ no longer divides by type(self)(unit): formatting with a unit of another dimension is not rejected', statement='format-checked')


def check_algebra(model, rep):
    d = model.cls('SI:Dimension')
    for name, op in (('__mul__', 'operator.add'), ('__truediv__', 'operator.sub')):
        fn = d.members[name].func
        rets = find_stmts(fn.body, lambda s: isinstance(s, ast.Return))
        last = rets[-1].value if rets else None
        ok = isinstance(last, ast.Call) and src(last.func) == 'cls._binop' and [src(a) for a in last.args] == [op, 'cls.__powers', 'other.__powers']
        rep.ob('R20.4', fn.key, fn.where(), ok, f'Dimension.{name} combines exponents with {op}' if ok else
               f'Dimension.{name} returns `{src(last) if last is not None else "?"}` instead of cls._binop({op}, cls.__powers, other.__powers)', statement=f'{name}: {op}')
        ok = any(isinstance(s, ast.If) and 'isinstance(other, Dimension)' in src(s.test) and any('NotImplemented' in src(b) for b in s.body) for s in fn.body)
        rep.ob('R20.4', fn.key, fn.where(), ok, 'non-dimension operands are declined', statement=f'{name}: NotImplemented')
    bo = d.members['_binop'].func
    r = find_stmts(bo.body, lambda s: isinstance(s, ast.Return))[0].value
    ok = src(r).replace(' ', '') == 'Dimension.from_powers({base:op(a.get(base,0),b.get(base,0))forbaseinset(a)|set(b)})'
    rep.ob('R20.4', bo.key, bo.where(), ok, '_binop applies the operation to the exponents over the union of bases (absent = 0)' if ok else
           '_binop no longer combines exponents over the union of the bases with 0 for absent ones', statement='_binop')
    pw = d.members['__pow__'].func
    r = find_stmts(pw.body, lambda s: isinstance(s, ast.Return))[-1].value
    ok = src(r).replace(' ', '') == 'Dimension.from_powers({base:power*fractions.Fraction(other)forbase,powerincls.__powers.items()})'
    rep.ob('R20.4', pw.key, pw.where(), ok, 'powers multiply every exponent by the rational exponent' if ok else 'Dimension.__pow__ does not scale every exponent by Fraction(other)', statement='__pow__')
    fp = d.members['from_powers'].func
    txt = src(fp.node)
    drop = any(isinstance(n, ast.DictComp) and any(src(i) == 'power' for g in n.generators for i in g.ifs) and src(n.generators[0].iter) == 'arg.items()' for n in ast.walk(fp.node))
    rep.ob('R20.4', fp.key, fp.where(), drop, 'zero exponents are dropped before the canonical name is built (L/L is dimensionless)' if drop else
           'from_powers keeps zero exponents: L/L and the dimensionless type become different classes', statement='drop-zero-powers')
    ok = 'sorted(powers.items()' in txt and 'mcls.__cache[name]' in txt and txt.count('mcls.__cache[name]') >= 2
    rep.ob('R20.4', fp.key, fp.where(), ok, 'one class per canonical (sorted) name, cached' if ok else 'dimension classes are no longer interned by a canonical sorted name', statement='canonical-name')
    ok = 'isinstance(power, fractions.Fraction)' in txt and 'isinstance(base, str)' in txt
    rep.ob('R20.4', fp.key, fp.where(), ok, 'exponents must be Fractions, bases strings', statement='from_powers-types')
    ca = d.members['__call__'].func
    # the value parsed from the string (whatever it is called) is returned only after its type was compared with the expected type
    parsed = [s for s in find_stmts(ca.body, lambda s: isinstance(s, ast.Return) and s.value is not None) if src(deep_resolved(ca.node, s.value)).startswith('parse(')]
    if len(parsed) != 1:
        raise AnalysisError('Dimension.__call__: the return of the parsed value was not found')
    qn = src(parsed[0].value)
    facts = facts_at(ca.node, lambda s: s is parsed[0])
    expected = ('float if not cls.__powers else cls', 'cls if cls.__powers else float')
    cmp_ = [n for n, v in facts.facts.values() if isinstance(n, ast.Compare) and len(n.ops) == 1 and src(n.left) == f'type({qn})'
            and ((isinstance(n.ops[0], (ast.NotEq, ast.IsNot)) and not v) or (isinstance(n.ops[0], (ast.Eq, ast.Is)) and v))]
    ok = bool(cmp_)
    expect_ok = any(src(deep_resolved(ca.node, n.comparators[0])) in expected for n in cmp_)
    raises = [s for s in find_stmts(ca.body, lambda s: isinstance(s, ast.Raise)) if 'DimensionError' in src(s)]
    rep.ob('R20.4', ca.key, ca.where(), ok and bool(raises), 'constructing a quantity from a string checks the parsed dimension and raises DimensionError' if ok and raises else
           'Dimension.__call__ returns the parsed quantity without comparing its type with the expected dimension', statement='call-checks-dimension')
    # every value the constructor hands out was tied to THIS dimension: the pass-through of an existing quantity too
    for r_ in find_stmts(ca.body, lambda s: isinstance(s, ast.Return) and s.value is not None and s is not parsed[0]):
        fr = facts_at(ca.node, lambda s, r_=r_: s is r_)
        rv = src(r_.value)
        tied = any(v and isinstance(n, ast.Call) and src(n.func) == 'isinstance' and len(n.args) == 2 and src(n.args[0]) == rv and src(n.args[1]) == 'cls' for n, v in fr.facts.values()) or \
            any(isinstance(n, ast.Compare) and src(n.left) == f'type({rv})' and src(deep_resolved(ca.node, n.comparators[0])) in ('cls',) + expected and ((isinstance(n.ops[0], (ast.Eq, ast.Is)) and v) or (isinstance(n.ops[0], (ast.NotEq, ast.IsNot)) and not v)) for n, v in fr.facts.values())
        rep.ob('R20.4', ca.key, ca.where(r_), tied, f'`return {rv}` is reached only for a value of this dimension (isinstance(value, cls))' if tied else
               f'`return {rv}` hands out a value that was never compared with this dimension: SI.Length(SI.Time(...)) returns the time quantity, so an assignment between different dimensions goes through the constructor unnoticed',
               statement=f'call-passthrough {rv}')
    ok = expect_ok
    rep.ob('R20.4', ca.key, ca.where(), ok, 'the dimensionless type expects a plain float' if ok else 'the expected type of Dimension.__call__ changed', statement='call-expect')
    wr = d.members['wrap'].func
    ok = any(isinstance(s, ast.If) and src(s.test) == 'not cls.__powers' and src(s.body[0]) == 'return value' for s in wr.body)
    rep.ob('R20.4', wr.key, wr.where(), ok, 'wrapping in the dimensionless type returns the bare value' if ok else 'wrap no longer unwraps dimensionless results', statement='wrap-dimensionless')
    # Quantity.__unpack: non-quantities are dimensionless
    q = model.cls('SI:Quantity')
    up = q.members['__unpack'].func
    txt = src(up.node)
    ok = 'yield (type(arg), arg.__value)' in txt and 'yield (Dimensionless, arg)' in txt and 'isinstance(arg, Quantity)' in txt
    rep.ob('R20.4', up.key, up.where(), ok, 'plain operands count as dimensionless, quantities give (type, value)' if ok else '__unpack changed', statement='unpack')


def _check_unit_parse(model, rep, up):
    """R20.9 by interpretation (sa.miniexec, nothing of nutils runs): unit._Units.parse is executed on a small unit table with exact rational numbers and must give,
    for each probe string, the value and the exponents that the documented reading gives: a leading letter is a prefix only when the full name is no unit; the exponent
    after a name and the sign of a preceding '/' apply to prefix and unit alike; unknown names raise ValueError."""
    import re as _re
    from fractions import Fraction as F
    from sa.miniexec import MiniExec, Sym, Returned, RaisedIn, AssertionFailed
    from sa.algebra import Unsupported

    class Q:
        def __init__(self, value, powers=()):
            self.value, self.powers = F(value), {k: v for k, v in dict(powers).items() if v}

        def __mul__(self, o):
            pw = dict(self.powers)
            for k, v in o.powers.items():
                pw[k] = pw.get(k, 0) + v
            return Q(self.value * o.value, pw)
        __imul__ = __mul__

        def __pow__(self, n):
            return Q(self.value ** n, {k: v * n for k, v in self.powers.items()})

        def key(self):
            return (self.value, tuple(sorted(self.powers.items())))
    words = _re.compile('([a-zA-Zα-ωΑ-Ω]+)')
    quantities = {'m': Q(1, {'m': 1}), 's': Q(1, {'s': 1}), 'N': Q(1, {'N': 1}), 'min': Q(60, {'s': 1}), 'in': Q(F(254, 10000), {'m': 1}), 'Pa': Q(1, {'N': 1, 'm': -2}), 'a': Q(100, {'m': 2})}
    prefix = {'k': F(1000), 'm': F(1, 1000), 'M': F(10 ** 6), 'P': F(10 ** 15), 'c': F(1, 100)}
    probes = {
        '2km': Q(2000, {'m': 1}), '1m/ms': Q(1000, {'m': 1, 's': -1}), '5N/mm2': Q(5 * 10 ** 6, {'N': 1, 'm': -2}), '3min': Q(180, {'s': 1}), '2Pa': Q(2, {'N': 1, 'm': -2}),
        '1MPa*cm2': Q(100, {'N': 1}), '4/s2': Q(4, {'s': -2}), '7': Q(7), '1kN*m/ks': Q(1, {'N': 1, 'm': 1, 's': -1}), '2kN/mm': Q(2 * 10 ** 6, {'N': 1, 'm': -1}), '1xy': 'ValueError', '1kq': 'ValueError', '1qm': 'ValueError',
    }
    bad = None
    try:
        for text, want in probes.items():
            me = MiniExec({'self': Sym(_words=Sym(split=words.split, findall=words.findall), _prefix=prefix, quantities=quantities), '_Quantity': Q, up.node.args.args[1].arg: text, 'int': int, 'float': float})
            try:
                me.run(up.node.body)
                got = None
            except Returned as r:
                got = r.value.key() if isinstance(r.value, Q) else r.value
            except RaisedIn as r:
                got = r.name
            exp = want.key() if isinstance(want, Q) else want
            if got != exp:
                bad = (text, got, exp)
                break
    except (Unsupported, AssertionFailed, TypeError, ValueError, KeyError, IndexError, AttributeError, ZeroDivisionError) as e:
        raise AnalysisError(f'unit._Units.parse uses a construct the interpreter does not know: {type(e).__name__}: {e}')
    rep.ob('R20.9', up.key, up.where(), bad is None, f'all {len(probes)} probe strings (prefixes in numerators and denominators, full names that start with a prefix letter, unknown names) are read as documented' if bad is None else
           f'unit._Units.parse reads {bad[0]!r} as {bad[1]} where the documented reading is {bad[2]} (value, exponents): prefix, exponent or sign handling changed', statement='unit-parse-probes')


def check_parsing(model, rep, oracle):
    m = model.module('SI')
    sf = model.func('SI:_split_factors')
    fors = find_stmts(sf.body, lambda s: isinstance(s, ast.For))
    ok = False
    det = '_split_factors: expected two nested loops'
    if len(fors) == 2:
        outer, inner = (fors[0], fors[1]) if fors[1] in find_stmts(fors[0].body, lambda s: isinstance(s, ast.For)) else (None, None)
        if outer is not None:
            o = const(outer.iter.args[0]) if isinstance(outer.iter, ast.Call) and method_name(outer.iter) == 'split' and outer.iter.args else None
            i = const(inner.iter.args[0]) if isinstance(inner.iter, ast.Call) and method_name(inner.iter) == 'split' and inner.iter.args else None
            reset_in_outer = any(isinstance(s, ast.Assign) and src(s.targets[0]) == 'isnumer' and const(s.value) is True for s in outer.body)
            cleared_in_inner = any(isinstance(s, ast.Assign) and src(s.targets[0]) == 'isnumer' and const(s.value) is False for s in inner.body)
            ok = o == '*' and i == '/' and reset_in_outer and cleared_in_inner
            det = "unit strings split on '*' first; within a term the first factor is a numerator and every factor after a '/' a denominator (a/b*c = a*c/b)" if ok else \
                (f"_split_factors splits on {o!r} outside and {i!r} inside" + ('' if reset_in_outer else ', isnumer is not reset per term') +
                 ": a factor following a '*' after a '/' is read as a denominator (a/b*c becomes a/(b*c))")
    rep.ob('R20.8', sf.key, sf.where(), ok, det, statement='split-precedence')
    txt = src(sf.node)
    ok = "factor.rstrip('0123456789_')" in txt and ".partition('_')" in txt and 'fractions.Fraction(int(numer or 1), int(denom or 1))' in txt
    rep.ob('R20.8', sf.key, sf.where(), ok, 'exponents are read as numer_denom fractions (default 1)' if ok else 'exponent parsing of _split_factors changed', statement='split-exponent')
    pa = model.func('SI:parse')
    txt = src(pa.node)
    ok = 'q = q * v if isnumer else q / v' in txt and 'getattr(units, u) ** power' in txt
    rep.ob('R20.8', pa.key, pa.where(), ok, 'parse multiplies numerator factors and divides by denominator factors, units raised to their power' if ok else
           'parse no longer combines factors as q*v / q/v with getattr(units, u)**power', statement='parse-combine')
    hs = [h for t in find_stmts(pa.body, lambda s: isinstance(s, ast.Try)) for h in t.handlers]
    ok = len(hs) == 1 and any(isinstance(b, ast.Raise) and 'ValueError' in src(b) for b in hs[0].body)
    rep.ob('R20.8', pa.key, pa.where(), ok, 'unknown units are rejected with ValueError', statement='parse-unknown')
    # who may call parse(): only the checking constructor and unit definition
    allowed = {'SI:Dimension.__call__', 'SI:Units.__setattr__'}
    for f in model.functions.values():
        if f.module is not m:
            continue
        for c in calls_in(f.node, nested=False):
            if isinstance(c.func, ast.Name) and c.func.id == 'parse':
                ok = f.key in allowed
                rep.ob('R20.7', f.key, f.where(c), ok, 'parse() (unchecked) is called from the dimension-checking constructor / unit definition' if ok else
                       f'`{src(c)}` uses the unchecked parser directly: the dimension of the string is not compared with the expected one', statement='calls parse()')
            if isinstance(c.func, ast.Attribute) and c.func.attr == 'unwrap' and f.cls is not None and f.cls.name == 'Quantity':
                rep.ob('R20.7', f.key, f.where(c), False, f'`{src(c)}` strips the dimension inside an operator of Quantity', statement='calls unwrap()')
    # Units.__setattr__: prefix expansion with collision check
    u = model.cls('SI:Units')
    sa_ = u.members['__setattr__'].func
    txt = src(sa_.node)
    # a guard that raises when the prefixed names intersect the existing ones (whatever the intermediate sets are called), one that raises on redefinition
    SC = '{P_ + name: value * S_ for P_, S_ in self.__prefix.items()}'
    guards = [s for s in sa_.body if isinstance(s, ast.If) and any(isinstance(b, ast.Raise) for b in s.body)]
    coll = any(pmatch(f'set({SC}) & set(self)', deep_resolved(sa_.node, g.test)) is not None or pmatch(f'set(self) & set({SC})', deep_resolved(sa_.node, g.test)) is not None for g in guards)
    upd = any(src(c.func) == 'self.update' and len(c.args) == 1 and pmatch(SC, deep_resolved(sa_.node, c.args[0])) is not None for c in calls_in(sa_.node))
    ok = coll and upd and any(src(g.test) == 'name in self' for g in guards)
    rep.ob('R20.8', sa_.key, sa_.where(), ok, 'defining a unit rejects redefinition and any collision of its prefixed names' if ok else
           'Units.__setattr__ no longer rejects redefinitions / prefix collisions: an ambiguous name silently changes meaning', statement='unit-collisions')
    # prefix tables
    want = oracle['si_prefixes']
    for key, cls_key, attr in (('SI:Units', 'SI:Units', '__prefix'), ('unit:_Units', 'unit:_Units', '_prefix')):
        c = model.cls(cls_key)
        mem = c.members.get(attr)
        if mem is None:
            raise AnalysisError(f'{cls_key}.{attr} not found')
        call = mem.value
        got = {k.arg: const(k.value) for k in call.keywords} if isinstance(call, ast.Call) and src(call.func) == 'dict' else None
        ok = got is not None and got == want
        diff = '' if ok or got is None else str({k: (got.get(k), want.get(k)) for k in set(got) | set(want) if got.get(k) != want.get(k)})
        rep.ob('R20.5', f'{cls_key}.{attr}', f'{c.module.relpath}:{mem.node.lineno}', ok, f'{len(want)} SI prefixes with their powers of ten' if ok else
               f'prefix table differs from the SI brochure: {diff}', statement='si-prefix-table')
    # unit.py name resolution: full name first, prefix only if the full name is unknown
    up = model.func('unit:_Units.parse')
    _check_unit_parse(model, rep, up)
    b = model.cls('unit:_Bound').members['__stringly_loads__'].func
    ok = any(isinstance(s, ast.If) and src(s.test) == 'q.powers != powers' and any(isinstance(x, ast.Raise) for x in s.body) for s in b.body)
    rep.ob('R20.9', b.key, b.where(), ok, 'a value of another dimension than the bound unit is rejected' if ok else 'unit._Bound no longer compares the powers of the parsed value with those of its unit', statement='bound-dimension-check')
    qm = model.cls('unit:_Quantity').members['__imul__'].func
    txt = src(qm.node)
    ok = 'self.value *= other.value' in txt and 'value += self.powers.pop(key, 0)' in txt and 'if value:' in txt
    rep.ob('R20.9', qm.key, qm.where(), ok, 'products add exponents and drop zero ones', statement='unit-imul')
    qp = model.cls('unit:_Quantity').members['__pow__'].func
    ok = '{k: v * n for k, v in self.powers.items()}' in src(qp.node) and 'self.value ** n' in src(qp.node)
    rep.ob('R20.9', qp.key, qp.where(), ok, 'powers scale exponents and the value', statement='unit-pow')


def run(model, rep, tier):
    oracle = load_oracle()
    rep.explanation = (
        'R20.1/R20.2: each of the handlers in SI.Quantity\'s dispatch table is abstracted from its AST to (operands unpacked, equalities enforced by DimensionError guards, exponent vector of the '
        'result dimension over the operands, or plain) and every @register(f) decoration is compared with oracles/dimension_rules.json, which classifies f by dimensional analysis '
        '(add-like, mul-like, div-like incl. grad/div/curl, laplace, sqrt, pow-like, comparisons, shape-only, stack-like, setitem, interp, curvature ...). R20.6: handlers pass only unwrapped operands '
        'on (otherwise the call re-dispatches). R20.3: every dunder binds the table entry of the operator of the same name, reflected ones through _reverse; string division and formatting go through the '
        'dimension-checking constructor. R20.4: Dimension algebra adds/subtracts/scales exponents, drops zeros, interns by canonical name, __call__ checks the parsed type. R20.5 prefix tables equal the SI '
        'table. R20.7 the unchecked parse() is reachable only from the checking constructor and unit definition. R20.8 unit-string precedence and collision checks; R20.9 unit.py name resolution '
        '(full name before prefix) and its dimension check. Decides routing and the dimension algebra; numerical conversion factors and the format round trip are NOT decided.')
    rep.rule('R20.1', 'each dispatch registration matches the transfer signature dictated by dimensional analysis (oracle table)')
    rep.rule('R20.3', 'operators bind the same-named table entry; reflected ones swap operands; string shortcuts are dimension-checked')
    rep.rule('R20.4', 'Dimension algebra: exponents add/subtract/scale, zero dropped, canonical interning, checked construction')
    rep.rule('R20.5', 'prefix tables equal the SI prefixes')
    rep.rule('R20.6', 'handlers pass only unwrapped operands to the operation')
    rep.rule('R20.7', 'who-may-call the unchecked parser / unwrap')
    rep.rule('R20.8', 'unit-string grammar: precedence, exponents, collisions')
    rep.rule('R20.9', 'unit.py: full name before prefix, dimension check of bound units')
    rep.trusted_base.append('oracles/dimension_rules.json (dimensional analysis, SI brochure)')
    check_dispatch(model, rep, oracle)
    check_operators(model, rep, oracle)
    check_algebra(model, rep)
    check_parsing(model, rep, oracle)
    from rules import round5 as _r5
    rep.rule('R20.11', 'new base symbols are checked with the tokenizer of dimension strings; an exponent is used only after its sign is settled (unit._Units.parse)')
    _r5.check_dimension_create_guard(model, rep, 'R20.11')
    _r5.check_sign_before_use(model, rep, 'R20.11', ('unit:_Units.parse',))
    rep.rule('R20.10', 'every name loaded in SI.py and unit.py resolves (symtable)')
    from rules import names as _names
    _names.check(model, rep, 'R20.10', ('SI', 'unit'), 60)
    rep.require('R20.1', 80)
    rep.require('R20.3', 30)
    rep.require('R20.4', 12)
