'''C13 Argument manipulation commutes with evaluation.

Decided: the specification handling - every name used in the argument-manipulation mechanisms
resolves (R13.1); all documented spellings are accepted and every path that yields a replacement
pair has verified key, shape and dtype with ValueError guards (R13.2); run-time ingestion and
evaluable substitution keep their shape/dtype comparisons (R13.3); the raw specification is consumed
only through the one parser (R13.4); the argument tables announced by the wrappers are built from the
parsed pairs (R13.5).  Not decided: that replace/linearize/factor commute with evaluation numerically.
'''

import ast

from sa import AnalysisError, scopes
from sa.pattern import pmatch, pfind
from sa.astutil import dotted, src, stmt_text, params, find_stmts, calls_in, method_name, walk_no_nested, const, deep_resolved
from sa.guards import paths_to, enclosing_conditions, decompose

MECHANISMS = {
    'function': ['_argument_to_array', '_Replace', 'replace_arguments', 'linearize', 'derivative', '_Derivative', 'arguments_for',
                 '_join_arguments', 'field', 'dotarg', '_Factor', 'factor', 'Argument'],
    'evaluable': ['replace_arguments', 'factor', 'Monomial', 'zero_all_arguments', 'Argument', '_argument_degree', 'argument_degree'],
}


def _in_mechanism(scope, names):
    head = scope.split('.')[0]
    return head in names


def check_names(model, rep):
    n = 0
    for modname, names in MECHANISMS.items():
        m = model.module(modname)
        present = [x for x in names if x in m.functions or x in m.classes]
        missing = [x for x in names if x not in present]
        if len(missing) > 3:
            raise AnalysisError(f'{modname}: anchored mechanisms {missing} not found')
        unres = [u for u in scopes.unresolved(m) if _in_mechanism(u.scope, names)]
        bykey = {}
        for u in unres:
            bykey.setdefault(u.scope, []).append(u)
        for x in present:
            # one obligation per function / method of the mechanism
            funcs = [f for f in model.functions.values() if f.module is m and f.qualname.split('.')[0] == x]
            for f in funcs:
                bad = [u for u in unres if u.scope == f.qualname or u.scope.startswith(f.qualname + '.')]
                bad_real = [u for u in bad if not u.in_error_operand]
                n += 1
                if bad_real:
                    for u in bad_real:
                        rep.ob('R13.1', f.key, f'{m.relpath}:{u.lineno}', False,
                               f'name `{u.name}` is bound in no enclosing scope: NameError on this path', statement=f'unresolved {u.name}')
                else:
                    rep.ob('R13.1', f.key, f.where(), True, 'every name loaded on a non-error path resolves (symtable)', statement='names-resolve')
                for u in bad:
                    if u.in_error_operand:
                        rep.info(f'R13.1 {m.relpath}:{u.lineno} {f.key}: `{u.name}` unresolved inside an error message only (still rejects, with NameError)')
    if n < 25:
        raise AnalysisError(f'R13.1 covered only {n} functions')


def check_spellings(model, rep):
    f = model.func('function:_argument_to_array')
    pos, _, _, _ = params(f.node)
    if len(pos) != 2:
        raise AnalysisError('_argument_to_array signature changed')
    d, array = pos
    conds = enclosing_conditions(f.node)

    def guarded(call_pred, cond_text):
        for n in ast.walk(f.node):
            if isinstance(n, ast.Call) and call_pred(n):
                if (cond_text, True) in conds.get(id(n), ()):
                    return n
        return None
    # iteration spellings
    n = guarded(lambda c: src(c.func) == f'{d}.split' and c.args and const(c.args[0]) == ',', f'isinstance({d}, str)')
    rep.ob('R13.2', f.key, f.where(n), n is not None, "string specifications are split on ','" if n is not None else
           f"no `{d}.split(',')` under isinstance({d}, str): the 'u:v,p:q' spelling is not handled", statement='spelling: string')
    n = guarded(lambda c: src(c.func) == f'{d}.items' and not c.args, f'isinstance({d}, dict)')
    rep.ob('R13.2', f.key, f.where(n), n is not None, 'dict specifications iterate items()' if n is not None else
           f'no `{d}.items()` under isinstance({d}, dict): the dict spelling would iterate keys only', statement='spelling: dict')
    loops = find_stmts(f.body, lambda s: isinstance(s, ast.For))
    if len(loops) != 1:
        raise AnalysisError('_argument_to_array: expected exactly one loop over the specification')
    loop = loops[0]
    item = src(loop.target)
    # the fall-through iterable is the specification itself
    it = loop.iter
    while isinstance(it, ast.IfExp):
        it = it.orelse
    ok = src(it) == d
    rep.ob('R13.2', f.key, f.where(loop), ok, 'other iterables are iterated as they are' if ok else f'the fall-through iterable is `{src(it)}` instead of `{d}`', statement='spelling: sequence')
    n = None
    for c in ast.walk(loop):
        if isinstance(c, ast.Call) and src(c.func) == f'{item}.split' and c.args and const(c.args[0]) == ':' and (f'isinstance({item}, str)', True) in conds.get(id(c), ()):
            n = c
    ok = n is not None and len(n.args) == 2 and const(n.args[1]) == 1
    if n is None:
        # item.partition(':') splits at the first colon as well: (old, separator, new) unpacked into three targets
        for st_ in ast.walk(loop):
            if isinstance(st_, ast.Assign) and isinstance(st_.value, ast.Call) and src(st_.value.func) == f'{item}.partition' and len(st_.value.args) == 1 and const(st_.value.args[0]) == ':' \
                    and (f'isinstance({item}, str)', True) in conds.get(id(st_.value), ()) and len(st_.targets) == 1 and isinstance(st_.targets[0], ast.Tuple) and len(st_.targets[0].elts) == 3:
                n, ok = st_.value, True
    rep.ob('R13.2', f.key, f.where(n) if n is not None else f.where(loop), ok, "string items are split on the first ':'" if ok else
           f"string items are not split with split(':', 1)" + ('' if n is None else f' (found `{src(n)}`)'), statement='spelling: item string')

    # per-path validation in front of the yield
    def is_yield(s):
        return isinstance(s, ast.Expr) and isinstance(s.value, ast.Yield)

    def extra(s, st):
        from sa.paths import Event
        if isinstance(s, ast.Assign) and len(s.targets) == 1 and isinstance(s.targets[0], ast.Name):
            return (Event('assign', s, s.targets[0].id),)
        return ()
    ps = paths_to(f.node, is_yield, on_extra=extra)
    if len(ps) < 4:
        raise AnalysisError(f'_argument_to_array: only {len(ps)} paths reach the yield')
    ys = find_stmts(f.body, is_yield)
    yv = ys[0].value.value
    if not (isinstance(yv, ast.Tuple) and len(yv.elts) == 2):
        raise AnalysisError('_argument_to_array: the yield is not a pair')
    key, new = src(yv.elts[0]), src(yv.elts[1])
    rep.unit('paths_to_yield', len(ps))
    problems = {}
    for p, idx, facts in ps:
        keystr = facts.get(f'isinstance({key}, str)')
        keyarg = facts.get(f'isinstance({key}, Argument)')
        if keystr is True:
            if facts.get(f'{key} not in {array}.arguments') is not False and facts.get(f'{key} in {array}.arguments') is not True:
                problems.setdefault('key-str-membership', p)
            # arg must be rebuilt as Argument from the array's table
            asg = [e for e in p.events[:idx] if e.kind == 'assign' and e.data == key and isinstance(e.node.value, ast.Call) and method_name(e.node.value) == 'Argument']
            if not asg or f'{array}.arguments[{key}]' not in src(asg[-1].node.value):
                problems.setdefault('key-str-lookup', p)
        elif keystr is False:
            if keyarg is not True:
                problems.setdefault('key-type', p)
            if facts.get(f'{key}.name not in {array}.arguments') is not False and facts.get(f'{key}.name in {array}.arguments') is not True:
                problems.setdefault('key-arg-membership', p)
            sig = [k for k, v in facts.items() if k.startswith(f'{array}.arguments[{key}.name] !=') and v is False] + \
                  [k for k, v in facts.items() if k.startswith(f'{array}.arguments[{key}.name] ==') and v is True]
            if not sig or not all(f'{key}.shape' in s and f'{key}.dtype' in s for s in sig):
                problems.setdefault('key-arg-signature', p)
        else:
            problems.setdefault('key-type-undetermined', p)
        newstr = facts.get(f'isinstance({new}, str)')
        if newstr is True:
            asg = [e for e in p.events[:idx] if e.kind == 'assign' and e.data == new and isinstance(e.node.value, ast.Call) and method_name(e.node.value) == 'Argument']
            if not asg or [src(a) for a in asg[-1].node.value.args[1:]] != [f'{key}.shape', f'{key}.dtype']:
                problems.setdefault('new-str-built-from-key', p)
        else:
            if facts.get(f'{new}.shape != {key}.shape') is not False and facts.get(f'{new}.shape == {key}.shape') is not True:
                problems.setdefault('new-shape-guard', p)
            if facts.get(f'{new}.dtype != {key}.dtype') is not False and facts.get(f'{new}.dtype == {key}.dtype') is not True:
                problems.setdefault('new-dtype-guard', p)
    texts = {
        'key-str-membership': 'a string key is looked up in the array\'s arguments before use',
        'key-str-lookup': 'a string key is turned into Argument(key, *array.arguments[key])',
        'key-type': 'keys that are neither str nor Argument are rejected',
        'key-type-undetermined': 'the key type is determined on every path to the yield',
        'key-arg-membership': 'an Argument key is looked up by name in the array\'s arguments',
        'key-arg-signature': 'an Argument key must agree in shape and dtype with the array\'s argument',
        'new-str-built-from-key': 'a string replacement becomes Argument(new, key.shape, key.dtype)',
        'new-shape-guard': 'a replacement array of another shape is rejected (not broadcast)',
        'new-dtype-guard': 'a replacement array of another dtype is rejected',
    }
    for k, t in texts.items():
        bad = problems.get(k)
        rep.ob('R13.2', f.key, f.where(ys[0]), bad is None, (t + f' on all {len(ps)} paths to `yield`') if bad is None else
               f'NOT on every path: {t} - a path reaches `yield {key}, {new}` without that check', statement=k)
    # the guards raise ValueError
    for s in find_stmts(f.body, lambda s: isinstance(s, ast.Raise)):
        e = s.exc.func if isinstance(s.exc, ast.Call) else s.exc
        ok = e is not None and src(e) == 'ValueError'
        rep.ob('R13.2', f.key, f.where(s), ok, 'rejections raise ValueError' if ok else f'`{stmt_text(s)}` does not raise ValueError', statement='raise: ' + stmt_text(s)[:60])


def check_runtime(model, rep):
    c = model.cls('evaluable:Argument')
    mem = c.members.get('_compile')
    if mem is None:
        raise AnalysisError('evaluable.Argument._compile not found')
    f = mem.func
    text = src(f.node)
    asg = [c_ for c_ in calls_in(f.node) if method_name(c_) == 'assign_to']
    ingest = [a for a in asg if 'get_argument(self.name)' in src(a)]
    ok = any('self.ast_dtype' in src(a) and ("get_attr('asarray')" in src(a) or "get_attr('astype')" in src(a)) for a in ingest)
    rep.ob('R13.3', f.key, f.where(), ok, 'argument values are ingested through a conversion to the declared element kind' if ok else
           'Argument._compile no longer converts the supplied value to the declared element kind', statement='ingest-asarray')
    # R13.6: the conversion must not change the kind of the value silently
    checked = False
    for a in ingest:
        for cc in calls_in(a):
            kw = {k.arg: src(k.value) for k in cc.keywords}
            if "get_attr('astype')" in src(cc.func) and any(f"LiteralStr('{c_}')" in kw.get('casting', '') for c_ in ('no', 'equiv', 'safe', 'same_kind')):
                checked = True
    dtests = [i for i in calls_in(f.node) if method_name(i) == 'if_' and i.args and "get_attr('dtype')" in src(i.args[0])]
    checked = checked or (bool(dtests) and any(method_name(r) == 'raise_' for r in calls_in(f.node)))
    rep.ob('R13.6', f.key, f.where(), checked, 'the emitted conversion is casting-checked (same-kind or stricter), so a value of another kind raises' if checked else
           'the supplied value is converted with an unchecked cast (numpy.asarray(value, dtype=...) or astype without a casting rule): a complex value handed to a real argument loses its imaginary part, '
           'a real handed to an integer argument is truncated and strings are parsed, all silently', statement='dtype-cast-checked')
    ifs = [c_ for c_ in calls_in(f.node) if method_name(c_) == 'if_']
    ok = False
    for i in ifs:
        t = src(i.args[0]) if i.args else ''
        # the test is emitted on the node's own block, not nested under another emitted condition
        if "'!='" in t and "get_attr('shape')" in t and isinstance(i.func, ast.Attribute) and isinstance(i.func.value, ast.Name):
            ok = True
    raises = [c_ for c_ in calls_in(f.node) if method_name(c_) == 'raise_']
    ok = ok and any("Variable('ValueError')" in src(r) for r in raises)
    rep.ob('R13.3', f.key, f.where(), ok, 'the emitted code compares the value\'s shape with the declared shape and raises ValueError' if ok else
           'the emitted shape test (shape != out.shape -> ValueError) is gone: wrong-shaped values would be used as they are', statement='shape-check-emitted')
    g = model.func('evaluable:replace_arguments')
    ifs = find_stmts(g.body, lambda s: isinstance(s, ast.If))
    ok = False
    for i in ifs:
        if 'isinstance(value, Argument)' in src(i.test) and 'value.name in arguments' in src(i.test):
            asserts = [s for s in i.body if isinstance(s, ast.Assert)]
            rets = [s for s in i.body if isinstance(s, ast.Return)]
            sh = any('shape' in src(a.test) for a in asserts)
            dt = any('value.dtype == v.dtype' in src(a.test) or 'v.dtype == value.dtype' in src(a.test) for a in asserts)
            ok = sh and dt and len(rets) == 1 and all(a.lineno < rets[0].lineno for a in asserts)
    rep.ob('R13.3', g.key, g.where(), ok, 'substitution compares shape and dtype of the replacement before returning it' if ok else
           'evaluable.replace_arguments substitutes without the shape and dtype comparisons', statement='substitution-checks')
    ok = 'util.shallow_replace' in g.decorators or 'shallow_replace' in [d.rsplit('.', 1)[-1] for d in g.decorators]
    rep.ob('R13.3', g.key, g.where(), ok, 'substitution is applied to every node by shallow_replace' if ok else 'replace_arguments lost its shallow_replace decorator', statement='shallow_replace')


def check_spec_opacity(model, rep):
    '''The raw specification object may only be handed to _argument_to_array.'''
    m = model.module('function')
    sites = []
    for f in model.functions.values():
        if f.module is not m:
            continue
        for c in calls_in(f.node, nested=False):
            if method_name(c) == '_argument_to_array' and c.args and isinstance(c.args[0], ast.Name):
                sites.append((f, c.args[0].id, c))
    if len(sites) < 2:
        raise AnalysisError('fewer than two call sites of _argument_to_array')
    for f, spec, call in sites:
        if f.key == 'function:_argument_to_array':
            continue
        uses = [n for n in walk_no_nested(f.node) if isinstance(n, ast.Name) and n.id == spec and isinstance(n.ctx, ast.Load)]
        # uses inside comprehension scopes count as well
        uses = [n for n in ast.walk(f.node) if isinstance(n, ast.Name) and n.id == spec and isinstance(n.ctx, ast.Load)]
        allowed = {id(a) for c in calls_in(f.node) if method_name(c) == '_argument_to_array' for a in c.args[:1]}
        bad = [n for n in uses if id(n) not in allowed]
        if bad:
            for n in bad:
                parent = _parent_stmt(f.node, n)
                rep.ob('R13.4', f.key, f.where(n), False,
                       f'the raw specification `{spec}` is inspected directly in `{stmt_text(parent)[:100]}`: its meaning depends on the spelling '
                       f'(substring test for strings, never matching for pair sequences); only the pairs parsed by _argument_to_array may be used',
                       statement=f'raw use of {spec}')
        else:
            rep.ob('R13.4', f.key, f.where(call), True, f'the specification `{spec}` is consumed only through _argument_to_array', statement=f'raw use of {spec}')


def _parent_stmt(fn, node):
    best = fn
    for s in ast.walk(fn):
        if isinstance(s, ast.stmt) and any(n is node for n in ast.walk(s)):
            if not isinstance(s, (ast.FunctionDef, ast.AsyncFunctionDef, ast.ClassDef)) and (best is fn or s.lineno >= best.lineno):
                if not any(isinstance(c, ast.stmt) and any(n is node for n in ast.walk(c)) for c in ast.iter_child_nodes(s) if isinstance(c, ast.stmt)):
                    best = s
    return best


def check_announced(model, rep):
    '''_Replace / _Derivative / _Factor announce argument tables consistent with what lower() substitutes.'''
    c = model.cls('function:_Replace')
    init = c.members['__init__'].func
    lower = c.members['lower'].func
    # lower substitutes exactly self._replacements
    calls = [x for x in calls_in(lower.node) if src(x.func) == 'evaluable.replace_arguments']
    ok = len(calls) == 1 and len(calls[0].args) == 2
    if ok:
        # the substituted table, whatever it is called: every parsed replacement, lowered without point axes, under its own name
        table = calls[0].args[1]
        # between lowering and substitution the table may pass through evaluable.disjoint_loop_ids(target, table) (renames clashing loops, keeps names and values)
        comp = '{N_: V_.lower(args.without_points) for N_, V_ in self._replacements.items()}'

        def leaves(e, depth=0):
            if depth > 6:
                return [e]
            b = pmatch('evaluable.disjoint_loop_ids(A_, T_)', e)
            if b is not None:
                return leaves(b['T_'], depth + 1)
            if isinstance(e, ast.Name):
                vals = [s_.value for s_ in find_stmts(lower.body, lambda s_: isinstance(s_, ast.Assign) and len(s_.targets) == 1 and src(s_.targets[0]) == e.id)]
                # a self-referential rebinding (t = disjoint_loop_ids(arg, t)) refers back to the other bindings of the same name
                out = []
                for v in vals:
                    b = pmatch('evaluable.disjoint_loop_ids(A_, T_)', v)
                    if b is not None and isinstance(b['T_'], ast.Name) and b['T_'].id == e.id:
                        continue
                    out.extend(leaves(v, depth + 1))
                return out or [e]
            return [e]
        found = leaves(table)
        ok = bool(found) and all(pmatch(comp, b) is not None for b in found)
    rep.ob('R13.5', lower.key, lower.where(), ok, 'lower() substitutes exactly the parsed replacements, lowered without point axes' if ok else
           '_Replace.lower does not substitute self._replacements lowered with args.without_points', statement='lower-substitutes')
    # the announced table: unreplaced = arguments of arg minus keys of self._replacements, joined with the replacements' arguments
    joins = [x for x in calls_in(init.node) if method_name(x) == '_join_arguments']
    ok = len(joins) == 1 and 'self._replacements.values()' in src(joins[0]) and '.arguments' in src(joins[0])
    rep.ob('R13.5', init.key, init.where(), ok, 'announced arguments include those of every replacement' if ok else
           '_Replace does not join the arguments of the replacements into its table', statement='announce-replacements')
    comp = [n for n in ast.walk(init.node) if isinstance(n, ast.DictComp) and 'arguments.items()' in src(n)]
    ok = len(comp) == 1 and any(isinstance(i, ast.Compare) and isinstance(i.ops[0], ast.NotIn) and src(i.comparators[0]) == 'self._replacements' for g in comp[0].generators for i in g.ifs)
    rep.ob('R13.5', init.key, init.where(comp[0]) if comp else init.where(), ok, 'unreplaced arguments are those whose name is not a parsed replacement key' if ok else
           'the unreplaced-arguments filter is not `name not in self._replacements`', statement='announce-unreplaced')
    # order of the two steps: what is announced (handed to super().__init__) is join([filtered arguments of arg] + arguments of the
    # replacements) - the filter applies to the operand's own table only; a name re-introduced by a replacement value (swap a<->b,
    # a: 2 a) must stay announced
    sup = [x for x in calls_in(init.node) if src(x.func) == 'super().__init__']
    if len(sup) != 1 or not sup[0].args:
        raise AnalysisError('_Replace.__init__: super().__init__ call not found')

    def resolve(e, before):
        # latest straight-line definition of a local name before line `before`
        if isinstance(e, ast.Name):
            defs = [s for s in find_stmts(init.body, lambda s: isinstance(s, ast.Assign)) if len(s.targets) == 1 and src(s.targets[0]) == e.id and s.lineno < before]
            if defs:
                d = max(defs, key=lambda s: s.lineno)
                return d.value, d.lineno
        return e, before
    top, at = resolve(sup[0].args[-1], sup[0].lineno)
    ok = isinstance(top, ast.Call) and method_name(top) == '_join_arguments' and len(top.args) == 1
    detail = ''
    if ok:
        lst = top.args[0]
        first = None
        if isinstance(lst, ast.BinOp) and isinstance(lst.op, ast.Add) and isinstance(lst.left, ast.List) and len(lst.left.elts) == 1:
            first, at1 = resolve(lst.left.elts[0], at)
            rest = src(lst.right)
            ok = isinstance(first, ast.DictComp) and src(first.generators[0].iter) == 'arg.arguments.items()' and \
                any(isinstance(i, ast.Compare) and isinstance(i.ops[0], ast.NotIn) and src(i.comparators[0]) == 'self._replacements' for i in first.generators[0].ifs) and \
                'self._replacements.values()' in rest and '.arguments' in rest
        else:
            ok = False
    rep.ob('R13.5', init.key, init.where(sup[0]), ok, 'the announced table is join(operand\'s arguments without the replaced names, arguments of the replacement values): names re-introduced by a replacement stay announced' if ok else
           'the table handed to super().__init__ is not join([operand arguments minus replaced names] + replacement arguments): if the replaced names are dropped after joining, an argument that a replacement '
           'value re-introduces (swap a<->b, a: 2 a) disappears from .arguments and later replace/derivative/linearize by name skip it', statement='announce-order')
    # spaces check on replacements
    ok = any(isinstance(s, ast.If) and src(s.test) == 'new.spaces' and any(isinstance(b, ast.Raise) for b in s.body) for s in find_stmts(init.body, lambda s: isinstance(s, ast.If)))
    rep.ob('R13.5', init.key, init.where(), ok, 'replacements bound to a space are rejected' if ok else 'the `if new.spaces: raise` guard is gone', statement='replacement-spaces')

    d = model.func('function:derivative')
    ps = paths_to(d.node, lambda s: isinstance(s, ast.Return))
    var = params(d.node)[0][1]
    problems = set()
    for p, idx, facts in ps:
        if facts.get(f'isinstance({var}, str)') is True:
            if facts.get(f'{var} not in arg.arguments') is not False:
                problems.add('unknown argument name not rejected')
        else:
            if facts.get(f'isinstance({var}, Argument)') is not True:
                problems.add('non-Argument target not rejected')
            if facts.get(f'{var}.name in arg.arguments') is True:
                if not any(k.startswith(f'{var}.shape !=') and v is False for k, v in facts.items()):
                    problems.add('shape of an Argument target not compared')
                if not any(k.startswith(f'{var}.dtype !=') and v is False for k, v in facts.items()):
                    problems.add('dtype of an Argument target not compared')
    rep.ob('R13.5', d.key, d.where(), not problems, f'derivative() validates its target on all {len(ps)} paths' if not problems else
           'derivative(): ' + '; '.join(sorted(problems)), statement='derivative-target')
    for s in find_stmts(d.body, lambda s: isinstance(s, ast.Raise)):
        e = s.exc.func if isinstance(s.exc, ast.Call) else s.exc
        ok = e is not None and src(e) == 'ValueError'
        rep.ob('R13.5', d.key, d.where(s), ok, 'rejection raises ValueError' if ok else f'`{stmt_text(s)[:60]}` is not ValueError', statement='raise: ' + stmt_text(s)[:50])

    a = model.func('function:arguments_for')
    ps = paths_to(a.node, lambda s: isinstance(s, ast.Assign) and isinstance(s.targets[0], ast.Subscript) and src(s.targets[0].value) == 'arguments')
    rs = [s for s in find_stmts(a.body, lambda s: isinstance(s, ast.Raise))]
    conds = enclosing_conditions(a.node)
    have_shape = any(any('shape' in t and '!=' in t and v for t, v in conds.get(id(r), ())) for r in rs)
    have_dtype = any(any('dtype' in t and '!=' in t and v for t, v in conds.get(id(r), ())) for r in rs)
    rep.ob('R13.5', a.key, a.where(), have_shape and have_dtype and len(rs) >= 2, 'conflicting shapes and dtypes of a shared argument name are rejected' if have_shape and have_dtype else
           'arguments_for no longer rejects both conflicting shapes and conflicting dtypes', statement='conflict-guards')
    j = model.func('function:_join_arguments')
    rs = [s for s in find_stmts(j.body, lambda s: isinstance(s, ast.Raise))]
    conds = enclosing_conditions(j.node)
    txt = src(j.node)
    ok = len(rs) >= 1 and ('shape' in txt and 'dtype' in txt)
    rep.ob('R13.5', j.key, j.where(), ok, '_join_arguments rejects conflicting definitions of one name' if ok else '_join_arguments does not compare shape and dtype', statement='join-conflict')


def check_exact_pruning(model, rep):
    """R13.8: factor() drops a monomial coefficient only when it IS zero.  The entries kept from the evaluated coefficient arrays are
    selected with `values.nonzero()` (or an equivalent exact test); a magnitude threshold (abs(values) > eps, isclose, ...) silently
    drops small coefficients, which still matter for large arguments: factor(f) and its derivatives then differ from f."""
    f = model.func('evaluable:factor')
    sels = []
    for n in ast.walk(f.node):
        if isinstance(n, ast.Call) and ((isinstance(n.func, ast.Attribute) and n.func.attr == 'nonzero' and not n.args) or src(n.func) in ('numpy.nonzero', 'numpy.flatnonzero', 'numpy.where', 'numpy.argwhere')):
            sels.append((n, n.func.value if isinstance(n.func, ast.Attribute) and n.func.attr == 'nonzero' and not n.args else (n.args[0] if n.args else None)))
    if not sels:
        raise AnalysisError('factor(): the selection of the non-zero coefficients was not found')
    for call, what in sels:
        w = deep_resolved(f.node, what) if what is not None else None
        t = src(w) if w is not None else '?'
        exact = t in ('values', 'values != 0', '0 != values', 'values != 0.0', 'values.astype(bool)')
        thresholds = [c_ for c_ in ast.walk(w) if isinstance(c_, ast.Constant) and isinstance(c_.value, float) and c_.value != 0] if w is not None else []
        approx = [c_ for c_ in ast.walk(w) if isinstance(c_, ast.Call) and src(c_.func) in ('numpy.isclose', 'numpy.allclose', 'math.isclose')] if w is not None else []
        ok = exact and not thresholds and not approx
        rep.ob('R13.8', f.key, f.where(call), ok, 'coefficients are pruned where they are exactly zero' if ok else
               f'`{src(call)[:70]}` keeps the coefficients selected by `{t[:60]}`' + (f' (threshold {thresholds[0].value})' if thresholds else '') +
               ': a coefficient that is small but not zero is dropped, so the factored polynomial and its derivatives no longer equal the function for large arguments', statement='exact-pruning')
    tol = [c_ for c_ in ast.walk(f.node) if isinstance(c_, ast.Compare) and any(isinstance(x, ast.Constant) and isinstance(x.value, float) and 0 < abs(x.value) < 1e-3 for x in ast.walk(c_))]
    rep.ob('R13.8', f.key, f.where(tol[0]) if tol else f.where(), not tol, 'no magnitude tolerance appears in factor()' if not tol else
           f'`{src(tol[0])[:70]}` compares against a small tolerance inside factor(): the decomposition into monomials is exact algebra', statement='no-tolerance')


def _disjoint_loop_ids_by_interpretation(h):
    """disjoint_loop_ids(target, values) is interpreted (sa.miniexec) on small loop-id sets, including ids of the form the function itself generates: the mapping
    handed to _replace_loop_ids renames exactly the ids common to target and values, to pairwise different ids that occur in neither; without a clash the values are returned."""
    import itertools
    from sa.miniexec import MiniExec, Sym, Returned, RaisedIn, AssertionFailed
    from sa.algebra import Unsupported
    cases = [(['a', 'b'], {'x': ['a', 'c'], 'y': ['b']}), (['a'], {'x': ['b']}), ([], {'x': ['a']}), (['a', '_renamed_0'], {'x': ['a', '_renamed_1'], 'y': ['a']}), (['q', 'r', 's'], {'x': ['s', 'r', 'q', '_renamed_0']})]
    try:
        for tl, vals in cases:
            calls = []

            def repl(value, mapping, calls=calls):
                calls.append((value, dict(mapping)))
                return ('renamed', id(value))
            values = {k: Sym(_loops=[Sym(loop_id=i) for i in v]) for k, v in vals.items()}
            ps = [a.arg for a in h.node.args.args]
            me = MiniExec({ps[0]: Sym(_loops=[Sym(loop_id=i) for i in tl]), ps[1]: values, 'asarray': (lambda v: v), '_LoopId': (lambda s_: s_), 'itertools': Sym(count=itertools.count, chain=itertools.chain),
                           '_replace_loop_ids': repl, 'str': str, 'set': set, 'frozenset': frozenset, 'dict': dict})
            try:
                me.run(h.node.body)
                return False
            except Returned as r:
                got = r.value
            taken = set(tl)
            used = {i for v in vals.values() for i in v}
            clash = taken & used
            if not clash:
                if calls and any(m for _, m in calls):
                    return False
                continue
            if not isinstance(got, dict) or set(got) != set(vals) or len(calls) != len(vals):
                return False
            for value, m in calls:
                if set(m) != clash or len(set(m.values())) != len(m) or set(m.values()) & (taken | used):
                    return False
            if len({tuple(sorted(m.items())) for _, m in calls}) != 1:
                return False
    except (Unsupported, AssertionFailed, RaisedIn, TypeError, ValueError, KeyError, IndexError, AttributeError, StopIteration):
        return False
    return True


def check_capture_avoiding_replace(model, rep):
    """R13.10: _Replace.lower lowers the replacement values OUTSIDE the loops of its operand; an integral that replaces an argument of another integral gets the
    same loop id as the integral it ends up in (`_sample_<depth>`), and the simplifier identifies two nested loops with one id.  Before substitution the
    loops of the values must be made disjoint from those of the operand: the table handed to evaluable.replace_arguments passes through
    evaluable.disjoint_loop_ids(<lowered operand>, table), and that helper renames exactly the ids that occur in both."""
    c = model.cls('function:_Replace')
    lower = c.members['lower'].func
    calls = [x for x in calls_in(lower.node) if src(x.func) == 'evaluable.replace_arguments' and len(x.args) == 2]
    dis = [x for x in calls_in(lower.node) if src(x.func) == 'evaluable.disjoint_loop_ids' and len(x.args) == 2]
    ok = len(calls) == 1 and len(dis) == 1
    if ok:
        from sa.astutil import deep_resolved
        target, table = calls[0].args
        if table is dis[0]:
            ok = True   # replace_arguments(target, disjoint_loop_ids(target', table'))
        else:
            # the substituted name was last bound, before the substitution, to the result of disjoint_loop_ids
            asg = [s_ for s_ in find_stmts(lower.body, lambda s_: isinstance(s_, ast.Assign) and len(s_.targets) == 1 and src(s_.targets[0]) == src(table) and s_.lineno < calls[0].lineno)]
            asg.sort(key=lambda s_: s_.lineno)
            ok = isinstance(table, ast.Name) and bool(asg) and asg[-1].value is dis[0]
        ok = ok and src(deep_resolved(lower.node, dis[0].args[0])) == src(deep_resolved(lower.node, target))
    rep.ob('R13.10', lower.key, lower.where(), ok, 'the lowered replacements are made loop-disjoint from the lowered operand before they are substituted' if ok else
           '_Replace.lower substitutes replacement values whose loops may carry the id of a loop of the operand: replacing an argument of an integral by another integral over the same sample nests two loops with one '
           'index, and the simplified expression has another value (694.6 becomes 2275.2 in findings/F43)', statement='capture-avoiding-replace')
    h = model.functions.get('evaluable:disjoint_loop_ids')
    ok2 = False
    if h is not None:
        ok2 = _disjoint_loop_ids_by_interpretation(h)
    rep.ob('R13.10', 'evaluable:disjoint_loop_ids', h.where() if h is not None else lower.where(), ok2, 'disjoint_loop_ids renames the loop ids that occur in both, to ids that occur in neither' if ok2 else
           'evaluable.disjoint_loop_ids is missing or no longer renames the ids common to target and values to fresh ones', statement='disjoint-loop-ids')


def check_monomial_ravel(model, rep, rule='R13.7'):
    """Monomial._derivative scatters the derivative of the polynomial with respect to one argument through the ravelled multi-index
    of that argument: Inflate(Diagonalize(m), ravel_index, ravel_length) followed by unravel(..., arg.shape).  unravel is row-major,
    so ravel_index must be the row-major flat index of self.indices[iarg] over arg.shape and ravel_length the number of entries.
    The statements are executed symbolically for arguments of 1..4 axes (sa/flatindex.py)."""
    from sa.algebra import Poly, Unsupported
    from sa.flatindex import Exec, row_major, symbols, product
    f = model.func('evaluable:Monomial._derivative')
    # the argument being differentiated to: `arg` or, when it is not held in a local, self.args[iarg]
    ARG = ('arg', 'self.args[iarg]')
    blocks = [b for b in ast.walk(f.node) if isinstance(b, ast.If) and src(b.test) in tuple(a + '.ndim' for a in ARG)]
    if len(blocks) != 1:
        raise AnalysisError('Monomial._derivative: the `if arg.ndim:` block was not found')
    body = blocks[0].body
    last = body[-1]
    infl = [c for c in ast.walk(last) if isinstance(c, ast.Call) and src(c.func) == 'Inflate' and len(c.args) == 3]
    unr = [c for c in ast.walk(last) if isinstance(c, ast.Call) and src(c.func) == 'unravel']
    if len(infl) != 1 or len(unr) != 1 or src(unr[0].args[-1]) not in tuple(a + '.shape' for a in ARG):
        raise AnalysisError('Monomial._derivative: unravel(Inflate(Diagonalize(m), index, length), -1, arg.shape) was not found')
    bad = None
    try:
        for n in range(1, 5):
            i, sh = symbols('i', n), symbols('s', n)
            ex = Exec({}, binder=lambda t, i=i, sh=sh: list(i) if t == 'self.indices[iarg]' else list(sh) if t in ('arg.shape', 'self.args[iarg].shape') else None)
            ex.run(body[:-1])
            idx, length = ex.num(ex.ev(infl[0].args[1])), ex.num(ex.ev(infl[0].args[2]))
            if not idx == row_major(i, sh):
                bad = (n, f'the scatter index is {idx!r}, the row-major flat index that unravel(…, arg.shape) inverts is {row_major(i, sh)!r}')
                break
            if not length == product(sh):
                bad = (n, f'the scattered length is {length!r}, the argument has {product(sh)!r} entries')
                break
    except Unsupported as e:
        raise AnalysisError(f'Monomial._derivative: the ravel statements use a construct the symbolic executor does not know: {e}')
    rep.ob(rule, f.key, f.where(body[0]), bad is None, 'the derivative is scattered through the row-major flat index of the argument\'s multi-index (symbolic execution, 1..4 axes)' if bad is None else
           f'for an argument of {bad[0]} axes {bad[1]}: the derivative of a factored polynomial with respect to that argument is scattered to the wrong entries', statement='monomial-ravel')


def run(model, rep, tier):
    rep.explanation = (
        'R13.1: symtable name resolution over the argument-manipulation mechanisms of function.py and evaluable.py (a name bound in no scope on a non-error path is a NameError for '
        'exactly the spelling that reaches it). R13.2: _argument_to_array accepts the str/dict/sequence and str/pair item spellings, and on EVERY enumerated path to `yield key, new` the key '
        'type was determined, membership in the array\'s arguments was tested, an Argument key was compared in shape and dtype, and a replacement is either built from the key\'s shape and '
        'dtype or passed shape and dtype guards that raise ValueError. R13.3: run-time ingestion emits numpy.asarray + shape test raising ValueError; evaluable.replace_arguments keeps its '
        'shape/dtype comparisons under shallow_replace. R13.4: the raw specification object is consumed only through _argument_to_array (taint rule). R13.5: the argument tables announced by '
        '_Replace/derivative/arguments_for agree with what lowering substitutes. Decides specification handling, not numerical commutation with evaluation.')
    rep.rule('R13.1', 'every name in the anchored mechanisms resolves (symtable)')
    rep.rule('R13.2', 'spelling coverage and validation guards dominate the yield of _argument_to_array')
    rep.rule('R13.3', 'run-time ingestion and substitution keep shape/dtype comparisons')
    rep.rule('R13.4', 'raw specification consumed only through _argument_to_array')
    rep.rule('R13.5', 'announced argument tables agree with substitution; targets validated')
    rep.rule('R13.7', 'Monomial._derivative ravels the argument multi-index row-major (symbolic execution)')
    rep.rule('R13.6', 'supplied argument values are converted with a casting-checked conversion (wrong kind raises)')
    check_names(model, rep)
    check_spellings(model, rep)
    check_runtime(model, rep)
    check_spec_opacity(model, rep)
    check_announced(model, rep)
    check_monomial_ravel(model, rep)
    rep.rule('R13.8', 'factor() prunes coefficients only where they are exactly zero (no magnitude threshold)')
    check_exact_pruning(model, rep)
    rep.rule('R13.10', 'replacement values are made loop-disjoint from the operand before substitution (capture-avoiding replace)')
    check_capture_avoiding_replace(model, rep)
    rep.rule('R13.9', 'every name loaded in function.py resolves (symtable)')
    from rules import names as _names
    _names.check(model, rep, 'R13.9', ('function',), 280)
    rep.require('R13.2', 13)
    rep.require('R13.3', 4)
    rep.require('R13.4', 2)
    rep.require('R13.5', 8)
