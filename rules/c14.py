'''C14 Solvers return a certified solution or raise.

Decided (structural, on every path): the acceptance gates cannot be passed by a NaN or an
unconverged residual norm (abstract interpretation of the gate functions over the value domain
{nan, big, pos, numbers}); the linear gate recomputes the residual and checks finiteness before every
return of a computed vector; backend failures surface as MatrixError; constraint writes.
Not decided: conditioning, convergence, independence of the initial guess.
'''

import ast

from sa import AnalysisError
from sa.pattern import pmatch, pfind
from sa.astutil import method_name, dotted, src, stmt_text, params, target_names, walk_no_nested, find_stmts, calls_in, deep_resolved, resolved
from sa.facts import abs_eval
from sa.paths import PathEnumerator, Event
from sa.guards import decompose

TOL_NAMES = {'tol', 'atol'}

# gates confirmed by reading: functions whose normal return hands an iterate to the user
GATES = {
    'solver:System.solve': 'nonlinear/linear front door',
    'solver:_with_solve.solve_withinfo': 'legacy iterator front door',
    'matrix._base:Matrix._solver': 'linear gate behind Matrix.solve',
}


def acceptance_terms(fn):
    '''Terms compared against a tolerance name in fn: {text: [Compare nodes]}.'''
    terms = {}
    for n in walk_no_nested(fn):
        if isinstance(n, ast.Compare):
            ops = [n.left] + list(n.comparators)
            texts = [src(o) for o in ops]
            if any(t in TOL_NAMES for t in texts):
                for o, t in zip(ops, texts):
                    if t in TOL_NAMES or isinstance(o, ast.Constant):
                        continue
                    if isinstance(o, (ast.Name, ast.Attribute)):
                        terms.setdefault(t, []).append(n)
    return terms


def _bind_events(stmt, st, watch):
    evs = []
    targets = []
    if isinstance(stmt, ast.Assign):
        targets = stmt.targets
    elif isinstance(stmt, (ast.AugAssign, ast.AnnAssign)):
        targets = [stmt.target]
    for t in targets:
        for n in ast.walk(t):
            if isinstance(n, (ast.Name, ast.Attribute)) and src(n) in watch:
                evs.append(Event('bind', stmt, src(n)))
            elif isinstance(n, ast.Name) and any(w.startswith(n.id + '.') for w in watch):
                evs.append(Event('bind', stmt, next(w for w in watch if w.startswith(n.id + '.'))))
    return evs


def scenario_paths(f, absval, watch, fallible=None, unroll=2):
    def ev(test, st):
        return abs_eval(test, absval)
    pe = PathEnumerator(f.node, on_stmt=lambda s, st: _bind_events(s, st, watch), eval_test=ev, unroll=unroll, fallible=fallible)
    return pe.paths()


def check_gate(model, rep, key):
    f = model.func(key)
    terms = acceptance_terms(f.node)
    if not terms:
        raise AnalysisError(f'{key}: no comparison of a residual norm with a tolerance found - gate re-anchoring needed')
    watch = set(terms)
    rep.unit('acceptance_terms', len(watch))

    def mk(val, tolval):
        def absval(e):
            t = src(e)
            if t in watch:
                return val
            if t in TOL_NAMES:
                return tolval
            return None
        return absval

    for scen, val, tolval, what in (('nan', 'nan', None, 'a NaN residual norm'),
                                    ('unconverged', 'big', 'pos', 'a finite residual norm above a positive tolerance')):
        paths = scenario_paths(f, mk(val, tolval), watch)
        bad = [p for p in paths if p.end in ('return', 'fall') and any(e.kind == 'bind' for e in p.events)]
        rep.unit('paths_enumerated', len(paths))
        for term in sorted(watch):
            tb = [p for p in bad if any(e.kind == 'bind' and e.data == term for e in p.events)]
            # name the last test that the abstract residual passed on the offending path
            detail = f'no path returns normally with {what} ({term})'
            stmt = None
            ok = not tb
            if tb:
                seen = set()
                for p in tb:
                    conds = [e for e in p.events if e.kind == 'cond' and any(src(n) == term for n in ast.walk(e.node))]
                    lastc = conds[-1] if conds else None
                    stmt = ('test ' + src(lastc.node)) if lastc else 'no test'
                    if stmt in seen:
                        continue
                    seen.add(stmt)
                    line = lastc.node.lineno if lastc else f.lineno
                    detail = (f'{what} ({term}) reaches a normal return: the test `{src(lastc.node) if lastc else "?"}` '
                              f'evaluates to {lastc.data[0] if lastc else "?"} for it and no raise follows')
                    rep.ob('R14.1', key, f'{f.module.relpath}:{line}', False, detail, statement=f'{scen}: {stmt}', scenario=scen, paths=len(paths))
            else:
                rep.ob('R14.1', key, f.where(), True, detail, statement=f'{scen}: {term}', scenario=scen, paths=len(paths))


def check_linear_gate(model, rep):
    key = 'matrix._base:Matrix._solver'
    f = model.func(key)
    # the vector handed out: assigned from the call of the selected solver method
    meth_assign = [s for s in find_stmts(f.body, lambda s: isinstance(s, ast.Assign)) if isinstance(s.value, ast.Call)
                   and any(isinstance(t, ast.Tuple) for t in s.targets) and (dotted(s.value.func) or '').endswith('._method')]
    if len(meth_assign) != 1:
        raise AnalysisError(f'{key}: expected exactly one `x, name = self._method(...)` selection')
    solver_var = meth_assign[0].targets[0].elts[0].id
    lhs_assign = [s for s in find_stmts(f.body, lambda s: isinstance(s, ast.Assign)) if isinstance(s.value, ast.Call) and dotted(s.value.func) == solver_var]
    if len(lhs_assign) != 1 or not isinstance(lhs_assign[0].targets[0], ast.Name):
        raise AnalysisError(f'{key}: cannot find the assignment of the backend solver result')
    lhs = lhs_assign[0].targets[0].id
    call_stmt = lhs_assign[0]

    # R14.2a: non-finite lhs never returned.  Scenario: isfinite(lhs)... is False.
    def absval(e):
        if isinstance(e, ast.Call) and (dotted(e.func) or '').rsplit('.', 1)[-1] == 'isfinite' and e.args and src(e.args[0]) == lhs:
            return 'false'
        return None

    def abs_ev(test, st):
        # isfinite(lhs).all() -> False ; numpy.all(isfinite(lhs)) -> False
        return abs_eval(test, absval)
    pe = PathEnumerator(f.node, on_stmt=lambda s, st: _bind_events(s, st, {lhs}), eval_test=abs_ev, unroll=1)
    paths = pe.paths()
    bad = [p for p in paths if p.end in ('return', 'fall') and any(e.kind == 'bind' and e.data == lhs for e in p.events)]
    rep.ob('R14.2', key, f.where(call_stmt), not bad,
           f'every return after `{stmt_text(call_stmt)}` is preceded by a finiteness test of {lhs} that raises'
           if not bad else f'a non-finite {lhs} reaches `return`: no isfinite({lhs}) test raises on that path',
           statement='finite-lhs', paths=len(paths))

    # R14.2b: the residual compared with atol is recomputed from rhs, the matrix and lhs
    terms = acceptance_terms(f.node)
    res_assigns = [s for s in find_stmts(f.body, lambda s: isinstance(s, ast.Assign)) if s.lineno > call_stmt.lineno
                   and any(src(t) in terms for t in s.targets)]
    ok = False
    det = f'no residual norm is computed after the solver call and compared with atol'
    stmt = None
    for s in res_assigns:
        names = {n.id for n in ast.walk(s.value) if isinstance(n, ast.Name)}
        has_norm = any((dotted(c.func) or '').endswith('norm') for c in calls_in(s.value))
        has_sub = any(isinstance(n, ast.BinOp) and isinstance(n.op, ast.Sub) for n in ast.walk(s.value))
        has_mul = any(isinstance(n, ast.BinOp) and isinstance(n.op, ast.MatMult) for n in ast.walk(s.value)) or \
            any((dotted(c.func) or '').endswith(('matvec', '__matmul__')) for c in calls_in(s.value))
        stmt = stmt_text(s)
        if {'rhs', 'self', lhs} <= names and has_norm and has_sub and has_mul:
            ok = True
            det = f'`{stmt}` recomputes |rhs - A {lhs}| independently of the backend'
            break
        det = f'`{stmt}` is not the norm of rhs - self @ {lhs}: the gate would trust something else than the true residual'
    rep.ob('R14.2', key, f.where(res_assigns[0] if res_assigns else None), ok, det, statement='residual-recomputed')

    # R14.2c: the zero shortcut is guarded by rhsnorm <= atol
    rets = find_stmts(f.body, lambda s: isinstance(s, ast.Return))
    early = [r for r in rets if r.lineno < call_stmt.lineno]
    for r in early:
        # enclosing if test must be `<norm of rhs> <= atol`
        owner = None
        for s in find_stmts(f.body, lambda s: isinstance(s, ast.If)):
            if r in find_stmts(s.body, lambda x: isinstance(x, ast.Return)):
                owner = s
        ok = False
        if owner is not None and isinstance(owner.test, ast.Compare) and len(owner.test.ops) == 1:
            a, op, b = owner.test.left, owner.test.ops[0], owner.test.comparators[0]
            if (isinstance(op, ast.LtE) and src(b) in TOL_NAMES and src(a) in terms) or (isinstance(op, ast.GtE) and src(a) in TOL_NAMES and src(b) in terms):
                ok = True
            val = r.value
            if not (isinstance(val, ast.Call) and (dotted(val.func) or '').rsplit('.', 1)[-1] in ('zeros_like', 'zeros')):
                ok = False
        rep.ob('R14.2', key, f.where(r), ok,
               'the only return before the solver call is the zero vector under `rhsnorm <= atol`' if ok else
               f'early `{stmt_text(r)}` is not the zero shortcut guarded by rhsnorm <= atol', statement='early-return: ' + stmt_text(r))

    # R14.3a: failure of the backend solver surfaces as MatrixError and never continues
    _taxonomy(model, rep, f, call_stmt, 'solver call')


def _taxonomy(model, rep, f, call_stmt, what):
    def fallible(s):
        if s is call_stmt or (isinstance(s, ast.Expr) and getattr(s, '_owner', None) is call_stmt):
            return ('MatrixError', 'Exception')
        return ()
    parents = {'MatrixError': 'Exception', 'ToleranceNotReached': 'MatrixError', 'BreakdownError': 'MatrixError'}
    pe = PathEnumerator(f.node, fallible=fallible, exc_parents=parents, unroll=1)
    paths = [p for p in pe.paths() if any(e.kind == 'fail' for e in p.events)]
    if len(paths) < 2:
        raise AnalysisError(f'{f.key}: the {what} was not found on any path')
    for p in paths:
        failed = next(e for e in p.events if e.kind == 'fail').data
        if p.end != 'raise':
            rep.ob('R14.3', f.key, f.where(call_stmt), False,
                   f'after the {what} fails with {failed} control continues to a normal return: the error is swallowed',
                   statement=f'{what}: {failed} swallowed')
            continue
        anc, _ = pe._exc_ancestors(p.exc or '*')
        ok = 'MatrixError' in anc
        rep.ob('R14.3', f.key, f.where(call_stmt), ok,
               f'{failed} from the {what} leaves as {p.exc}' + ('' if ok else ' which is not a MatrixError: callers (System.step, solve_leniently) would not recognise it'),
               statement=f'{what}: {failed} -> {p.exc}')
    # writes to cache attributes must not happen on failing paths
    for p in paths:
        pass


def check_getprecon(model, rep):
    f = model.func('matrix._base:Matrix.getprecon')
    tries = find_stmts(f.body, lambda s: isinstance(s, ast.Try))
    if len(tries) != 1:
        raise AnalysisError('Matrix.getprecon: expected one try statement around the preconditioner construction')
    calls = [s for s in find_stmts(tries[0].body, lambda s: isinstance(s, ast.Assign)) if isinstance(s.value, ast.Call)]
    if len(calls) != 1:
        raise AnalysisError('Matrix.getprecon: cannot find the preconditioner construction call')
    _taxonomy(model, rep, f, calls[0], 'preconditioner construction')


def check_lenient(model, rep):
    f = model.func('matrix._base:Matrix.solve_leniently')
    hs = [h for t in find_stmts(f.body, lambda s: isinstance(s, ast.Try)) for h in t.handlers]
    names = [src(h.type) if h.type is not None else '<bare>' for h in hs]
    ok = names == ['ToleranceNotReached']
    rep.ob('R14.3', f.key, f.where(hs[0] if hs else None), ok,
           'solve_leniently swallows exactly ToleranceNotReached' if ok else f'solve_leniently handles {names}: other failures would be returned as solutions',
           statement='handlers: ' + ','.join(names))
    if hs:
        rets = find_stmts(hs[0].body, lambda s: isinstance(s, ast.Return))
        is_best = lambda v: isinstance(v, ast.Attribute) and v.attr == 'best' and bool(hs[0].name) and src(v.value) == hs[0].name
        ok = len(rets) == 1 and is_best(rets[0].value)
        if not rets and isinstance(f.body[-1], ast.Return) and isinstance(f.body[-1].value, ast.Name):
            # the handler leaves the best iterate in the variable that the function returns after the try statement
            out = f.body[-1].value.id
            binds = [s_ for s_ in find_stmts(hs[0].body, lambda s_: isinstance(s_, (ast.Assign, ast.AugAssign, ast.AnnAssign)))
                     if any(isinstance(n, ast.Name) and n.id == out and isinstance(n.ctx, ast.Store) for n in ast.walk(s_))]
            ok = bool(binds) and isinstance(binds[-1], ast.Assign) and len(binds[-1].targets) == 1 and isinstance(binds[-1].targets[0], ast.Name) and is_best(binds[-1].value) \
                and isinstance(f.body[-2], ast.Try) and hs[0] in f.body[-2].handlers and not f.body[-2].finalbody
        rep.ob('R14.3', f.key, f.where(hs[0]), ok, 'the lenient result is the best iterate carried by the exception' if ok else
               'the lenient handler does not return <exception>.best', statement='lenient-return')

    g = model.func('matrix._base:Matrix.solve')
    hs = [h for t in find_stmts(g.body, lambda s: isinstance(s, ast.Try)) for h in t.handlers]
    names = [src(h.type) if h.type is not None else '<bare>' for h in hs]
    ok = names == ['ToleranceNotReached'] and any(isinstance(s, ast.Raise) and s.exc is not None and (dotted(s.exc.func) if isinstance(s.exc, ast.Call) else dotted(s.exc)) == 'ToleranceNotReached' for s in hs[0].body)
    rep.ob('R14.3', g.key, g.where(hs[0] if hs else None), ok,
           'Matrix.solve re-raises ToleranceNotReached with the constrained vector' if ok else
           f'Matrix.solve handlers {names} do not re-raise ToleranceNotReached', statement='solve-handlers: ' + ','.join(names))


def check_step(model, rep):
    f = model.func('solver:System.step')
    tries = find_stmts(f.body, lambda s: isinstance(s, ast.Try))
    if len(tries) != 1 or len(tries[0].handlers) != 1:
        raise AnalysisError('System.step: expected one try with one handler')
    h = tries[0].handlers[0]
    types = sorted(src(t) for t in (h.type.elts if isinstance(h.type, ast.Tuple) else [h.type])) if h.type is not None else ['<bare>']
    ok = types == ['SolverError', 'matrix.MatrixError']
    rep.ob('R14.3', f.key, f.where(h), ok, 'step retries only on SolverError and MatrixError' if ok else
           f'step catches {types}: unrelated failures would trigger silent time-step bisection', statement='step-handler: ' + ','.join(types))
    # bounded retry: first statement of the handler re-raises under a test mentioning maxretry <= 0; recursion passes maxretry-1
    first = h.body[0] if h.body else None
    ok = isinstance(first, ast.If) and any(isinstance(s, ast.Raise) and s.exc is None for s in first.body) and \
        any(isinstance(n, ast.Compare) and src(n.left) == 'maxretry' and isinstance(n.ops[0], (ast.LtE, ast.Lt)) for n in ast.walk(first.test))
    rep.ob('R14.3', f.key, f.where(first or h), ok, 'the handler re-raises when maxretry is exhausted' if ok else
           'the handler does not start with `if ... maxretry <= 0: raise`', statement='step-bounded')
    dec = [k for c in calls_in(h) for k in c.keywords if k.arg == 'maxretry']
    ok = bool(dec) and all(isinstance(k.value, ast.BinOp) and isinstance(k.value.op, ast.Sub) and src(k.value.left) == 'maxretry' and src(k.value.right) == '1' for k in dec)
    rep.ob('R14.3', f.key, f.where(h), ok, 'retries recurse with maxretry-1' if ok else 'the retry does not decrease maxretry: unbounded recursion', statement='step-decrease')
    # both half steps are taken and the second starts from the first's result
    calls = [c for c in calls_in(h) if dotted(c.func) == 'self.step']
    ok = len(calls) == 2
    if ok:
        a0 = next((k.value for k in calls[0].keywords if k.arg == 'arguments'), None)
        a1 = next((k.value for k in calls[1].keywords if k.arg == 'arguments'), None)
        first_res = None
        for s in find_stmts(h.body, lambda s: isinstance(s, ast.Assign)):
            if s.value is calls[0]:
                first_res = s.targets[0].id if isinstance(s.targets[0], ast.Name) else None
        ok = a0 is not None and a1 is not None and src(a0) == 'arguments' and first_res is not None and src(a1) == first_res
    rep.ob('R14.3', f.key, f.where(h), ok, 'two half steps are chained (second starts from the first result)' if ok else
           'the bisection does not chain two half steps', statement='step-chain')


def check_solve_frontdoor(model, rep):
    f = model.func('solver:System.solve')
    # tol <= 0 rejected before iterating: an `if tol <= 0: raise ValueError` precedes the first next(m) in the same branch
    ok = False
    where = f.where()
    for s in find_stmts(f.body, lambda s: isinstance(s, ast.If)):
        for blk in (s.body, s.orelse):
            nxt = [i for i, x in enumerate(blk) if any(dotted(c.func) == 'next' for c in calls_in(x))]
            if not nxt:
                continue
            for x in blk[:nxt[0]]:
                if isinstance(x, ast.If) and isinstance(x.test, ast.Compare) and src(x.test.left) == 'tol' and isinstance(x.test.ops[0], ast.LtE) and src(x.test.comparators[0]) == '0' \
                        and any(isinstance(y, ast.Raise) for y in x.body):
                    ok = True
                    where = f.where(x)
    rep.ob('R14.3', f.key, where, ok, 'iterative branch rejects tol <= 0 before the first iterate' if ok else
           'no `if tol <= 0: raise` in front of the iteration: an iterative solve without tolerance would run unchecked', statement='tol-positive')
    # maxiter -> SolverError inside the loop
    loops = find_stmts(f.body, lambda s: isinstance(s, ast.While))
    ok = False
    for w in loops:
        for x in find_stmts(w.body, lambda s: isinstance(s, ast.If)):
            if any(src(n) == 'maxiter' for n in ast.walk(x.test)) and any(isinstance(y, ast.Raise) and y.exc is not None and 'SolverError' in src(y.exc) for y in x.body):
                ok = True
    rep.ob('R14.3', f.key, f.where(loops[0]) if loops else f.where(), ok, 'exceeding maxiter raises SolverError' if ok else 'maxiter is not enforced with SolverError', statement='maxiter')


def check_constraint_writes(model, rep):
    f = model.func('matrix._base:Matrix.solve')
    # the roles of the locals are taken from the reduced system submatrix(I, J): J = mask of free columns, I = mask of rows kept (whatever they are called)
    subs0 = [c for c in calls_in(f.node) if method_name(c) == 'submatrix' and len(c.args) == 2 and all(isinstance(a, ast.Name) for a in c.args)]
    if len(subs0) != 1:
        raise AnalysisError('Matrix.solve: the reduced system submatrix(I, J) was not found')
    In, Jn = subs0[0].args[0].id, subs0[0].args[1].id
    Jdefs = [s for s in find_stmts(f.body, lambda s: isinstance(s, ast.Assign)) if any(src(t) == Jn for t in s.targets)]
    allowed_J = {'numpy.ones(ncols, dtype=bool)', '~constrain', 'numpy.isnan(constrain)'}
    for s in Jdefs:
        ok = src(s.value) in allowed_J
        rep.ob('R14.4', f.key, f.where(s), ok, 'J is the mask of free columns' if ok else f'`{stmt_text(s)}`: J is no longer the free-column mask', statement='J = ' + src(s.value))
    if len(Jdefs) < 3:
        raise AnalysisError('Matrix.solve: expected three definitions of the free-column mask J')
    stores = []
    for s in find_stmts(f.body, lambda s: isinstance(s, (ast.Assign, ast.AugAssign))):
        tg = s.targets if isinstance(s, ast.Assign) else [s.target]
        for t in tg:
            if isinstance(t, ast.Subscript) and src(t.value) == 'lhs':
                stores.append((s, t))
    if len(stores) < 3:
        raise AnalysisError('Matrix.solve: expected at least three stores into lhs')
    for s, t in stores:
        idx = src(t.slice)
        if isinstance(s, ast.Assign):
            ok = idx == f'~{Jn}' and src(s.value) == f'constrain[~{Jn}]'
            det = 'constrained entries are set to the prescribed values' if ok else f'`{stmt_text(s)}` overwrites entries other than lhs[~J] = constrain[~J]'
        else:
            ok = idx == Jn and isinstance(s.op, ast.Add)
            det = 'the update touches free entries only' if ok else f'`{stmt_text(s)}` updates entries outside the free set J'
        rep.ob('R14.4', f.key, f.where(s), ok, det, statement=stmt_text(s))
    # the reduced system: submatrix(I, J) with rhs - self @ lhs restricted to I
    subs = [c for c in calls_in(f.node) if method_name(c) == 'submatrix']
    ok = len(subs) == 1 and [src(a) for a in subs[0].args] == [In, Jn]
    rep.ob('R14.4', f.key, f.where(subs[0]) if subs else f.where(), ok, 'reduced system is submatrix(I, J)' if ok else 'reduced system is not submatrix(I, J)', statement='submatrix(I, J)')
    sol = [c for c in calls_in(f.node) if method_name(c) == '_solver' and c.args and 'lhs' in src(resolved(f.node, c.args[0]))]
    ok = len(sol) == 1 and src(resolved(f.node, sol[0].args[0])).replace(' ', '') == f'(rhs-self@lhs)[{In}]'
    rep.ob('R14.4', f.key, f.where(sol[0]) if sol else f.where(), ok, 'reduced right-hand side is (rhs - A lhs)[I]' if ok else
           'the reduced right-hand side is not (rhs - self @ lhs)[I]: prescribed values would not be lifted', statement='reduced-rhs')

    g = model.func('solver:System.solve_constraints')
    # roles, not names: M_ is the mask handed to the linear solve as `constrain=`; D_, C_ are values and column indices of the csr export
    solv = [c for c in calls_in(g.node) if (dotted(c.func) or '').endswith('jac.solve')]
    mk = [k.value.id for c in solv for k in c.keywords if k.arg == 'constrain' and isinstance(k.value, ast.Name)]
    ok = len(solv) == 1 and len(mk) == 1
    rep.ob('R14.4', g.key, g.where(solv[0]) if solv else g.where(), ok, 'the linear solve is constrained by the mask of dropped dofs' if ok else 'jac.solve is not constrained by mycons', statement='constrain=mycons')
    M = mk[0] if mk else '?'
    nanw = [s for s in find_stmts(g.body, lambda s: isinstance(s, ast.Assign)) if isinstance(s.targets[0], ast.Subscript) and src(s.value) in ('numpy.nan', 'float("nan")', "float('nan')")]
    ok = len(nanw) == 1 and pmatch(f'X_[{M}]', nanw[0].targets[0]) is not None
    rep.ob('R14.4', g.key, g.where(nanw[0]) if nanw else g.where(), ok, 'exactly the dropped dofs (mycons) are returned as NaN' if ok else
           'solve_constraints does not write NaN exactly at mycons', statement='nan-at-mycons')
    exp = pfind("D_, C_, R_ = jac.export('csr')", g.node)
    drop = [s for s in find_stmts(g.body, lambda s: isinstance(s, ast.Assign)) if isinstance(s.targets[0], ast.Subscript) and src(s.targets[0].value) == M]
    ok = len(drop) == 1 and len(exp) == 1 and src(drop[0].value) == 'False'
    if ok:
        b = exp[0][1]
        sel = resolved(g.node, drop[0].targets[0].slice)    # one level: the selection may have been given a name
        if isinstance(sel, ast.Subscript) and isinstance(sel.slice, ast.Name):      # ... and so may its mask
            import copy as _copy
            sel = _copy.deepcopy(sel)
            sel.slice = resolved(g.node, sel.slice)
        bb = {'C_': b['C_'], 'D_': b['D_']}
        ok = pmatch('C_[abs(D_) > droptol]', sel, bb) is not None or pmatch('C_[numpy.abs(D_) > droptol]', sel, bb) is not None
    init = [s for s in find_stmts(g.body, lambda s: isinstance(s, ast.Assign)) if src(s.targets[0]) == M]
    ok = ok and len(init) == 1 and pmatch('numpy.ones(res.shape, dtype=bool)', init[0].value) is not None
    rep.ob('R14.4', g.key, g.where(drop[0]) if drop else g.where(), ok, 'columns with an entry above droptol are unconstrained' if ok else
           'the drop-tolerance selection `mycons[colidx[abs(data) > droptol]] = False` changed', statement='droptol-select')


def check_who_may_call(model, rep):
    '''Backend solver methods (_solver_<name>) are reached only through Matrix._solver (which re-checks).'''
    n = 0
    for f in model.functions.values():
        for c in calls_in(f.node, nested=False):
            lastn = method_name(c) or ''
            if lastn.startswith('_solver_') and not (f.cls is not None and f.name.startswith('_solver_')):
                n += 1
                rep.ob('R14.5', f.key, f.where(c), False, f'`{src(c)[:80]}` calls a backend solver directly, bypassing the residual gate Matrix._solver',
                       statement=src(c.func))
            if lastn == '_solver' and f.key not in ('matrix._base:Matrix.solve',):
                rep.ob('R14.5', f.key, f.where(c), False, f'`{src(c)[:80]}` calls the linear gate outside Matrix.solve', statement=src(c.func))
    f = model.func('matrix._base:Matrix.solve')
    calls = [c for c in calls_in(f.node) if method_name(c) == '_solver']
    rep.ob('R14.5', f.key, f.where(), len(calls) == 2, f'Matrix.solve reaches the backend through _solver on both branches ({len(calls)} calls)', statement='gate-calls')
    g = model.func('matrix._base:Matrix._solver')
    sel = [c for c in calls_in(g.node) if (dotted(c.func) or '') == 'self._method' and c.args and src(c.args[0]) == "'solver'"]
    rep.ob('R14.5', g.key, g.where(), len(sel) == 1, 'the backend method is selected by self._method("solver", name)', statement='method-select')


def check_project_constraints(model, rep):
    '''R14.7 Topology.project: prescribed constraint values are never overwritten.'''
    f = model.func('topology:Topology.project')
    stores = [s for s in find_stmts(f.body, lambda s: isinstance(s, ast.Assign)) if isinstance(s.targets[0], ast.Subscript) and src(s.targets[0].value) == 'constrain']
    if len(stores) < 4:
        raise AnalysisError('Topology.project: stores into constrain not found')
    defs = [(s.lineno, s.targets[0].id, src(s.value)) for s in find_stmts(f.body, lambda s: isinstance(s, ast.Assign)) if isinstance(s.targets[0], ast.Name)]

    def alias_at(name, lineno):
        cands = [(ln, v) for ln, n, v in defs if n == name and ln < lineno]
        return max(cands)[1] if cands else ''
    for s in stores:
        aliases = {n: alias_at(n, s.lineno) for _, n, _ in defs}
        idx = src(s.targets[0].slice)
        expanded = aliases.get(idx) or idx
        free_only = '~constrain.where' in expanded
        from_constrained_solve = False
        if isinstance(s.value, ast.Subscript) and isinstance(s.value.value, ast.Name):
            d = aliases.get(s.value.value.id, '')
            from_constrained_solve = '.solve(' in d and 'constrain=solvecons' in d and aliases.get('solvecons', '').startswith('constrain.copy()')
        ok = free_only or from_constrained_solve
        rep.ob('R14.7', f.key, f.where(s), ok,
               (f'`{stmt_text(s)[:60]}` touches free entries only' if free_only else f'`{stmt_text(s)[:60]}` copies a solution that was solved WITH the prescribed values as constraints') if ok else
               f'`{stmt_text(s)[:70]}` can overwrite entries that were already prescribed (no `~constrain.where` in the index and not the result of a solve constrained by them)', statement=stmt_text(s)[:80])
    sv = [c for c in calls_in(f.node) if method_name(c) == 'solve' and any(k.arg == 'constrain' for k in c.keywords)]
    ok = len(sv) == 1 and src(next(k.value for k in sv[0].keywords if k.arg == 'constrain')) == 'solvecons'
    rep.ob('R14.7', f.key, f.where(sv[0]) if sv else f.where(), ok, 'the least-squares system is solved with the prescribed values as constraints', statement='solve-constrained')


def check_residual_provenance(model, rep):
    """R14.8: System.solve certifies convergence with the residual norm that an iteration method reports next to a state.  In every
    method class (`__call__(self, system, ...)`) of solver.py the norm handed out with system.construct(arguments, X) must be the norm
    of a residual assembled AT X (system.assemble_*residual*(arguments, X), with X not updated since) - followed per path as a small
    typestate: which residual variables are 'the true residual at' which state variables.  A norm of a linear MODEL of the residual
    (res - jac @ dx, least-squares remainder) is exact only for linear systems, so such a method must refuse non-linear systems first."""
    mod = model.module('solver')
    nmeth = nsites = 0
    for c in mod.classes.values():
        mem = c.members.get('__call__')
        if mem is None or mem.func is None:
            continue
        f = mem.func
        pos, kwonly, _, _ = params(f.node)
        if pos[:2] != ['self', 'system']:
            continue
        nmeth += 1

        def handed(e):
            # (state variable, norm expression) of `system.construct(arguments, X), N`
            if isinstance(e, ast.Tuple) and len(e.elts) == 2 and isinstance(e.elts[0], ast.Call) and src(e.elts[0].func) == 'system.construct' and len(e.elts[0].args) == 2 and isinstance(e.elts[0].args[1], ast.Name):
                return e.elts[0].args[1].id, e.elts[1]
            return None

        def on_stmt(s_, st):
            evs = []
            v = s_.value if isinstance(s_, (ast.Assign, ast.Expr, ast.Return, ast.AugAssign)) else None
            if isinstance(s_, ast.Assign) and isinstance(v, ast.Call) and src(v.func).startswith('system.assemble_') and len(v.args) == 2 and isinstance(v.args[1], ast.Name):
                names = [n.id for t in s_.targets for n in ast.walk(t) if isinstance(n, ast.Name)]
                evs.append(Event('ASSEMBLE', s_, (v.args[1].id, names, src(v.func))))
            elif isinstance(s_, ast.Assign) and len(s_.targets) == 1 and isinstance(s_.targets[0], ast.Name):
                evs.append(Event('SET', s_, (s_.targets[0].id, v)))
            elif isinstance(s_, ast.Assign):
                for t in s_.targets:
                    for n in ast.walk(t):
                        if isinstance(n, ast.Name) and isinstance(n.ctx, ast.Store):
                            evs.append(Event('SET', s_, (n.id, None)))
            elif isinstance(s_, ast.AugAssign) and isinstance(s_.target, ast.Name):
                evs.append(Event('UPDATE', s_, s_.target.id))
            y = None
            if isinstance(s_, ast.Expr) and isinstance(s_.value, ast.Yield) and s_.value.value is not None:
                y = handed(s_.value.value)
            elif isinstance(s_, ast.Return) and s_.value is not None:
                y = handed(s_.value)
            if y is not None:
                evs.append(Event('HAND', s_, y))
            return evs
        paths = PathEnumerator(f.node, on_stmt=on_stmt, unroll=2, max_states=400000, emit_truncated=True).paths()   # generators that loop forever: prefixes cut at two iterations
        guard = any(isinstance(g, ast.If) and src(g.test).replace(' ', '') == 'notsystem.is_linear' and any(isinstance(b, ast.Raise) for b in g.body) for g in f.node.body)
        model_sites, stale_sites, true_sites = {}, {}, set()
        for p in paths:
            at = {}     # variable -> set of state variables at which it is the true residual (or its norm)
            for e in p.events:
                k = e.kind
                if k == 'ASSEMBLE':
                    state, names, fn = e.data
                    for nme in names:
                        at[nme] = {state}
                elif k == 'UPDATE':
                    v = e.data
                    at.pop(v, None)          # the variable itself changed in place (res -= ...): no longer an assembled residual
                    for s2 in at.values():
                        s2.discard(v)        # a state changed in place (x -= dx): residuals assembled at it are stale
                elif k == 'SET':
                    tgt, val = e.data
                    for s2 in at.values():
                        s2.discard(tgt)
                    if isinstance(val, ast.Name):
                        if val.id in at:
                            at[tgt] = set(at[val.id])      # res = newres
                        else:
                            at.pop(tgt, None)
                            for s2 in at.values():         # x = newx: what was assembled at newx is now at x too
                                if val.id in s2:
                                    s2.add(tgt)
                    elif isinstance(val, ast.Call) and src(val.func) == 'numpy.linalg.norm' and len(val.args) == 1 and isinstance(val.args[0], ast.Name) and val.args[0].id in at:
                        at[tgt] = set(at[val.args[0].id])  # resnorm = norm(res)
                    else:
                        at.pop(tgt, None)
                elif k == 'HAND':
                    state, nexpr = e.data
                    inner = nexpr.args[0] if isinstance(nexpr, ast.Call) and src(nexpr.func) == 'numpy.linalg.norm' and len(nexpr.args) == 1 else nexpr
                    key = e.node.lineno
                    if isinstance(inner, ast.Name) and state in at.get(inner.id, ()):
                        true_sites.add(key)
                    elif isinstance(inner, ast.Name) and inner.id in at:
                        stale_sites[key] = (e.node, f'`{src(nexpr)}` is the residual assembled at {sorted(at[inner.id]) or "a state that has since been updated"}, handed out with the state `{state}`')
                    else:
                        model_sites[key] = (e.node, f'`{src(nexpr)}` is not the norm of a residual assembled at `{state}` (a linear model of the residual)')
        for key, (node, why) in stale_sites.items():
            nsites += 1
            rep.ob('R14.8', f.key, f.where(node), False, why + ': System.solve compares this norm with the tolerance, so it certifies a state whose residual was never evaluated', statement=f'residual-at-state@{_ordinal_line(f, node)}')
        for key, (node, why) in model_sites.items():
            nsites += 1
            rep.ob('R14.8', f.key, f.where(node), guard, why + '; the method refuses non-linear systems first, for which the model is exact' if guard else
                   why + ' and the method does not refuse non-linear systems (`if not system.is_linear: raise`): for a non-linear system one linearised step is reported as converged and System.solve returns it', statement=f'residual-model-guarded@{_ordinal_line(f, node)}')
        for key in true_sites - set(stale_sites) - set(model_sites):
            nsites += 1
        if true_sites:
            rep.ob('R14.8', f.key, f.where(), not stale_sites, f'{len(true_sites)} hand-out site(s) report the norm of the residual assembled at the state they hand out, on all {len(paths)} paths', statement='residual-at-state')
    if nmeth < 7 or nsites < 9:
        raise AnalysisError(f'R14.8: only {nmeth} method classes / {nsites} hand-out sites found in solver.py')


def _ordinal_line(f, node):
    ys = sorted({n.lineno for n in ast.walk(f.node) if isinstance(n, (ast.Yield, ast.Return))})
    return ys.index(node.lineno) if node.lineno in ys else node.lineno


def thorough_discovery(model, rep):
    '''Every function of solver.py and matrix/* that compares something with a tolerance.'''
    for key, f in sorted(model.functions.items()):
        if not (f.module.short == 'solver' or f.module.short.startswith('matrix')):
            continue
        if '<locals>' in f.qualname:
            continue
        terms = acceptance_terms(f.node)
        if not terms or key in GATES:
            continue
        rep.info(f'R14.1 proposer (not a gate, re-checked by Matrix._solver/System.solve): {key} compares {sorted(terms)} with a tolerance at {f.where()}')
        rep.unit('proposers', 1)


def check_prescribed_values(model, rep):
    """R14.10: System.deconstruct splits every trial argument into the entries that are solved for (x) and the stored argument `a`
    whose non-NaN entries are held fixed.  For a constraint given as a FLOAT array the fixed entries are the non-NaN VALUES of that
    array: on every path on which the constraint is present and not known to be boolean, the array stored back into `arguments` must
    have been computed from the values of the constraint - not merely from its NaN/boolean pattern (which would keep the initial guess
    where the caller prescribed a value: the solve converges and returns another solution)."""
    from sa.paths import PathEnumerator, Event
    f = model.func('solver:System.deconstruct')
    loops = [l for l in f.body if isinstance(l, ast.For)]
    if len(loops) != 1:
        raise AnalysisError('System.deconstruct: the loop over the trials was not found')
    lp = loops[0]
    gets = {}
    for s_ in lp.body:
        if isinstance(s_, ast.Assign) and isinstance(s_.targets[0], ast.Name) and isinstance(s_.value, ast.Call) and isinstance(s_.value.func, ast.Attribute) and s_.value.func.attr == 'get':
            gets[src(s_.value.func.value)] = s_.targets[0].id
    cn, an = gets.get('constrain'), gets.get('arguments')
    stores = [s_ for s_ in lp.body if isinstance(s_, ast.Assign) and isinstance(s_.targets[0], ast.Subscript) and src(s_.targets[0].value) == 'arguments']
    if cn is None or an is None or len(stores) != 1 or not isinstance(stores[0].value, ast.Name):
        raise AnalysisError('System.deconstruct: constrain.get / arguments.get / arguments[t] = a were not found')
    stored = stores[0].value.id

    def value_read(e):
        par = {}
        for n_ in ast.walk(e):
            for ch in ast.iter_child_nodes(n_):
                par[id(ch)] = n_
        for n_ in ast.walk(e):
            if isinstance(n_, ast.Name) and n_.id == cn and isinstance(n_.ctx, ast.Load):
                p_ = par.get(id(n_))
                if isinstance(p_, ast.Call) and src(p_.func) in ('numpy.isnan', 'numpy.isfinite', 'len') and n_ in p_.args:
                    continue
                if isinstance(p_, ast.UnaryOp) and isinstance(p_.op, (ast.Invert, ast.Not)):
                    continue
                if isinstance(p_, ast.Attribute) and p_.attr in ('dtype', 'shape', 'ndim', 'size'):
                    continue
                if isinstance(p_, ast.Compare):
                    continue
                return True
        return False

    def on_stmt(s_, st):
        evs = []
        if isinstance(s_, ast.Assign) and len(s_.targets) == 1:
            t = s_.targets[0]
            if isinstance(t, ast.Name) and t.id == stored:
                evs.append(Event('BIND', s_, value_read(s_.value) or (src(s_.value) == cn)))
            elif isinstance(t, ast.Subscript) and src(t.value) == stored and value_read(s_.value):
                evs.append(Event('FILL', s_))
            elif s_ is stores[0]:
                evs.append(Event('STORE', s_))
        return evs
    fn = ast.FunctionDef(name='body', args=f.node.args, body=lp.body, decorator_list=[], lineno=lp.lineno, col_offset=0)
    paths = PathEnumerator(fn, on_stmt=on_stmt).paths()
    n = 0
    bad = None
    for p_ in paths:
        i = p_.index(lambda e: e.kind == 'STORE')
        if i < 0:
            continue
        facts = {}
        for e in p_.events[:i]:
            if e.kind == 'cond':
                for node_, val in decompose(e.node, e.data[0]):
                    facts[src(node_)] = val
        if facts.get(f'{cn} is None') is not False or facts.get(f'{cn}.dtype == bool') is True:
            continue    # no constraint, or a boolean one (holds entries at the initial guess)
        n += 1
        carried = False
        for e in p_.events[:i]:
            if e.kind == 'BIND':
                carried = bool(e.data)
            elif e.kind == 'FILL':
                carried = True
        if not carried and bad is None:
            bad = facts
    if n < 2:
        raise AnalysisError(f'System.deconstruct: only {n} paths with a float constraint found')
    rep.ob('R14.10', f.key, f.where(stores[0]), bad is None, f'on all {n} paths with a float constraint the stored argument carries the prescribed values' if bad is None else
           f'on a path with a non-boolean constraint ({sorted(k for k in bad)[:4]}) the array stored into `arguments` was computed from the NaN pattern of `{cn}` only: the prescribed values are replaced by '
           'the initial guess, the solve converges and returns a solution of another problem', statement='prescribed-values-stored')


def run(model, rep, tier):
    rep.explanation = (
        'Static path analysis of the solver gates. R14.1: the functions System.solve, _with_solve.solve_withinfo and Matrix._solver '
        'are enumerated path by path (structural, flag-sensitive) under two abstract scenarios - every residual norm that is compared '
        'with a tolerance is NaN / is finite but above a positive tolerance - and no path may reach a normal return after such a norm was bound. '
        'R14.2: in Matrix._solver a non-finite solver result never reaches return, the residual is recomputed from rhs, matrix and result, and the '
        'only early return is the zero shortcut under rhsnorm<=atol. R14.3: failures of the backend solver / preconditioner construction leave as '
        'MatrixError on every path, solve_leniently swallows exactly ToleranceNotReached, System.step retries only on SolverError/MatrixError with '
        'a decreasing bound, System.solve rejects tol<=0 and enforces maxiter. R14.4: Matrix.solve stores into lhs only as lhs[~J]=constrain[~J] and '
        'lhs[J]+=..., with J the free-column mask; solve_constraints writes NaN exactly at mycons. R14.5: backend _solver_* methods are reached only '
        'through Matrix._solver. Decides these clauses (each a necessary condition of "certified or raise"), not convergence or conditioning.')
    rep.rule('R14.1', 'no acceptance gate can be passed by a NaN or unconverged residual norm (abstract path enumeration)')
    rep.rule('R14.2', 'Matrix._solver: finite check and recomputed-residual check dominate every return of a computed vector')
    rep.rule('R14.3', 'error taxonomy: backend failures become MatrixError; lenient/step handlers are exact and bounded')
    rep.rule('R14.4', 'constraint writes touch exactly the prescribed / free entries')
    rep.rule('R14.5', 'who-may-call: backend solvers only behind the residual gate')
    rep.rule('R14.6', 'sub-matrix and preconditioner caches are keyed on everything they depend on (= R15.6)')
    rep.rule('R14.8', 'the residual norm an iteration method reports belongs to the state it hands out; linear-model norms only for linear systems')
    rep.rule('R14.7', 'Topology.project never overwrites prescribed constraint values')
    for key in GATES:
        check_gate(model, rep, key)
    check_linear_gate(model, rep)
    check_getprecon(model, rep)
    check_lenient(model, rep)
    check_step(model, rep)
    check_solve_frontdoor(model, rep)
    check_constraint_writes(model, rep)
    check_who_may_call(model, rep)
    check_project_constraints(model, rep)
    check_residual_provenance(model, rep)
    rep.rule('R14.10', 'System.deconstruct stores the VALUES of a float constraint into the argument (not only its NaN pattern)')
    check_prescribed_values(model, rep)
    rep.rule('R14.9', 'the solver front ends never write into an array the caller passed (incl. what deconstruct hands back) (= R03.7)')
    from rules.c03 import check_solver_ownership, _Rename
    check_solver_ownership(model, _Rename(rep, {'R03.7': 'R14.9'}))
    from rules.c15 import check_base_operators
    check_base_operators(model, _Only(rep, {'R15.6': 'R14.6'}, keep=('submatrix-cache', 'precon-cache')))
    rep.rule('R14.11', 'every name loaded in solver.py resolves (symtable)')
    from rules import names as _names
    _names.check(model, rep, 'R14.11', ('solver',), 55)
    from rules import round4 as _r4
    rep.rule('R14.12', 'solve_constraints returns initial state + increment; block right-hand sides are reduced with the largest column norm; Direct uses the strict linear solve')
    _r4.check_constraint_update(model, rep, 'R14.12')
    _r4.check_column_norm_reduction(model, rep, 'R14.12')
    _r4.check_strict_linear_solve(model, rep, 'R14.12')
    rep.require('R14.1', 8)
    rep.require('R14.2', 3)
    rep.require('R14.3', 10)
    rep.require('R14.4', 10)
    if tier == 'thorough':
        thorough_discovery(model, rep)


class _Only:
    """Report proxy: file selected obligations of a shared rule under this property's rule id, drop the others."""

    def __init__(self, rep, mapping, keep):
        self._rep, self._map, self._keep = rep, mapping, keep

    def ob(self, rule, construct, where, ok, detail, statement=None, **extra):
        if statement in self._keep:
            return self._rep.ob(self._map.get(rule, rule), construct, where, ok, detail, statement=statement, **extra)

    def __getattr__(self, name):
        return getattr(self._rep, name)
