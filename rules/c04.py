'''C04 Symbolic derivatives equal the true derivatives - derivative tables only.

Decided: R04.1 each entry of every Pointwise.deriv table equals (in polynomial normal form) the
textbook partial derivative of the NumPy function the class emits; R04.2 the index patterns of the
matrix-calculus rules (Multiply, Power, Inverse, Determinant, Product, Legendre, TransformCoords, Polyval,
the Pointwise chain rule) equal the oracle patterns up to renaming of indices and operand order, with
their sign; R04.3 zero rules and the driver's memo/shape assertion; R04.4 linear structural nodes apply
their own operation to the derivative of their operand at the right axis (symbolic axis arithmetic).
Not decided: chain-rule plumbing through loops/Choose/Custom beyond these tables.
'''

import ast
import json
import os
from fractions import Fraction

from sa import AnalysisError
from sa.pattern import pmatch, pfind
from sa.boolnf import equivalent
from sa.astutil import dotted, src, stmt_text, params, find_stmts, calls_in, method_name, walk_no_nested, const, deep_resolved, if_branches, resolved_return
from sa.algebra import Poly, translate, Unsupported
from sa.einsum import canon

ORACLE = os.path.join(os.path.dirname(os.path.dirname(os.path.abspath(__file__))), 'oracles', 'calculus.json')

HELPERS = {'reciprocal': ('recip',), 'sqrt': ('sqrt',), 'astype': ('const',), 'Reciprocal': ('recip',), 'Sqrt': ('sqrt',)}


def emitted_function(cls_info):
    '''name of the numpy/numeric function a Pointwise class emits in _compile_expression, or an operator.'''
    mem = cls_info.members.get('_compile_expression')
    if mem is None or mem.func is None:
        return None
    rets = find_stmts(mem.func.body, lambda s: isinstance(s, ast.Return))
    if len(rets) != 1:
        return None
    t = src(rets[0].value)
    # _pyast.Variable('numpy').get_attr('sin').call(x)
    v = rets[0].value
    if isinstance(v, ast.Call) and isinstance(v.func, ast.Attribute) and v.func.attr == 'call':
        inner = v.func.value
        if isinstance(inner, ast.Call) and isinstance(inner.func, ast.Attribute) and inner.func.attr == 'get_attr' and isinstance(const(inner.args[0]), str):
            base = inner.func.value
            if isinstance(base, ast.Call) and src(base.func) == '_pyast.Variable' and const(base.args[0]) in ('numpy', 'numeric'):
                return const(inner.args[0])
    if isinstance(v, ast.Call) and src(v.func) == '_pyast.BinOp':
        return 'op' + str(const(v.args[1]))
    if isinstance(v, ast.Call) and src(v.func) == '_pyast.UnaryOp':
        return 'uop' + str(const(v.args[0]))
    return None


def n_dependencies(model, c):
    found = model.lookup(c, 'dependencies')
    if found is None:
        return None
    mem = found[1]
    if mem.func is not None:
        rets = find_stmts(mem.func.body, lambda s: isinstance(s, ast.Return))
        if len(rets) == 1 and isinstance(rets[0].value, ast.Tuple):
            return len(rets[0].value.elts)
    return None


def check_tables(model, rep, oracle):
    P = model.cls('evaluable:Pointwise')
    subs = model.subclasses(P, strict=True)
    emitted = {c.name: emitted_function(c) for c in subs}
    funcs = dict(HELPERS)
    for name, fn in emitted.items():
        if fn and not fn.startswith(('op', 'uop')):
            funcs[name] = ('fn', fn)
    # lower-case module wrappers: resolve `def sin(x): return Sin(x)` style is not needed; Sign is not Pointwise
    funcs['Sign'] = ('fn', 'sign')
    ofuncs = {k: ('fn', k) for k in ('sin', 'cos', 'tan', 'sinh', 'cosh', 'tanh', 'exp', 'log', 'sign', 'sinc', 'arcsin', 'arccos', 'arctan', 'arctanh', 'expm1', 'log1p', 'arcsinh', 'arccosh')}
    ofuncs['sqrt'] = ('sqrt',)
    ntab = 0
    for c in subs:
        mem = c.members.get('deriv')
        if mem is None or mem.kind not in ('value', 'alias', 'lambda'):
            continue
        val = mem.value if mem.kind != 'lambda' else mem.func.node
        entries = list(val.elts) if isinstance(val, ast.Tuple) else [val]
        fn = emitted.get(c.name)
        where = f'{c.module.relpath}:{mem.node.lineno}'
        key = f'evaluable:{c.name}.deriv'
        ntab += 1
        nd = n_dependencies(model, c)
        ok = nd == len(entries)
        rep.ob('R04.1', key, where, ok, f'one derivative per dependency ({len(entries)})' if ok else
               f'{c.name}.deriv has {len(entries)} entries for {nd} dependencies: zip() silently drops the derivative with respect to the others', statement='arity')
        want = oracle['derivatives'].get(fn)
        if want is None:
            # a function the textbook table does not list (a new operation): its derivative can be neither confirmed nor refuted - not a violation
            rep.info(f'R04.1 {key} ({where}): {c.name} emits `{fn}`, for which the calculus oracle (oracles/calculus.json) has no derivative: its deriv table is not decided')
            continue
        for i, e in enumerate(entries):
            if i >= len(want):
                break
            try:
                got = _entry_poly(e, funcs)
            except Unsupported as ex:
                rep.ob('R04.1', key, where, False, f'entry {i} `{src(e)[:60]}` cannot be put in normal form ({ex}); it is not one of the accepted spellings of d {fn}/d arg{i}', statement=f'entry {i}')
                continue
            alts = []
            for w in want[i]:
                env = {'x': Poly.atom('x'), 'y': Poly.atom('y'), 'n': Poly.atom('n')}
                alts.append(translate(ast.parse(w, mode='eval').body, env, ofuncs))
            ok = any(got == a for a in alts)
            rep.ob('R04.1', key, where, ok, f'd {fn}/d arg{i} = {got.canon()}' if ok else
                   f'{c.name}.deriv[{i}] = {got.canon()}, but d {fn}/d arg{i} = {alts[0].canon()}', statement=f'entry {i}')
    if ntab < 15:
        raise AnalysisError(f'only {ntab} deriv tables found')
    rep.unit('deriv_tables', ntab)
    # the emitted function of each class whose name promises a function
    promised = {'Sin': 'sin', 'Cos': 'cos', 'Tan': 'tan', 'ArcSin': 'arcsin', 'ArcCos': 'arccos', 'ArcTan': 'arctan', 'SinH': 'sinh', 'CosH': 'cosh', 'TanH': 'tanh', 'ArcTanH': 'arctanh',
                'Exp': 'exp', 'Log': 'log', 'ArcTan2': 'arctan2', 'Minimum': 'minimum', 'Maximum': 'maximum', 'Sinc': 'sinc', 'Reciprocal': 'reciprocal', 'Absolute': 'absolute'}
    for cname, fn in promised.items():
        c = model.classes.get(f'evaluable:{cname}')
        if c is None:
            raise AnalysisError(f'evaluable.{cname} not found')
        ok = emitted.get(cname) == fn
        rep.ob('R04.1', f'evaluable:{cname}._compile_expression', f'{c.module.relpath}:{c.node.lineno}', ok, f'{cname} emits numpy.{fn}' if ok else
               f'{cname} emits `{emitted.get(cname)}` instead of {fn}: value and derivative table no longer describe the same function', statement='emits')


def _entry_poly(e, funcs):
    if isinstance(e, ast.Lambda):
        names = [a.arg for a in e.args.args]
        env = {}
        for i, nme in enumerate(names):
            env[nme] = Poly.atom(nme if nme == 'n' else 'xy'[i] if i < 2 else nme)
        # x.dtype etc. only appear inside astype(c, x.dtype) which is read as the constant c
        return translate(e.body, env, funcs)
    if isinstance(e, ast.Name):
        how = funcs.get(e.id)
        if how and how[0] == 'fn':
            return Poly.atom(f'{how[1]}(x)')
    raise Unsupported(f'entry is neither a lambda nor a class name: {src(e)[:40]}')


def _norm_operand(t):
    t = t.replace(' ', '')
    if t.startswith('derivative(') and t.endswith(',var,seen)'):
        inner = t[len('derivative('):-len(',var,seen)')]
        return 'd(' + inner.replace('self.', '') + ')'
    return t


def einsum_terms(fn_node):
    '''[(sign, canonical pattern with operands sorted, operands)] for every einsum call in a function.'''
    assigns = {}
    for s in ast.walk(fn_node):
        if isinstance(s, ast.Assign) and len(s.targets) == 1 and isinstance(s.targets[0], ast.Name) and isinstance(s.value, ast.Call) and src(s.value.func) == 'derivative':
            assigns[s.targets[0].id] = src(s.value)
    neg = set()
    for n in ast.walk(fn_node):
        if isinstance(n, ast.UnaryOp) and isinstance(n.op, ast.USub) and isinstance(n.operand, ast.Call):
            neg.add(id(n.operand))
        if isinstance(n, ast.BinOp) and isinstance(n.op, ast.Sub) and isinstance(n.right, ast.Call):
            neg.add(id(n.right))
    out = []
    for c in ast.walk(fn_node):
        if isinstance(c, ast.Call) and src(c.func) == 'einsum' and c.args and isinstance(const(c.args[0]), str):
            fmt = const(c.args[0])
            # an operand that is a local bound once is read as what it was bound to: the rule is about the expression, not its name
            ops = [_norm_operand(assigns.get(src(a), src(deep_resolved(fn_node, a)))) for a in c.args[1:]]
            ins, outp = fmt.split('->')
            ins = ins.split(',')
            if len(ins) != len(ops):
                out.append(('?', fmt, ops, c))
                continue
            pairs = sorted(zip(ops, ins))
            pat = canon(','.join(i for _, i in pairs) + '->' + outp)
            out.append(('-' if id(c) in neg else '+', pat, [o for o, _ in pairs], c))
    return out


def einsum_groups(fn_node):
    """einsum terms grouped by the return statement (or generator) that adds them up: {return lineno: set of (sign, pattern, operands)}"""
    terms = einsum_terms(fn_node)
    groups = {}
    for s in ast.walk(fn_node):
        if isinstance(s, ast.Return) and s.value is not None:
            nested = {id(x) for _, _, _, c in terms for a in c.args for x in ast.walk(a)}     # an einsum that is an operand of another one is a factor, not a term
            inside = [(sg, p, tuple(o)) for sg, p, o, c in terms if any(x is c for x in ast.walk(s)) and id(c) not in nested]
            if inside:
                groups[s.lineno] = frozenset(inside)
    return groups


EINSUM_ORACLE = {
    'Inverse': [('-', 'Aij,AjkB,Akl->AilB', ['self', 'd(func)', 'self'])],
    'Determinant': [('+', 'A,Aji,AijB->AB', ['self', 'inverse(self.func)', 'd(func)'])],
    # the product of all OTHER factors: Product over (func repeated along a new axis, with the diagonal replaced by 1)
    'Product': [('+', 'Ai,AiB->AB', ['Product(insertaxis(self.func,-2,self.func.shape[-1])+Diagonalize(astype(1,self.func.dtype)-self.func))', 'd(func)'])],
    'Multiply': [('+', 'A,AB->AB', ['func1', 'd(func2)']), ('+', 'A,AB->AB', ['func2', 'd(func1)'])],
    'Legendre': [('+', 'Ai,ij->Aj', ['self', 'astype(d,self.dtype)']), ('+', 'Ai,AB->AiB', ["einsum('Ai,ij->Aj',self,astype(d,self.dtype))", 'd(x)'])],
    'TransformCoords': [('+', 'ij,AjB->AiB', ['TransformLinear(self.target,self.source,self.index)', 'd(coords)'])],
    'Polyval': [('+', 'ABi,AiD->ABD', ['Polyval(PolyGrad(self.coeffs,self.points_ndim),self.points)', 'd(points)'])],
    'Power': [('+', 'A,A,AB->AB', ['self.power', 'power(self.func,p)', 'd(func)']),
              ('+', 'A,A,AB->AB', ['self.power', 'power(self.func,self.power-astype(1,self.power.dtype))', 'd(func)']),
              ('+', 'A,A,AB->AB', ['ln(self.func)', 'self', 'd(power)'])],
    'Pointwise': [('+', 'A,AB->AB', ['deriv(*self.dependencies,*self.parameters)', 'd(arg)'])],
    'Holomorphic': [('+', 'A,AB->AB', ['deriv(*self.dependencies,*self.parameters)', 'd(arg)'])],
}


def check_einsum(model, rep):
    for cname, want in EINSUM_ORACLE.items():
        c = model.cls(f'evaluable:{cname}')
        mem = c.members.get('_derivative')
        if mem is None or mem.func is None:
            raise AnalysisError(f'{cname}._derivative not found')
        f = mem.func
        got = einsum_terms(f.node)
        wantc = []
        for sign, fmt, ops in want:
            ins, outp = fmt.split('->')
            pairs = sorted(zip([o.replace(' ', '') for o in ops], ins.split(',')))
            wantc.append((sign, canon(','.join(i for _, i in pairs) + '->' + outp), [o for o, _ in pairs]))
        gotc = [(s, p, o) for s, p, o, _ in got]
        for w in wantc:
            ok = w in gotc
            near = next((g for g in got if g[2] == w[2]), None)
            where = f.where(near[3]) if near else f.where()
            rep.ob('R04.2', f.key, where, ok, f'{w[0]}einsum {w[1]} over {w[2]} as matrix calculus dictates' if ok else
                   (f'the rule uses {near[0]}einsum `{const(near[3].args[0])}` over {near[2]}; matrix calculus gives {w[0]}`{w[1]}` (up to renaming): an index is transposed/contracted wrongly or the sign is lost' if near else
                    f'the term {w[0]}einsum {w[1]} over {w[2]} is missing from {cname}._derivative'), statement=f'term {w[2]}')
        extra = [g for g in gotc if g not in wantc]
        for g in extra:
            if any(g[2] == w[2] for w in wantc):
                continue  # already reported as a wrong pattern
            rep.ob('R04.2', f.key, f.where(), False, f'unexpected extra term {g[0]}einsum {g[1]} over {g[2]} in {cname}._derivative', statement=f'extra {g[2]}')
    # terms of one rule must be ADDED in one return expression (a case split that returns them separately drops a term)
    GROUPS = {'Power': [1, 2], 'Multiply': [2], 'Legendre': [1]}
    for cname, sizes in GROUPS.items():
        f = model.cls(f'evaluable:{cname}').members['_derivative'].func
        got = sorted(len(g) for g in einsum_groups(f.node).values())
        ok = got == sorted(sizes)
        rep.ob('R04.2', f.key, f.where(), ok, f'the terms of the {cname} rule are summed in one expression per branch ({sizes})' if ok else
               f'{cname}._derivative returns its einsum terms in groups of {got} instead of {sorted(sizes)}: a branch returns one term of the sum/product rule without the other', statement='terms-summed-together')
    # Power: constant-exponent branch decrements non-zero exponents only; Pointwise sums over zip(dependencies, deriv)
    p = model.cls('evaluable:Power').members['_derivative'].func
    txt = src(p.node)
    ok = 'p = self.power.value.copy()' in txt and 'p -= p != 0' in txt and 'isinstance(self.power, Constant)' in txt
    rep.ob('R04.2', p.key, p.where(), ok, 'constant exponents are decremented by one (zero exponents excluded)' if ok else 'the exponent decrement of the constant-power branch changed', statement='power-decrement')
    for cname in ('Pointwise', 'Holomorphic'):
        f = model.cls(f'evaluable:{cname}').members['_derivative'].func
        ok = 'for arg, deriv in zip(self.dependencies, self.deriv)' in src(f.node) and 'util.sum(' in src(f.node)
        rep.ob('R04.2', f.key, f.where(), ok, 'chain rule sums over all (dependency, partial derivative) pairs' if ok else 'the chain rule no longer sums over zip(self.dependencies, self.deriv)', statement='chain-rule-sum')


# R04.4: linear structural rules.  k = func.ndim - self.ndim
LINEAR = {
    'InsertAxis': ('insertaxis', ['D:func', 'n-1', 'self.length'], -1),
    'Sum': ('sum', ['D:func', 'n'], 1),
    'TakeDiag': ('takediag', ['D:func', 'n-1', 'n'], 1),
    'Diagonalize': ('diagonalize', ['D:func', 'n-2', 'n-1'], -1),
    'Ravel': ('ravel', ['D:func', 'axis=n-1'], 1),
    'Unravel': ('unravel', ['D:func', 'axis=n-2', 'shape=self.shape[-2:]'], -1),
    'Inflate': ('_inflate', ['D:func', 'self.dofmap', 'self.length', 'n-1'], None),
    'Take': ('_take', ['D:func', 'self.indices', 'm-1'], None),
    'LoopSum': ('loop_sum', ['D:func', 'self.index'], 0),
    'Guard': ('Guard', ['D:fun'], 0),
    'FloatToComplex': ('FloatToComplex', ['D:arg'], 0),
}


def _axis_value(e, k):
    '''linear form a*n + b*m + c of an axis expression; n = self.ndim, m = self.func.ndim'''
    t = src(e)
    if t == 'self.ndim':
        return (1, 0, 0)
    if t == 'self.func.ndim':
        return (0, 1, 0) if k is None else (1, 0, k)
    c = const(e)
    if isinstance(c, int):
        return (0, 0, c)
    if isinstance(e, ast.BinOp) and isinstance(e.op, (ast.Add, ast.Sub)):
        a, b = _axis_value(e.left, k), _axis_value(e.right, k)
        if a is None or b is None:
            return None
        s = 1 if isinstance(e.op, ast.Add) else -1
        return tuple(x + s * y for x, y in zip(a, b))
    return None


def _want_value(t):
    t = t.replace(' ', '')
    v = [0, 0, 0]
    import re
    for sign, tok in re.findall(r'([+-]?)([nm]|\d+)', t):
        s = -1 if sign == '-' else 1
        if tok == 'n':
            v[0] += s
        elif tok == 'm':
            v[1] += s
        else:
            v[2] += s * int(tok)
    return tuple(v)


def check_linear(model, rep):
    for cname, (callee, args, k) in LINEAR.items():
        c = model.cls(f'evaluable:{cname}')
        mem = c.members.get('_derivative')
        if mem is None or mem.func is None:
            raise AnalysisError(f'{cname}._derivative not found')
        f = mem.func
        rets = find_stmts(f.body, lambda s: isinstance(s, ast.Return))
        r = rets[-1].value if rets else None
        ok = isinstance(r, ast.Call) and src(r.func) == callee
        problems = []
        if ok:
            given = [(None, a) for a in r.args] + [(kw.arg, kw.value) for kw in r.keywords]
            if len(given) != len(args):
                problems.append(f'{len(given)} arguments instead of {len(args)}')
            for (kwname, g), w in zip(given, args):
                wname, _, wval = w.rpartition('=')
                if wname and kwname not in (wname, None):
                    problems.append(f'keyword {kwname} instead of {wname}')
                if wval.startswith('D:'):
                    if src(g).replace(' ', '') != f'derivative(self.{wval[2:]},var,seen)':
                        problems.append(f'`{src(g)[:40]}` is not the derivative of self.{wval[2:]}')
                elif wval.startswith('self.'):
                    if src(g) != wval:
                        problems.append(f'`{src(g)}` instead of `{wval}`')
                else:
                    got = _axis_value(g, k)
                    want = _want_value(wval)
                    if k is not None and want[1]:
                        want = (want[0] + want[1], 0, want[2] + want[1] * k)
                    if got is None:
                        problems.append(f'axis `{src(g)}` cannot be evaluated')
                    elif got != want:
                        problems.append(f'axis `{src(g)}` is not {wval} (n = self.ndim, m = self.func.ndim): the operation is applied to the wrong axis of the derivative')
        else:
            problems.append(f'does not return {callee}(derivative of the operand, ...)')
        rep.ob('R04.4', f.key, f.where(), not problems, f'd {cname} = {callee}(d operand) at the operation\'s own axis' if not problems else f'{cname}._derivative: {problems[0]}', statement='linear-rule')
    # a few fixed-shape ones
    t = model.cls('evaluable:Transpose').members['_derivative'].func
    def segments(e):
        # a sequence written as a concatenation / star-unpacking, as the list of its parts
        if isinstance(e, ast.BinOp) and isinstance(e.op, ast.Add):
            return segments(e.left) + segments(e.right)
        if isinstance(e, (ast.Tuple, ast.List)):
            out = []
            for x in e.elts:
                out += segments(x.value) if isinstance(x, ast.Starred) else [('item', src(x))]
            return out
        if isinstance(e, ast.Call) and src(e.func) in ('tuple', 'list') and len(e.args) == 1:
            return segments(e.args[0])
        return [src(e).replace(' ', '')]
    m = pmatch('transpose(derivative(self.func, var, seen), P_)', resolved_return(t.node))
    ok = m is not None and segments(m['P_']) in (['self.axes', 'range(self.ndim,self.ndim+var.ndim)'], ['self.axes', 'range(self.ndim,var.ndim+self.ndim)'])
    rep.ob('R04.4', t.key, t.where(), ok, 'the derivative axes stay behind the transposed ones' if ok else 'Transpose._derivative no longer appends the identity permutation of the derivative axes', statement='transpose-rule')
    a = model.cls('evaluable:Add').members['_derivative'].func
    ok = 'add(*[derivative(f, var, seen) for f in self._terms])' in src(a.node)
    rep.ob('R04.4', a.key, a.where(), ok, 'the derivative of a sum is the sum of the derivatives of all terms', statement='add-rule')
    lc = model.cls('evaluable:LoopConcatenate').members['_derivative'].func
    ok = src(find_stmts(lc.body, lambda s: isinstance(s, ast.Return))[-1].value).replace(' ', '') == 'Transpose.from_end(loop_concatenate(Transpose.to_end(derivative(self.func,var,seen),self.ndim-1),self.index),self.ndim-1)'
    rep.ob('R04.4', lc.key, lc.where(), ok, 'loop concatenation differentiates the concatenated axis in place', statement='loopconcatenate-rule')
    ch = model.cls('evaluable:Choose').members['_derivative'].func
    ok = src(find_stmts(ch.body, lambda s: isinstance(s, ast.Return))[-1].value).replace(' ', '') == 'Choose(appendaxes(self.index,var.shape),Transpose.to_end(derivative(self.choices,var,seen),self.ndim))'
    rep.ob('R04.4', ch.key, ch.where(), ok, 'the choice axis is moved back to the end after differentiating the choices', statement='choose-rule')


def check_accumulation(model, rep):
    """R04.5: a derivative that is accumulated over the arguments/terms of a node (initialised with Zeros before a loop, returned after it)
    must be updated with `+=` (or mention itself on the right-hand side) inside the loop - an overwrite keeps only the last contribution."""
    n = 0
    for f in model.functions.values():
        if f.name != '_derivative' or isinstance(f.node, ast.Lambda) or f.module.short not in ('evaluable', 'function'):
            continue
        inits = {}
        for s in f.body:
            if isinstance(s, ast.Assign) and isinstance(s.targets[0], ast.Name) and isinstance(s.value, ast.Call) and src(s.value.func).rsplit('.', 1)[-1] in ('Zeros', 'zeros', 'zeros_like'):
                inits[s.targets[0].id] = s
        rets = {src(r.value) for r in find_stmts(f.body, lambda s: isinstance(s, ast.Return)) if r.value is not None}
        for name, init in inits.items():
            if name not in rets:
                continue
            loops = [l for l in f.body if isinstance(l, (ast.For, ast.While)) and l.lineno > init.lineno]
            for l in loops:
                for s in ast.walk(l):
                    if isinstance(s, ast.Assign) and any(isinstance(t, ast.Name) and t.id == name for t in s.targets):
                        n += 1
                        ok = any(isinstance(x, ast.Name) and x.id == name for x in ast.walk(s.value))
                        rep.ob('R04.5', f.key, f.where(s), ok, f'`{name}` keeps its previous contributions' if ok else
                               f'`{stmt_text(s)[:70]}` overwrites the accumulator `{name}` inside the loop over the arguments: only the last contribution to the chain rule survives', statement=f'accumulate {name}')
                    elif isinstance(s, ast.AugAssign) and isinstance(s.target, ast.Name) and s.target.id == name:
                        n += 1
                        ok = isinstance(s.op, ast.Add)
                        rep.ob('R04.5', f.key, f.where(s), ok, f'contributions are added to `{name}`' if ok else f'`{stmt_text(s)[:60]}` does not add the contribution', statement=f'accumulate {name}')
    if n < 2:
        raise AnalysisError(f'only {n} accumulated derivatives found (expected _CustomEvaluable._derivative and Monomial._derivative)')


def check_zero_rules(model, rep):
    d = model.func('evaluable:derivative')
    txt = src(d.node)
    first = [s for s in d.body if isinstance(s, ast.If)]
    ok = bool(first) and 'var.dtype in (bool, int)' in src(first[0].test) and 'var not in func.arguments' in src(first[0].test) and 'Zeros(func.shape + var.shape, dtype=func.dtype)' in src(first[0])
    rep.ob('R04.3', d.key, d.where(), ok, 'derivatives to integer/boolean targets or to targets the expression does not depend on are identically zero' if ok else
           'the zero shortcut of derivative() changed', statement='driver-zero')
    # whichever way round the lookup is written: a hit takes the stored result, a miss computes it with the node's rule and stores it
    ok = False
    for i_ in [s_ for s_ in d.body if isinstance(s_, ast.If)]:
        t_, f_ = if_branches(d.body, i_)
        if equivalent(i_.test, 'func in seen'):
            hit, miss = t_, f_
        elif equivalent(i_.test, 'func not in seen'):
            hit, miss = f_, t_
        else:
            continue
        ok = any(src(x) == 'result = seen[func]' for x in hit) and any(isinstance(x, ast.Assign) and src(x.targets[0]) == 'result' and '_derivative(var, seen)' in src(x.value) for x in miss) \
            and any(src(x) == 'seen[func] = result' for x in miss)
    rep.ob('R04.3', d.key, d.where(), ok, 'shared subterms are differentiated once (memo keyed on the node)', statement='driver-memo')
    ok = '_any_certainly_different(result.shape, func.shape + var.shape)' in txt and 'result.dtype == func.dtype' in txt
    rep.ob('R04.3', d.key, d.where(), ok, 'every rule result is asserted to have shape func.shape+var.shape and the dtype of func' if ok else 'the shape/dtype assertion of derivative() is gone', statement='driver-assert')
    a = model.cls('evaluable:Array').members['_derivative'].func
    ok = 'self.dtype in (bool, int) or var not in self.arguments' in src(a.node) and 'Zeros(self.shape + var.shape, dtype=self.dtype)' in src(a.node) and 'raise NotImplementedError' in src(a.node)
    rep.ob('R04.3', a.key, a.where(), ok, 'nodes without a rule are zero for int/bool data and otherwise refuse (NotImplementedError) rather than guess' if ok else 'the default _derivative changed', statement='default-rule')
    for cname in ('IntToFloat', 'Sign'):
        f = model.cls(f'evaluable:{cname}').members['_derivative'].func
        ok = src(find_stmts(f.body, lambda s: isinstance(s, ast.Return))[-1].value) == 'Zeros(self.shape + var.shape, dtype=self.dtype)'
        rep.ob('R04.3', f.key, f.where(), ok, f'{cname} is piecewise constant: zero derivative', statement='zero-rule')
    w = model.cls('evaluable:WithDerivative').members['_derivative'].func
    ifs = [s for s in w.body if isinstance(s, ast.If)]
    ok = len(ifs) == 1 and src(ifs[0].test) in ('var == self.var', 'self.var == var', 'var is self.var') and src(ifs[0].body[0]) == 'return self.derivative' and 'derivative(self.func, var, seen)' in src(ifs[0].orelse[0])
    rep.ob('R04.3', w.key, w.where(), ok, 'the stored derivative is used only for its own target' if ok else 'WithDerivative returns its stored derivative for other targets too', statement='withderivative')
    ar = model.cls('evaluable:Argument').members['_derivative'].func
    txt = src(ar.node)
    ok = 'isinstance(var, Argument) and var.name == self.name and (self.dtype in (float, complex))' in txt and 'diagonalize(result, i, i + self.ndim)' in txt and 'zeros(self.shape + var.shape)' in txt
    rep.ob('R04.3', ar.key, ar.where(), ok, 'd arg/d arg is the identity (one diagonalize per axis), zero for other arguments' if ok else 'Argument._derivative changed', statement='argument-identity')


def check_memo_discipline(model, rep):
    """R04.7: the memo `seen` of evaluable.derivative maps a node to its derivative with respect to ONE target.  It may therefore only be
    handed on by a `_derivative(self, var, seen)` rule, together with that rule's own `var`; any other caller starts without a memo.
    A dictionary shared between two targets returns the derivative to the first target for the second."""
    n = 0
    for f in model.functions.values():
        if isinstance(f.node, ast.Lambda) or not f.module.short.split('.')[0] in ('evaluable', 'function', 'sample', 'solver', 'topology'):
            continue
        for c in calls_in(f.node, nested=False):
            if method_name(c) != 'derivative' or src(c.func) not in ('derivative', 'evaluable.derivative'):
                continue
            memo = c.args[2] if len(c.args) >= 3 else next((k.value for k in c.keywords if k.arg == 'seen'), None)
            if memo is None:
                continue
            n += 1
            pos = params(f.node)[0]
            ok = f.name == '_derivative' and pos[:3] == ['self', 'var', 'seen'] and isinstance(memo, ast.Name) and memo.id == 'seen' and len(c.args) >= 2 and isinstance(c.args[1], ast.Name) and c.args[1].id == 'var'
            if ok:
                # the rule's own memo and target must not have been rebound
                ok = not any(isinstance(a, (ast.Assign, ast.AugAssign)) and any(isinstance(t, ast.Name) and t.id in ('seen', 'var') for t in ast.walk(a)) and not isinstance(a, ast.AugAssign) and any(isinstance(t, ast.Name) and t.id in ('seen', 'var') for tt in a.targets for t in ast.walk(tt)) for a in ast.walk(f.node) if isinstance(a, ast.Assign))
            rep.ob('R04.7', f.key, f.where(c), ok, 'the memo is handed on by a _derivative rule together with its own target' if ok else
                   f'`{src(c)[:70]}` passes a memo to evaluable.derivative outside a `_derivative(self, var, seen)` rule (or with another target than the rule\'s own): the memo is keyed by node only, so a second target '
                   'is served the derivative with respect to the first', statement='memo-per-target')
    if n < 30:
        raise AnalysisError(f'only {n} calls of derivative(..., seen) found')


# returns of a derivative rule that legitimately leave out the contribution of an operand, with the fact that licenses it (confirmed by reading)
PARTIAL_OK = {
    ('Power', frozenset({'self.power'})): 'isinstance(self.power, Constant)',                       # a constant exponent has no derivative
    ('Orthonormal', frozenset({'self.vector'})): '_certainly_equal(G.shape[-1], G.shape[-2] - 1)',  # n-1 basis vectors determine the unit normal
}


def check_sum_rule_complete(model, rep):
    """R04.9: a derivative rule with several differentiable operands returns the SUM of the contributions of all of them.  For every
    `_derivative(self, var, seen)` that differentiates two or more operands, each return that contains a derivative contains the
    derivative of every operand (locals resolved), unless the branch is one of the licensed special cases above.  A case split that
    returns the contribution of one operand without the other drops a term whenever both depend on the target."""
    from sa.guards import facts_at
    n = 0
    for k, f in sorted(model.functions.items()):
        if f.name != '_derivative' or isinstance(f.node, ast.Lambda) or f.cls is None or f.module.short not in ('evaluable', 'function'):
            continue

        def ops(node):
            return {src(deep_resolved(f.node, c.args[0])).replace(' ', '') for c in ast.walk(node) if isinstance(c, ast.Call) and src(c.func) in ('derivative', 'evaluable.derivative') and len(c.args) == 3}
        rets = find_stmts(f.body, lambda s_: isinstance(s_, ast.Return) and s_.value is not None)
        per = [(r, ops(deep_resolved(f.node, r.value))) for r in rets]
        D = set().union(*[R for _, R in per]) if per else set()
        if len(D) < 2:
            continue
        for r, R in per:
            if not R:
                continue
            n += 1
            missing = D - R
            if not missing:
                rep.ob('R04.9', f.key, f.where(r), True, f'{f.cls.name}: the return sums the contributions of {sorted(D)}', statement=f'complete {sorted(R)}')
                continue
            lic = PARTIAL_OK.get((f.cls.name, frozenset(missing)))
            facts = facts_at(f.node, lambda s_, r=r: s_ is r)
            ok = lic is not None and any(src(nd) == lic and v for nd, v in facts.facts.values())
            rep.ob('R04.9', f.key, f.where(r), ok, f'{f.cls.name}: the contribution of {sorted(missing)} is left out only under `{lic}`' if ok else
                   f'{f.cls.name}._derivative returns `{src(r.value)[:60]}` with the contribution of {sorted(R)} but without that of {sorted(missing)}: when both depend on the target the derivative '
                   'silently lacks a term (same shape and dtype, wrong numbers)', statement=f'partial {sorted(missing)}')
    if n < 6:
        raise AnalysisError(f'R04.9: only {n} multi-operand derivative returns found')


KINDS = {'bool': bool, 'int': int, 'float': float, 'complex': complex}


def _dtype_true_kinds(test):
    """For a test on `<X>.dtype` (==, !=, in, not in with bool/int/float/complex): (X text, set of kinds for which it is true); else None."""
    if not (isinstance(test, ast.Compare) and len(test.ops) == 1 and isinstance(test.left, ast.Attribute) and test.left.attr == 'dtype'):
        return None
    rhs = test.comparators[0]
    names = [src(e) for e in rhs.elts] if isinstance(rhs, (ast.Tuple, ast.List, ast.Set)) else [src(rhs)]
    if not all(n_ in KINDS for n_ in names):
        return None
    op = test.ops[0]
    if isinstance(op, (ast.Eq, ast.In, ast.Is)):
        true = set(names)
    elif isinstance(op, (ast.NotEq, ast.NotIn, ast.IsNot)):
        true = set(KINDS) - set(names)
    else:
        return None
    return src(test.left.value), true


def check_zero_derivative_kinds(model, rep):
    """R04.8: a derivative rule may treat an operand (or itself) as not differentiable - skip its contribution or return zeros - only for
    boolean and integer data.  Every dtype test in a _derivative/derivative function that leads to `continue`, to Zeros(...) or to the
    base-class zero derivative must be true for bool/int at most; a test such as `dtype != float` also drops complex operands."""
    n = 0
    for k, f in sorted(model.functions.items()):
        if f.name not in ('_derivative', 'derivative') or isinstance(f.node, ast.Lambda) or f.module.short not in ('evaluable', 'function'):
            continue
        def is_zero(b):
            return isinstance(b, ast.Continue) or (isinstance(b, ast.Return) and b.value is not None and
                                                   (src(b.value).startswith(('Zeros(', 'evaluable.Zeros(', 'zeros(', 'super()._derivative('))))
        last_in_loop = {id(l.body[-1]) for l in ast.walk(f.node) if isinstance(l, (ast.For, ast.While)) and l.body}
        for s_ in ast.walk(f.node):
            if not isinstance(s_, ast.If) or not s_.body:
                continue
            # the condition under which the contribution is skipped, as a list of disjuncts (text, kinds for which it is true):
            # the test itself when the zero branch comes first; its negation when the zero branch is the else branch or - for a
            # conditional that ends a loop body - the implicit continue
            if is_zero(s_.body[0]):
                parts = s_.test.values if isinstance(s_.test, ast.BoolOp) and isinstance(s_.test.op, ast.Or) else [s_.test]
                negate = False
            elif (s_.orelse and is_zero(s_.orelse[0])) or (not s_.orelse and id(s_) in last_in_loop):
                parts = s_.test.values if isinstance(s_.test, ast.BoolOp) and isinstance(s_.test.op, ast.And) else [s_.test]
                negate = True
            else:
                continue
            for d in parts:
                r = _dtype_true_kinds(d)
                if r is None:
                    continue
                n += 1
                who, kinds = r
                if negate:
                    kinds = set(KINDS) - kinds
                ok = kinds <= {'bool', 'int'}
                shown = f'not ({src(d)})' if negate else src(d)
                rep.ob('R04.8', f.key, f.where(s_), ok, f'`{shown}` declares only boolean/integer data non-differentiable' if ok else
                       f'`{shown}` treats {sorted(kinds - {"bool", "int"})} data of `{who}` as not differentiable: its contribution is skipped / the derivative is zero although the operand is '
                       'a differentiable (complex or float) array - the derivative silently lacks a term', statement=f'zero-derivative kinds {who}')
    if n < 4:
        raise AnalysisError(f'R04.8: only {n} dtype tests leading to a zero derivative found')


def run(model, rep, tier):
    with open(ORACLE) as f:
        oracle = json.load(f)
    rep.explanation = (
        'R04.1: for each of the Pointwise classes with a `deriv` table, the NumPy function the class emits is read from _compile_expression, every deriv entry (a lambda over nutils constructors) is translated to a '
        'polynomial normal form with rational exponents (algebraic value numbering) and compared with the normal form of the textbook partial derivative in oracles/calculus.json; the number of entries equals the '
        'number of dependencies; each class emits the function its name promises. R04.2: the einsum index patterns of Multiply, Power (both branches), Inverse, Determinant, Product, Legendre, TransformCoords, '
        'Polyval and the Pointwise chain rule are compared up to renaming of indices and operand order, together with their sign, with the matrix-calculus patterns. R04.3: zero rules and the driver\'s memo and '
        'shape/dtype assertion. R04.4: linear structural nodes (InsertAxis, Sum, TakeDiag, Diagonalize, Ravel, Unravel, Inflate, Take, LoopSum, Transpose, Add, LoopConcatenate, Choose, Guard) apply their own '
        'operation to the derivative of their operand with the axis evaluated symbolically in n = self.ndim. A wrong table entry is a wrong derivative for every input; what is NOT decided is the plumbing of '
        'differentiation through loops, Custom and user-defined operations, and numerical accuracy.')
    rep.rule('R04.1', 'pointwise derivative tables equal the textbook derivatives (normal-form comparison)')
    rep.rule('R04.2', 'einsum patterns of the matrix-calculus rules (up to renaming), with sign')
    rep.rule('R04.3', 'zero rules, memo and assertion of the driver')
    rep.rule('R04.4', 'linear structural rules act on the right axis of the derivative')
    rep.rule('R04.5', 'derivatives accumulated over arguments are added, not overwritten')
    rep.rule('R04.7', 'the derivative memo is only handed on by _derivative rules, with their own target (one memo per target)')
    rep.rule('R04.6', 'Monomial._derivative ravels the argument multi-index row-major (= R13.7, symbolic execution)')
    rep.trusted_base.append('oracles/calculus.json (textbook calculus)')
    check_tables(model, rep, oracle)
    check_einsum(model, rep)
    check_zero_rules(model, rep)
    check_linear(model, rep)
    check_accumulation(model, rep)
    check_memo_discipline(model, rep)
    rep.rule('R04.9', 'a derivative rule with several operands returns the sum of ALL contributions on every returning branch (licensed special cases tabled)')
    check_sum_rule_complete(model, rep)
    rep.rule('R04.8', 'only boolean and integer data are treated as not differentiable (dtype tests leading to continue / Zeros / base-class zero)')
    check_zero_derivative_kinds(model, rep)
    from rules.c13 import check_monomial_ravel
    check_monomial_ravel(model, rep, rule='R04.6')
    from rules import round4 as _r4
    rep.rule('R04.10', 'lower() never simplifies (derivative wrappers survive); the root-coordinate derivative of a non-square map is the left inverse (L^T L)^-1 L^T')
    _r4.check_lower_does_not_simplify(model, rep, 'R04.10')
    _r4.check_pseudo_inverse(model, rep, 'R04.10')
    rep.require('R04.1', 50)
    rep.require('R04.2', 16)
    rep.require('R04.3', 8)
    rep.require('R04.4', 14)
