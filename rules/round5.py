'''Rules written after reading the fifth round of seeded changes (each wired into the property check it belongs to).'''

import ast

from sa import AnalysisError
from sa.astutil import src, calls_in, method_name, find_stmts, const


def _decorators(fn):
    return [src(d.func) if isinstance(d, ast.Call) else src(d) for d in fn.decorator_list]


def check_hash_not_memoised(model, rep, rule):
    """nutils_hash separates values that Python's == conflates (1, 1.0, True, 1+0j; 0.0 and -0.0; tuples of them), so neither it nor a function it
    delegates to may be memoised by an equality-keyed cache (functools.lru_cache / functools.cache / the module's own lru_cache)."""
    m = model.modules['types']
    f = model.func('types:nutils_hash')
    MEMO = ('functools.lru_cache', 'functools.cache', 'lru_cache', 'cache', 'functools.cached_property')
    todo, seen, bad = [f.node], set(), None
    while todo:
        fn = todo.pop()
        if id(fn) in seen:
            continue
        seen.add(id(fn))
        hit = [d for d in _decorators(fn) if d in MEMO]
        if hit and bad is None:
            bad = (fn, f'`{fn.name}` is decorated with {hit[0]}')
        for c in ast.walk(fn):
            if isinstance(c, ast.Call):
                if isinstance(c.func, ast.Name):
                    for d in m.tree.body:
                        if isinstance(d, ast.FunctionDef) and d.name == c.func.id:
                            todo.append(d)
                    # f = functools.lru_cache(...)(g) bound at module level
                    for d in m.tree.body:
                        if isinstance(d, ast.Assign) and any(isinstance(t, ast.Name) and t.id == c.func.id for t in d.targets) and isinstance(d.value, ast.Call):
                            inner = d.value.func
                            txt = src(inner.func) if isinstance(inner, ast.Call) else src(inner)
                            if txt in MEMO and bad is None:
                                bad = (d, f'`{c.func.id}` is {txt}(...) of a hashing function')
    ok = bad is None
    rep.ob(rule, f.key, f.where(bad[0]) if bad else f.where(), ok, 'nutils_hash and the functions it delegates to are not memoised by Python equality' if ok else
           f'{bad[1]}: the memo is keyed by == / hash(), which identifies 1, 1.0 and True (and tuples of them), so values that nutils_hash must separate get the hash of whichever was seen first',
           statement='hash-not-memoised')


def check_dataclass_fields_all(model, rep, rule):
    """The dataclass branch of nutils_hash feeds EVERY field: fields excluded from the builtin hash (hash=False / compare=False) still distinguish behaviour."""
    f = model.func('types:nutils_hash')
    n = 0
    bad = None
    binds = {}
    for s_ in ast.walk(f.node):
        if isinstance(s_, ast.Assign) and len(s_.targets) == 1 and isinstance(s_.targets[0], ast.Name):
            binds.setdefault(s_.targets[0].id, []).append(s_.value)

    def is_fields(e, depth=0):
        if isinstance(e, ast.Call) and src(e.func) == 'dataclasses.fields':
            return True
        if isinstance(e, ast.Name) and depth < 3:
            return any(comp_over_fields(v, depth + 1) or is_fields(v, depth + 1) for v in binds.get(e.id, []))
        return False

    def comp_over_fields(e, depth=0):
        nonlocal bad, n
        if isinstance(e, (ast.ListComp, ast.GeneratorExp, ast.SetComp)) and any(is_fields(g.iter, depth) for g in e.generators):
            return True
        if isinstance(e, ast.Call) and src(e.func) in ('list', 'tuple', 'sorted') and e.args:
            return comp_over_fields(e.args[0], depth)
        return False
    for c in ast.walk(f.node):
        if isinstance(c, (ast.ListComp, ast.GeneratorExp, ast.SetComp, ast.DictComp)):
            for g in c.generators:
                if is_fields(g.iter):
                    n += 1
                    if g.ifs and bad is None:
                        bad = (c, f'`if {src(g.ifs[0])[:60]}`')
        elif isinstance(c, ast.For) and is_fields(c.iter):
            n += 1
            skip = [x for x in ast.walk(c) if isinstance(x, ast.Continue)]
            if skip and bad is None:
                bad = (c, 'a `continue` in the loop over the fields')
    if n == 0:
        raise AnalysisError('nutils_hash: the iteration over dataclasses.fields(...) was not found')
    ok = bad is None
    rep.ob(rule, f.key, f.where(bad[0]) if bad else f.where(), ok, 'the dataclass branch feeds every field' if ok else
           f'the dataclass branch leaves fields out ({bad[1]}): two instances that differ only in such a field - and can behave differently - share a hash', statement='dataclass-all-fields')


def _set_typed(fn, e, depth=0):
    if isinstance(e, (ast.Set, ast.SetComp)):
        return True
    if isinstance(e, ast.Call) and src(e.func) in ('set', 'frozenset'):
        return True
    if isinstance(e, ast.BinOp) and isinstance(e.op, (ast.BitAnd, ast.BitOr, ast.Sub, ast.BitXor)):
        return _set_typed(fn, e.left, depth) or _set_typed(fn, e.right, depth)
    if isinstance(e, ast.Call) and isinstance(e.func, ast.Attribute) and e.func.attr in ('intersection', 'union', 'difference', 'symmetric_difference'):
        return True
    if isinstance(e, ast.Name) and depth < 3:
        vals = [s_.value for s_ in ast.walk(fn) if isinstance(s_, ast.Assign) and len(s_.targets) == 1 and isinstance(s_.targets[0], ast.Name) and s_.targets[0].id == e.id]
        return bool(vals) and all(_set_typed(fn, v, depth + 1) for v in vals)
    return False


def check_fresh_ids_in_order(model, rep, rule):
    """Fresh identifiers drawn from a counter (`next(fresh)`) are handed out in a reproducible order: the iteration that draws them runs over sorted(...) of a set,
    never over the set itself (its order depends on PYTHONHASHSEED for string-hashed members, and with it the structure and hash of the result)."""
    n = 0
    for key in ('evaluable:disjoint_loop_ids',):
        f = model.func(key)
        for c in ast.walk(f.node):
            iters = []
            if isinstance(c, (ast.ListComp, ast.GeneratorExp, ast.SetComp, ast.DictComp)):
                body = [c.key, c.value] if isinstance(c, ast.DictComp) else [c.elt]
                if any(isinstance(x, ast.Call) and src(x.func) == 'next' for b in body for x in ast.walk(b)):
                    iters = [g.iter for g in c.generators]
            elif isinstance(c, ast.For) and any(isinstance(x, ast.Call) and src(x.func) == 'next' for b in c.body for x in ast.walk(b)):
                iters = [c.iter]
            for it in iters:
                if isinstance(it, ast.Call) and src(it.func) == 'sorted' and it.args and _set_typed(f.node, it.args[0]):
                    n += 1
                    rep.ob(rule, f.key, f.where(c), True, f'fresh ids are drawn in the order of `{src(it)[:50]}`', statement='fresh-id-order')
                elif _set_typed(f.node, it):
                    n += 1
                    rep.ob(rule, f.key, f.where(c), False, f'fresh ids are drawn while iterating the set `{src(it)[:50]}` directly: which id a loop gets depends on the hash seed of the process, '
                           'so the same expression has different structure and hash in different processes', statement='fresh-id-order')
    if n == 0:
        raise AnalysisError('R17: no iteration drawing fresh loop ids found in evaluable.disjoint_loop_ids')


def check_dimension_create_guard(model, rep, rule):
    """Dimension.create accepts a new base symbol only if the reader of dimension strings reads it back as itself: the guard goes through the same
    tokenizer (_split_factors) that parses names such as 'L7' or 'T_2' as powers of L and T."""
    f = model.func('SI:Dimension.create')
    guards = [s_ for s_ in ast.walk(f.node) if isinstance(s_, ast.If) and s_.body and isinstance(s_.body[-1], ast.Raise)]
    # names that hold what the tokenizer returned for the new symbol
    derived = set()
    for s_ in ast.walk(f.node):
        if isinstance(s_, ast.Assign) and any(isinstance(c, ast.Call) and src(c.func) == '_split_factors' for c in ast.walk(s_.value)):
            derived |= {n_.id for t_ in s_.targets for n_ in ast.walk(t_) if isinstance(n_, ast.Name)}
    ok = any(any(isinstance(c, ast.Call) and src(c.func) == '_split_factors' for c in ast.walk(g.test)) or
             (derived & {n_.id for n_ in ast.walk(g.test) if isinstance(n_, ast.Name)} and 'arg' in {n_.id for n_ in ast.walk(g.test) if isinstance(n_, ast.Name)}) for g in guards)
    rep.ob(rule, f.key, f.where(), ok, 'a new base symbol is checked with the tokenizer of dimension strings' if ok else
           'Dimension.create no longer checks the new symbol with _split_factors: a symbol that the reader splits into a base and a power (L7, T_2) is accepted as a new base '
           'and takes the name of a power of an existing dimension', statement='create-guard')


def check_sign_before_use(model, rep, rule, keys):
    """An exponent that is conditionally negated (`if ...: s = -s`) is not used before the negation in the same block."""
    n = 0
    for key in keys:
        f = model.func(key)
        for holder in ast.walk(f.node):
            for fld in ('body', 'orelse'):
                blk = getattr(holder, fld, None)
                if not isinstance(blk, list):
                    continue
                for i, s_ in enumerate(blk):
                    if not (isinstance(s_, ast.If) and not s_.orelse):
                        continue
                    negs = [a for a in s_.body if isinstance(a, ast.Assign) and len(a.targets) == 1 and isinstance(a.targets[0], ast.Name) and isinstance(a.value, ast.UnaryOp)
                            and isinstance(a.value.op, ast.USub) and src(a.value.operand) == a.targets[0].id]
                    for a in negs:
                        v = a.targets[0].id
                        # the binding of v in this block that the negation refers to
                        start = max([j for j in range(i) if any(isinstance(t, ast.Name) and t.id == v and isinstance(t.ctx, ast.Store) for t in ast.walk(blk[j]))], default=None)
                        if start is None:
                            continue
                        n += 1
                        early = [x for j in range(start + 1, i) for x in ast.walk(blk[j]) if isinstance(x, ast.Name) and x.id == v and isinstance(x.ctx, ast.Load)]
                        ok = not early
                        rep.ob(rule, f.key, f.where(early[0]) if early else f.where(s_), ok, f'`{v}` is used only after its sign is settled' if ok else
                               f'`{v}` is used before `{src(s_.test)[:40]}` negates it: the factor computed from it takes the exponent of a numerator although the unit stands in a denominator', statement=f'sign-before-use {v}')
    if n == 0:
        raise AnalysisError(f'{rule}: no conditionally negated exponent found in {keys}')


def check_transpose_plain(model, rep, rule):
    """The transpose of a matrix is the plain transpose for every element type: no conjugation on the way."""
    n = 0
    for c in model.classes.values():
        if not c.module.short.startswith('matrix'):
            continue
        mem = c.members.get('T')
        if mem is None or mem.func is None:
            continue
        f = mem.func
        n += 1
        bad = [x for x in ast.walk(f.node) if (isinstance(x, ast.Attribute) and x.attr in ('conj', 'conjugate', 'H', 'getH')) or (isinstance(x, ast.Call) and src(x.func) in ('numpy.conj', 'numpy.conjugate'))]
        rep.ob(rule, f.key, f.where(bad[0]) if bad else f.where(), not bad, 'T is the plain transpose' if not bad else
               f'`{src(bad[0])}` in the transpose: complex matrices get the adjoint (every imaginary part changes sign) where the transpose was asked for', statement='transpose-plain')
    if n == 0:
        raise AnalysisError(f'{rule}: no T member found in the matrix modules')


def check_locate_weights_guard(model, rep, rule):
    """Topology.locate refuses weights together with skip_missing: the weights are given per TARGET, the located sample numbers the FOUND points."""
    f = model.func('topology:Topology.locate')
    ok = False
    for g in ast.walk(f.node):
        if isinstance(g, ast.If) and g.body and isinstance(g.body[-1], ast.Raise):
            names = {n_.id for n_ in ast.walk(g.test) if isinstance(n_, ast.Name)}
            if {'weights', 'skip_missing'} <= names:
                ok = True
    # ... unless the weights are filtered with the mask of the found points before they are used
    filtered = any(isinstance(x, ast.Subscript) and src(x.value) == 'weights' and not isinstance(x.slice, ast.Slice) for x in ast.walk(f.node))
    rep.ob(rule, f.key, f.where(), ok or filtered, 'weights and skip_missing exclude each other (or the weights are restricted to the found points)' if ok or filtered else
           'locate accepts weights together with skip_missing without restricting the weights to the points that were found: the located sample pairs the weights of the first targets with the found points',
           statement='weights-vs-skip-missing')


def check_subset_by_index(model, rep, rule):
    """Sample.subset reads the point mask through the sample's own index (getindex): the mask is given in the order the index advertises."""
    n = 0
    for c in model.classes.values():
        if c.module.short != 'sample':
            continue
        mem = c.members.get('subset')
        if mem is None or mem.func is None:
            continue
        f = mem.func
        subs = [x for x in ast.walk(f.node) if isinstance(x, ast.Subscript) and isinstance(x.value, ast.Name) and x.value.id in [a.arg for a in f.node.args.args[1:2]] and isinstance(x.ctx, ast.Load)]
        if not subs:
            continue
        n += 1
        bad = [x for x in subs if not any(isinstance(cc, ast.Call) and method_name(cc) in ('getindex', 'index') or (isinstance(cc, ast.Attribute) and cc.attr == 'index') for cc in ast.walk(x.slice))]
        rep.ob(rule, f.key, f.where(bad[0]) if bad else f.where(), not bad, 'the mask is read at the indices the sample advertises' if not bad else
               f'`{src(bad[0])[:60]}` reads the point mask in storage order instead of through getindex: for a sample with its own index (a located sample) other elements are selected', statement='subset-by-index')
    if n == 0:
        raise AnalysisError(f'{rule}: no subset member reading its mask found in sample.py')
