'''C18 Disk memoisation is transparent and crash-tolerant.

Decided: the file protocol of cache.function's wrapper and Recursion.__iter__ as a typestate over
every enumerated path (pickle.load may fail with EOFError/UnpicklingError, the wrapped computation
may raise): open(r+b) -> lock -> (load ok -> replay -> return | load failed -> rewind -> compute with
caching disabled and log recorded -> dump -> return); no dump after a successful load, no dump when the
computation raised; key completeness; lock selection.  Not decided: OS guarantees of flock and of
partial writes, equality of unpickled values.
'''

import ast

from sa import AnalysisError
from sa.pattern import pmatch, pfind
from sa.astutil import dotted, src, stmt_text, params, find_stmts, calls_in, method_name, walk_no_nested, const, resolved, deep_resolved
from sa.paths import PathEnumerator, Event


def _calls(s):
    # calls in a simple statement, not descending into nested defs
    return [c for c in ast.walk(s) if isinstance(c, ast.Call)]


REMOVERS = ('os.remove', 'os.unlink', 'os.rename', 'os.replace', 'os.rmdir', 'shutil.rmtree', 'shutil.move')   # the entry file is the lock: it must stay


class Proto:
    '''Event extraction for one of the two mechanisms.'''

    def __init__(self, f, compute_pred, what):
        self.f = f
        self.compute_pred = compute_pred    # Call -> bool : the wrapped computation
        self.what = what

    def on_stmt(self, s, st):
        evs = []
        item = getattr(s, '_with_item', None)
        for c in _calls(s):
            name = src(c.func)
            m = method_name(c)
            if name == '_lock_file' and c.args:
                evs.append(Event('LOCK', s, src(c.args[0])))
            elif name == 'pickle.load' and c.args:
                evs.append(Event('LOAD', s, src(c.args[0])))
            elif name == 'pickle.dump' and len(c.args) >= 2:
                evs.append(Event('DUMP', s, (src(c.args[1]), src(c.args[0]))))
            elif m == 'seek' and c.args and const(c.args[0]) == 0 and (len(c.args) == 1 or const(c.args[1]) == 0):
                evs.append(Event('SEEK0', s, src(c.func.value)))
            elif m == 'truncate':
                evs.append(Event('TRUNCATE', s, src(c.func.value)))
            elif m == 'replay':
                evs.append(Event('REPLAY', s, src(c.func.value)))
            elif m == 'open' and item is not None:
                mode = const(c.args[0]) if c.args else 'r'
                var = src(item.optional_vars) if item.optional_vars is not None else None
                evs.append(Event('OPEN', s, (var, mode)))
            elif m == 'open' and isinstance(c.func, ast.Attribute) and isinstance(s, ast.Assign) and len(s.targets) == 1 and isinstance(s.targets[0], ast.Name) and s.value is c:
                # f = path.open(mode) outside a with statement: the handle is opened here (a later `with f:` only closes it)
                evs.append(Event('OPEN', s, (s.targets[0].id, const(c.args[0]) if c.args else 'r')))
            elif name == 'disable' and item is not None:
                evs.append(Event('DISABLE', s))
            elif name == 'log.add' and item is not None:
                evs.append(Event('LOGADD', s, src(c.args[0]) if c.args else None))
            elif self.compute_pred(c):
                evs.append(Event('COMPUTE', s, src(c)))
            elif m == 'touch':
                evs.append(Event('TOUCH', s))
            elif name in REMOVERS or (m in ('unlink', 'rmdir') and isinstance(c.func, ast.Attribute)) or \
                    (m in ('rename', 'replace') and isinstance(c.func, ast.Attribute) and 'cach' in src(c.func.value)):   # whatever the path object is called
                evs.append(Event('REMOVE', s, src(c)))
        if isinstance(s, ast.Expr) and isinstance(s.value, (ast.Yield, ast.YieldFrom)):
            evs.append(Event('YIELD', s, src(s.value.value) if s.value.value is not None else None))
        if isinstance(s, ast.Assign) and isinstance(s.value, ast.Call) and src(s.value.func) == 'log.RecordLog':
            evs.append(Event('RECORDLOG', s, src(s.targets[0])))
        return evs

    def fallible(self, s):
        out = []
        for c in _calls(s):
            if src(c.func) == 'pickle.load':
                out += ['EOFError', 'UnpicklingError']
            elif self.compute_pred(c):
                out += ['UserError']
                if src(c.func) == 'next':
                    out += ['StopIteration']
        return out

    def paths(self, unroll=2):
        pe = PathEnumerator(self.f.node, on_stmt=self.on_stmt, fallible=self.fallible, unroll=unroll,
                            exc_parents={'UserError': 'Exception'})
        return pe.paths()


def _with_depth(p, upto, pred):
    '''number of currently open `with` blocks whose enter event satisfies pred, at position upto.'''
    stack = []
    for e in p.events[:upto]:
        if e.kind == 'with-enter':
            stack.append(e)
        elif e.kind == 'with-exit' and stack:
            # exit matches the most recent enter of the same With node
            for i in range(len(stack) - 1, -1, -1):
                if stack[i].node is e.node:
                    del stack[i:]
                    break
    return [e for e in stack if pred(e)]


def _segments(p, recursion):
    '''Split the events of a path at loop iterations (one file per iteration in Recursion).'''
    if not recursion:
        return [list(enumerate(p.events))]
    segs, cur = [], []
    for i, e in enumerate(p.events):
        if e.kind == 'loop-body' and isinstance(e.node, ast.For):
            if cur:
                segs.append(cur)
            cur = []
        cur.append((i, e))
    if cur:
        segs.append(cur)
    return segs


def check_protocol(model, rep, key, compute_pred, recursion):
    f = model.func(key)
    proto = Proto(f, compute_pred, key)
    paths = proto.paths(unroll=2 if recursion else 1)
    if len(paths) < 3:
        raise AnalysisError(f'{key}: only {len(paths)} paths enumerated')
    rep.unit(f'paths[{key}]', len(paths))
    v = {}  # rule -> (ok, where, detail)

    def fail(rule, stmt, where_node, detail):
        v.setdefault((rule, stmt), (where_node, detail))

    nload = ndump = ncompute = 0
    for p in paths:
        for seg in _segments(p, recursion):
            kinds = [e.kind for _, e in seg]
            opened = None
            locked = False
            load_ok = False
            load_failed = False
            seeked = False
            computed = False
            compute_failed = False
            replayed = False
            disabled_at_compute = None
            recording = None
            open_node = None
            ever_opened = False
            created = set()
            for pos, (i, e) in enumerate(seg):
                k = e.kind
                if k == 'RECORDLOG':
                    created.add(e.data)
                if k == 'with-exit' and open_node is not None and e.node is open_node:
                    opened, locked, open_node = None, False, None   # closing the handle releases the lock
                if k == 'OPEN':
                    ever_opened = True
                    opened = e.data[0]
                    open_node = getattr(e.node, '_owner', None)
                    mode = e.data[1]
                    if mode not in ('r+b', 'rb+', 'br+'):
                        fail('R18.1', 'open-mode', e.node, f'the cache file is opened with mode {mode!r}: anything but r+b truncates or cannot rewrite the entry before the lock is held')
                elif k == 'LOCK':
                    if opened is None or e.data != opened:
                        fail('R18.1', 'lock-handle', e.node, f'_lock_file({e.data}) does not lock the handle that was just opened ({opened})')
                    locked = True
                elif k in ('LOAD', 'DUMP', 'SEEK0', 'TRUNCATE'):
                    handle = e.data[0] if k == 'DUMP' else e.data
                    inside = _with_depth(p, i, lambda w: any(ev.kind == 'OPEN' for ev in _events_of(p, w)))
                    if not locked or handle != opened:
                        fail('R18.1', f'{k.lower()}-under-lock', e.node, f'`{stmt_text(e.node)[:70]}` runs without the exclusive lock on {handle} being held on this path')
                    if k == 'LOAD':
                        nload += 1
                        # success or failure is decided by the next event
                        nxt = seg[pos + 1][1] if pos + 1 < len(seg) else None
                        if nxt is not None and nxt.kind == 'fail' and nxt.node is e.node:
                            pass
                        load_ok = True
                    if k == 'SEEK0':
                        seeked = True
                    if k == 'DUMP':
                        ndump += 1
                        if load_ok and not load_failed:
                            fail('R18.3', 'dump-after-hit', e.node, 'a cache entry that was loaded successfully is overwritten (dump after a successful load)')
                        if load_failed and not seeked:
                            fail('R18.3', 'dump-without-rewind', e.node, 'after a failed pickle.load the entry is rewritten without f.seek(0): the new pickle is appended behind the garbage that was read')
                        if not computed or compute_failed:
                            fail('R18.5', 'dump-without-compute', e.node, 'an entry is written although the wrapped computation did not complete on this path')
                        if recording is not None and recording not in e.data[1]:
                            fail('R18.5', 'dump-log', e.node, f'the stored entry `{e.data[1]}` does not contain the recorded log {recording}: a later hit cannot replay the output')
                elif k == 'fail':
                    calls = [src(c.func) for c in _calls(e.node)]
                    if 'pickle.load' in calls:
                        load_failed = True
                        load_ok = False
                    elif e.data == 'UserError':
                        compute_failed = True
                    elif e.data == 'StopIteration':
                        computed = True  # the resumed generator finished: a completed computation whose result is the stop marker
                elif k == 'except':
                    # entering a handler of the try around the load (explicit `raise UnpicklingError` for old-format entries included)
                    if load_ok and not computed:
                        load_failed = True
                        load_ok = False
                elif k == 'COMPUTE':
                    if not ever_opened and not recursion:
                        continue  # bypass route: caching disabled, nothing to lock or store
                    ncompute += 1
                    computed = True
                    if not locked:
                        fail('R18.1', 'compute-under-lock', e.node, 'the wrapped computation runs without holding the lock of its cache entry: two processes can compute and write concurrently')
                    if load_ok and not load_failed and not recursion:
                        fail('R18.3', 'compute-after-hit', e.node, 'the wrapped function is executed although the entry was loaded successfully')
                    dis = _with_depth(p, i, lambda w: any(ev.kind == 'DISABLE' for ev in _events_of(p, w)))
                    if not dis:
                        fail('R18.5', 'compute-disabled', e.node, 'the wrapped computation runs with caching still enabled (not inside `with disable()`): nested memoised calls are cached inside an entry')
                    rec = _with_depth(p, i, lambda w: any(ev.kind == 'LOGADD' for ev in _events_of(p, w)))
                    if not rec:
                        fail('R18.5', 'compute-recorded', e.node, 'the wrapped computation runs without a RecordLog attached: the log output of the original call cannot be replayed')
                    else:
                        recording = next(ev.data for ev in _events_of(p, rec[-1]) if ev.kind == 'LOGADD')
                        if recording not in created:
                            fail('R18.5', 'fresh-recorder', e.node, f'the computation of this entry records into `{recording}`, which was not created for it (no `{recording} = log.RecordLog()` since the entry was opened): '
                                 'the recorder still holds the output of the entries computed before, and a later hit replays their log lines again')
                elif k == 'REPLAY':
                    replayed = True
                elif k == 'REMOVE':
                    fail('R18.8', 'entry-file-kept', e.node, f'`{e.data}` removes or renames a cache entry file: the file is the lock the callers synchronise on, so a process already waiting for it keeps the lock of an '
                         'orphaned inode while a newcomer locks a fresh file - both compute concurrently and one result is lost')
                elif k in ('return', 'YIELD'):
                    if load_ok and not load_failed and not computed and not replayed:
                        # a hit that is handed out without replaying the recorded log
                        fail('R18.5', 'hit-replays', e.node, 'a cache hit is handed out (or, for the end marker of a recursion, acted upon) without replaying the recorded log')
                    if load_failed and not computed and not (recursion and k == 'return'):
                        fail('R18.2', 'failed-load-falls-through', e.node, 'after a failed load the path hands out a value without recomputing it')
            # a failed load must be survivable: the path may not end in that exception
        if p.end == 'raise' and p.exc in ('EOFError', 'UnpicklingError'):
            ev = next(e for e in p.events if e.kind == 'fail')
            fail('R18.2', f'load-{p.exc}-handled', ev.node, f'{p.exc} from pickle.load (what a truncated entry raises) escapes: a crash while writing makes every later call fail')
        if p.end == 'raise' and p.exc == 'UserError':
            # exception of the wrapped function propagates - fine; but no dump may have followed (checked above)
            pass
        if p.end in ('return', 'fall') and any(e.kind == 'fail' and e.data == 'UserError' for e in p.events):
            ev = next(e for e in p.events if e.kind == 'fail' and e.data == 'UserError')
            fail('R18.5', 'exception-propagates', ev.node, 'an exception raised by the wrapped computation is swallowed')
    if nload == 0 or ndump == 0 or ncompute == 0:
        raise AnalysisError(f'{key}: protocol events missing (load={nload} dump={ndump} compute={ncompute}) - re-anchor')
    obligations = [
        ('R18.1', 'open-mode', 'cache files are opened r+b (no truncation before the lock)'),
        ('R18.1', 'lock-handle', 'the lock is taken on the opened handle'),
        ('R18.1', 'load-under-lock', 'pickle.load runs under the lock'),
        ('R18.1', 'dump-under-lock', 'pickle.dump runs under the lock'),
        ('R18.1', 'seek0-under-lock', 'rewind runs under the lock'),
        ('R18.1', 'compute-under-lock', 'the wrapped computation runs while the entry is locked'),
        ('R18.2', 'load-EOFError-handled', 'EOFError from pickle.load falls through to recomputation'),
        ('R18.2', 'load-UnpicklingError-handled', 'UnpicklingError from pickle.load falls through to recomputation'),
        ('R18.2', 'failed-load-falls-through', 'a failed load never hands out a value without recomputing'),
        ('R18.3', 'dump-without-rewind', 'every dump after a failed load is preceded by seek(0)'),
        ('R18.3', 'dump-after-hit', 'no dump after a successful load'),
        ('R18.3', 'compute-after-hit', 'no recomputation after a successful load'),
        ('R18.5', 'compute-disabled', 'computation inside `with disable()`'),
        ('R18.5', 'compute-recorded', 'computation records its log'),
        ('R18.5', 'fresh-recorder', 'every computed entry records into a recorder created for that entry'),
        ('R18.5', 'dump-log', 'the stored entry contains the recorded log'),
        ('R18.5', 'dump-without-compute', 'nothing is stored when the computation did not complete'),
        ('R18.5', 'hit-replays', 'a hit replays the log before the value is handed out'),
        ('R18.5', 'exception-propagates', 'exceptions of the computation propagate'),
        ('R18.8', 'entry-file-kept', 'the entry file, which is the lock, is never removed or renamed'),
    ]
    for rule, stmt, text in obligations:
        bad = v.get((rule, stmt))
        if bad:
            node, detail = bad
            rep.ob(rule, key, f.where(node), False, detail, statement=stmt)
        else:
            rep.ob(rule, key, f.where(), True, f'{text} on all {len(paths)} paths', statement=stmt)
    for (rule, stmt), (node, detail) in v.items():
        if (rule, stmt) not in [(r, s) for r, s, _ in obligations]:
            rep.ob(rule, key, f.where(node), False, detail, statement=stmt)


def _events_of(p, with_enter_event):
    '''events emitted for the header of the with statement of this enter event (they directly precede it).'''
    idx = next(i for i, e in enumerate(p.events) if e is with_enter_event)
    out = []
    j = idx - 1
    while j >= 0 and getattr(p.events[j].node, '_owner', None) is with_enter_event.node and getattr(p.events[j].node, '_with_item', None) is with_enter_event.data:
        out.append(p.events[j])
        j -= 1
    return out


def check_lock_selection(model, rep):
    m = model.module('cache')
    sel = m.assigns.get('_lock_file')
    if sel is None:
        raise AnalysisError('cache._lock_file selection not found')
    lists = [n for n in ast.walk(sel) if isinstance(n, ast.List)]
    names = [src(e) for e in lists[0].elts] if lists else []
    ok = names and names[-1] == '_lock_file_fallback' and '_lock_file_fcntl' in names and names.index('_lock_file_fcntl') < names.index('_lock_file_fallback') \
        and src(sel).startswith('next(filter(None')
    rep.ob('R18.1', 'cache:_lock_file', f'{m.relpath}:{sel.lineno}', ok, f'real locks are preferred, the no-op fallback is last: {names}' if ok else
           f'lock selection {names}: the no-op fallback is not the last resort', statement='lock-selection')
    fc = model.functions.get('cache:_lock_file_fcntl')
    if fc is None:
        raise AnalysisError('cache._lock_file_fcntl not found')
    calls = [c for c in calls_in(fc.node) if src(c.func) == 'fcntl.flock']
    ok = len(calls) == 1 and len(calls[0].args) == 2 and src(calls[0].args[1]) == 'fcntl.LOCK_EX'
    rep.ob('R18.1', fc.key, fc.where(), ok, 'flock is exclusive and blocking (LOCK_EX)' if ok else
           f'`{src(calls[0]) if calls else "?"}` is not an exclusive blocking lock', statement='flock-exclusive')
    fb = model.functions.get('cache:_lock_file_fallback')
    ok = fb is not None
    rep.ob('R18.1', 'cache:_lock_file_fallback', fb.where() if fb else m.relpath + ':1', ok, 'fallback exists', statement='fallback-exists')


def arguments_enter_key(w):
    """(every canonical positional argument is fed to the hasher, every keyword enters with name AND value in sorted order) for the wrapper of
    cache.function - whatever the loop and comprehension variables are called."""
    loops = [s for s in w.body if isinstance(s, ast.For)]
    pos_ok = any(src(l.iter) == 'args' and any(method_name(c) == 'update' and 'nutils_hash(' + src(l.target) + ')' in src(c) for c in calls_in(l)) for l in loops)
    kw_ok = False
    for l in loops:
        it = resolved(w.node, l.iter)
        if isinstance(it, ast.Call) and method_name(it) == 'sorted' and it.args and isinstance(resolved(w.node, it.args[0]), (ast.GeneratorExp, ast.ListComp)):
            g = resolved(w.node, it.args[0])
            if src(g.generators[0].iter) == 'kwargs.items()':
                names = [src(e) for e in (g.generators[0].target.elts if isinstance(g.generators[0].target, ast.Tuple) else [])]
                if len(names) == 2 and names[0] + '.encode()' in src(g.elt) and f'nutils_hash({names[1]})' in src(g.elt) and any(method_name(c) == 'update' for c in calls_in(l)):
                    kw_ok = True
    return pos_ok, kw_ok


def check_key(model, rep):
    f = model.func('cache:function')
    w = model.func('cache:function.<locals>.wrapper')
    txt = src(f.node)
    ok = "'{}.{}:{}'.format(func.__module__, func.__qualname__, version)" in txt
    rep.ob('R18.4', f.key, f.where(), ok, 'key covers module, qualified name and version of the function' if ok else 'func_key lost module/qualname/version', statement='key-function')
    ok = any(isinstance(s, ast.If) and 'isinstance(version, int)' in src(s.test) and any(isinstance(b, ast.Raise) for b in s.body) for s in f.body)
    rep.ob('R18.4', f.key, f.where(), ok, 'non-integer versions are rejected' if ok else 'version type check gone', statement='version-int')
    # def-use: hkey <- h <- func_key, args (all, canonicalised), kwargs (names and values, sorted)
    wt = src(w.node)
    canon = [s for s in w.body if isinstance(s, ast.Assign) and isinstance(s.value, ast.Call) and src(s.value.func) == 'canonicalize']
    ok = len(canon) == 1 and src(canon[0].targets[0]).replace(' ', '') in ('args,kwargs', '(args,kwargs)')
    rep.ob('R18.4', w.key, w.where(), ok, 'arguments are canonicalised before hashing' if ok else 'arguments are hashed without canonicalisation: f(1, b=2) and f(1, 2) get different entries', statement='key-canonical')
    hdef = [s for s in w.body if isinstance(s, ast.Assign) and isinstance(s.value, ast.Call) and src(s.value.func) == 'hashlib.sha1']
    ok = len(hdef) == 1 and [src(a) for a in hdef[0].value.args] == ['func_key']
    rep.ob('R18.4', w.key, w.where(), ok, 'the hasher starts from func_key', statement='key-starts-func-key')
    pos_ok, kw_ok = arguments_enter_key(w)
    rep.ob('R18.4', w.key, w.where(), pos_ok, 'every positional argument is hashed' if pos_ok else 'not every canonical positional argument enters the key', statement='key-positional')
    rep.ob('R18.4', w.key, w.where(), kw_ok, 'keyword names and values are hashed in sorted order' if kw_ok else
           'keyword arguments do not enter the key with name and value, order-independently', statement='key-keywords')
    # the file that is opened is <cache dir> / <hex digest of the hasher>, whatever the intermediate values are called
    opens = [c for c in calls_in(w.node) if method_name(c) == 'open' and isinstance(c.func, ast.Attribute)]
    ok = len(opens) >= 1 and len(hdef) == 1
    for o_ in opens if ok else ():
        m = pmatch('caching.current / K_', resolved(w.node, o_.func.value))
        ok = ok and m is not None and src(resolved(w.node, m['K_'])) == src(hdef[0].targets[0]) + '.hexdigest()'
    rep.ob('R18.4', w.key, w.where(), ok, 'the entry file is named by the full hex digest' if ok else 'the cache file name is not the full digest of the key', statement='key-filename')
    # bypass when caching is off
    first = next((s for s in w.body if isinstance(s, ast.If)), None)
    ok = first is not None and src(first.test) == 'caching.current is None' and any(isinstance(b, ast.Return) and src(b.value) == 'func(*args, **kwargs)' for b in first.body)
    rep.ob('R18.4', w.key, w.where(first) if first else w.where(), ok, 'with caching disabled the function is called directly' if ok else 'the disabled-cache bypass changed', statement='bypass-when-disabled')
    # Recursion
    r = model.func('cache:Recursion.__iter__')
    rt = src(r.node)
    ropens = [c for c in calls_in(r.node) if method_name(c) == 'open' and isinstance(c.func, ast.Attribute)]
    loops = [l for l in ast.walk(r.node) if isinstance(l, ast.For) and src(l.iter) == 'itertools.count()' and isinstance(l.target, ast.Name)]
    ok = len(ropens) == 1 and len(loops) == 1 and any(x is ropens[0] for x in ast.walk(loops[0]))
    if ok:   # the file opened in iteration i is <cache dir> / <hex nutils hash of the instance> / <i, zero padded>
        m = pmatch("caching.current / H_ / '{:04d}'.format(I_)", deep_resolved(r.node, ropens[0].func.value))
        ok = m is not None and src(m['H_']) == 'self.__nutils_hash__.hex()' and src(m['I_']) == loops[0].target.id
    rep.ob('R18.4', r.key, r.where(), ok, 'Recursion stores one file per index under the hex nutils hash of the instance' if ok else
           'Recursion no longer uses <hash>/<index> files', statement='recursion-files')


def check_recursion_specifics(model, rep):
    f = model.func('cache:Recursion.__iter__')
    loop = [s for s in find_stmts(f.body, lambda s: isinstance(s, ast.For)) if 'itertools.count' in src(s.iter)]
    if len(loop) != 1:
        raise AnalysisError('Recursion.__iter__: main loop not found')
    loop = loop[0]
    # exhausted only ever set to True inside the loop
    asg = [s for s in find_stmts(loop.body, lambda s: isinstance(s, ast.Assign)) if src(s.targets[0]) == 'exhausted']
    ok = bool(asg) and all(const(s.value) is True for s in asg)
    rep.ob('R18.6', f.key, f.where(asg[0]) if asg else f.where(), ok, 'once computing, the iteration never goes back to reading cached items' if ok else
           '`exhausted` is reset inside the loop: stale items behind a rewritten one would be served', statement='exhausted-monotone')
    init = [s for s in find_stmts(f.body, lambda s: isinstance(s, ast.Assign)) if src(s.targets[0]) == 'exhausted' and s not in asg]
    ok = len(init) == 1 and const(init[0].value) is False
    rep.ob('R18.6', f.key, f.where(), ok, 'reading starts from the cache', statement='exhausted-init')
    # history trimmed to `length` before resume_index(history, i)
    trim = [s for s in find_stmts(loop.body, lambda s: isinstance(s, ast.If)) if src(s.test) == 'len(history) > length']
    ok = len(trim) == 1 and any(isinstance(b, ast.Assign) and src(b.targets[0]) == 'history' and src(b.value) == 'history[1:]' for b in trim[0].body)
    rep.ob('R18.6', f.key, f.where(trim[0]) if trim else f.where(), ok, 'the history is trimmed to the recursion length' if ok else
           'the history passed to resume is not trimmed with `if len(history) > length: history = history[1:]`', statement='history-trim')
    app = [c for c in calls_in(loop) if src(c.func) == 'history.append']
    ok = len(app) == 1 and src(app[0].args[0]) == 'value'
    rep.ob('R18.6', f.key, f.where(), ok, 'loaded values extend the history', statement='history-append')
    res = [s for s in find_stmts(loop.body, lambda s: isinstance(s, ast.Assign)) if src(s.targets[0]) == 'resume']
    ok = len(res) == 1 and src(res[0].value) == 'self.resume_index(history, i)'
    rep.ob('R18.6', f.key, f.where(res[0]) if res else f.where(), ok, 'resumption starts at the current index with the trimmed history' if ok else
           'resume_index is not called with (history, i)', statement='resume-index')
    # stop marker honoured and stored
    stop_ret = [s for s in loop.body if isinstance(s, ast.If) and src(s.test) == 'stop' and any(isinstance(b, ast.Return) for b in s.body)]
    ok = len(stop_ret) == 1 and isinstance(loop.body[-1], ast.Expr) and isinstance(loop.body[-1].value, ast.Yield) and loop.body[-2] is stop_ret[0]
    rep.ob('R18.6', f.key, f.where(stop_ret[0]) if stop_ret else f.where(), ok, 'a stored or fresh stop marker ends the iteration before yielding' if ok else
           'the `if stop: return` test does not directly precede the yield', statement='stop-honoured')
    dump = [c for c in calls_in(loop) if src(c.func) == 'pickle.dump']
    ok = len(dump) == 1 and src(dump[0].args[0]).replace(' ', '') == '(log_,stop,value)'
    loadt = [s for s in find_stmts(loop.body, lambda s: isinstance(s, ast.Assign)) if isinstance(s.value, ast.Call) and src(s.value.func) == 'pickle.load']
    ok = ok and len(loadt) == 1 and src(loadt[0].targets[0]).replace(' ', '') in ('log_,stop,value', '(log_,stop,value)')
    rep.ob('R18.6', f.key, f.where(), ok, 'entries are written and read as (log, stop, value)' if ok else 'writer and reader of the recursion entries disagree on the tuple layout', statement='entry-layout')
    # no-cache route
    first = next((s for s in f.body if isinstance(s, ast.If)), None)
    ok = first is not None and src(first.test) == 'caching.current is None' and 'self.resume_index([], 0)' in src(first.body[0])
    rep.ob('R18.6', f.key, f.where(), ok, 'without caching the recursion starts from an empty history at index 0', statement='uncached-route')
    # wrapper entry layout
    w = model.func('cache:function.<locals>.wrapper')
    dump = [c for c in calls_in(w.node) if src(c.func) == 'pickle.dump']
    ok = len(dump) == 1 and src(dump[0].args[0]).replace(' ', '') == '(value,log_)'
    ok = ok and any(isinstance(s, ast.Assign) and src(s.targets[0]).replace(' ', '') in ('value,log_', '(value,log_)') and src(s.value) == 'data' for s in find_stmts(w.body, lambda s: isinstance(s, ast.Assign)))
    rep.ob('R18.6', w.key, w.where(), ok, 'function entries are written and read as (value, log)' if ok else 'writer and reader of function entries disagree on the tuple layout', statement='entry-layout')


def check_users(model, rep):
    '''R18.7: the memoised solver entry points hash every argument, so every iteration-method class must be hashable (sibling agreement).'''
    m = model.module('solver')
    memo = []
    for f in model.functions.values():
        if f.module is m and any(d.endswith('cache.function') for d in f.decorators):
            memo.append(f)
    rep.unit('memoised_solver_entry_points', len(memo))
    if len(memo) < 3:
        raise AnalysisError(f'only {len(memo)} cache.function users found in solver.py')
    methods = []
    for c in m.classes.values():
        call = c.members.get('__call__')
        if call is None or call.func is None:
            continue
        pos, kwonly, _, _ = params(call.func.node)
        if len(pos) >= 2 and pos[1] == 'system' and {'arguments', 'constrain'} <= set(kwonly):
            methods.append(c)
    if len(methods) < 6:
        raise AnalysisError(f'only {len(methods)} iteration-method classes found')
    for c in methods:
        dataclass = any('dataclass' in src(d) for d in c.node.decorator_list)
        ok = '__nutils_hash__' in c.members or dataclass
        rep.ob('R18.7', c.key, f'{c.module.relpath}:{c.node.lineno}', ok, f'{c.name} instances can be hashed for the cache key of System.solve' if ok else
               f'{c.name} defines no __nutils_hash__ ({len([x for x in methods if "__nutils_hash__" in x.members])} of {len(methods)} sibling methods do): with caching enabled System.solve(method={c.name}()) raises TypeError '
               'instead of returning what it returns with caching disabled', statement='method-hashable')
    for f in memo:
        if f.cls is not None:
            ok = '__nutils_hash__' in f.cls.members or any('dataclass' in src(d) for d in f.cls.node.decorator_list)
            rep.ob('R18.7', f.key, f.where(), ok, f'the owner {f.cls.name} of the memoised method is hashable' if ok else f'{f.cls.name} owns a memoised method but is not hashable', statement='owner-hashable')


def check_end_of_recursion(model, rep):
    """R18.9: the end of a recursion is what the generator says (StopIteration), never a value it may yield: `next(resume, <constant>)`
    makes an item equal to that constant indistinguishable from exhaustion - a recursion that yields None would be stored as finished
    and every later run would stop there.  Only a sentinel object created for the purpose may serve as default."""
    f = model.func('cache:Recursion.__iter__')
    calls = [c for c in calls_in(f.node) if src(c.func) in ('next', 'builtins.next') and c.args and src(c.args[0]) == 'resume']
    if not calls:
        raise AnalysisError('Recursion.__iter__: next(resume) was not found')
    for c in calls:
        ok = len(c.args) == 1 and not c.keywords
        if not ok:
            d = resolved(f.node, c.args[1]) if len(c.args) > 1 else None
            ok = isinstance(d, ast.Call) and src(d.func) == 'object' and not d.args
        rep.ob('R18.9', f.key, f.where(c), ok, 'the end of the recursion is detected by StopIteration (or a private sentinel)' if ok else
               f'`{src(c)}` uses a value the recursion itself may yield as end marker: an item equal to it is stored as the end of the recursion and served as such ever after', statement='end-by-stopiteration')


def check_class_keywords(model, rep):
    """R18.10: the class keywords of a Recursion subclass (version=...) reach types.ImmutableMeta, which stores the version that enters the
    name of the cache directory.  A metaclass method that accepts **kwargs must hand them on to the same method of its parent; dropping
    them makes `version` a no-op, so entries computed by an older definition keep being served."""
    n = 0
    for c in model.classes.values():
        if c.module.short not in ('cache', 'types') or not any(b.endswith('Meta') or b == 'type' for b in c.base_exprs):
            continue
        for name in ('__new__', '__init__'):
            mem = c.members.get(name)
            if mem is None or mem.func is None or mem.func.node.args.kwarg is None:
                continue
            f = mem.func
            kw = f.node.args.kwarg.arg
            sup = [x for x in calls_in(f.node) if isinstance(x.func, ast.Attribute) and x.func.attr == name and src(x.func.value).startswith('super(')]
            n += 1
            ok = len(sup) >= 1 and all(any(k.arg is None and src(k.value) == kw for k in x.keywords) for x in sup)
            rep.ob('R18.10', f.key, f.where(sup[0]) if sup else f.where(), ok, f'{c.name}.{name} hands its remaining class keywords to the parent metaclass' if ok else
                   f'{c.name}.{name} accepts **{kw} but does not pass them to super().{name}: the `version` keyword of a subclass never reaches ImmutableMeta, so the cache directory name does not change when the version is '
                   'incremented and stale entries keep being served', statement=f'class-keywords {name}')
    if n < 2:
        raise AnalysisError(f'R18.10: only {n} metaclass methods with **kwargs found')


def run(model, rep, tier):
    rep.explanation = (
        'Typestate analysis of cache.function.<locals>.wrapper and Recursion.__iter__ over all structurally enumerated, flag-sensitive paths (loops unrolled twice for the recursion), with '
        'pickle.load forking into EOFError/UnpicklingError and the wrapped computation forking into a user exception (and StopIteration): R18.1 every load/dump/seek and the computation happen '
        'on the opened r+b handle after _lock_file on that handle, real locks preferred over the no-op fallback, flock exclusive; R18.2 EOFError/UnpicklingError are survived and lead to '
        'recomputation; R18.3 seek(0) between a failed load and the dump, no dump or recomputation after a hit; R18.4 the entry name depends on module, qualname, version, every canonical '
        'positional and keyword argument; R18.5 computation inside disable() with a RecordLog whose log is stored, hits replay it, exceptions propagate without a dump; R18.6 recursion '
        'bookkeeping (monotone exhausted flag, history trimmed to length, resume index, stop marker, entry layout agreement). Decides the protocol shape that makes crash tolerance possible; '
        'what the OS guarantees for flock/partial writes and equality of unpickled values are NOT decided.')
    rep.rule('R18.1', 'file operations and computation under the exclusive lock of the opened handle')
    rep.rule('R18.2', 'truncated entries are survived (EOFError, UnpicklingError handled, fall through to recomputation)')
    rep.rule('R18.3', 'rewind before rewrite; never rewrite or recompute after a hit')
    rep.rule('R18.4', 'key completeness')
    rep.rule('R18.5', 'computation with caching disabled and log recorded; hits replay; exceptions propagate without a store')
    rep.rule('R18.6', 'recursion bookkeeping and entry layout agreement')
    rep.rule('R18.8', 'the entry file is the lock object: no mechanism removes, renames or replaces it')
    rep.rule('R18.7', 'arguments of memoised solver entry points are hashable (sibling agreement of the method classes)')
    check_protocol(model, rep, 'cache:function.<locals>.wrapper', lambda c: src(c.func) == 'func', recursion=False)
    check_protocol(model, rep, 'cache:Recursion.__iter__', lambda c: src(c.func) == 'next' and c.args and src(c.args[0]) == 'resume', recursion=True)
    check_lock_selection(model, rep)
    check_key(model, rep)
    check_recursion_specifics(model, rep)
    check_users(model, rep)
    rep.rule('R18.9', 'the end of a recursion is StopIteration, not a value the recursion may yield')
    check_end_of_recursion(model, rep)
    rep.rule('R18.10', 'class keywords (version) are handed on by the metaclass to ImmutableMeta')
    check_class_keywords(model, rep)
    from rules.c17 import check_state_coverage
    from rules.c03 import _Rename
    check_state_coverage(model, _Rename(rep, {'R17.3': 'R18.4'}))   # the key of a memoised solve includes the hash of its method object
    from rules.c17 import check_branches

    class _Only(_Rename):       # only the branch-coverage obligations (R17.5) belong to the cache key; the identity questions of R17.7 are C17's
        def ob(self, rule, *a, **k):
            if rule == 'R17.5':
                return _Rename.ob(self, rule, *a, **k)
    check_branches(model, _Only(rep, {'R17.5': 'R18.4'}))           # ... and every argument enters through nutils_hash: each type branch feeds what distinguishes its values
    rep.rule('R18.11', 'every name loaded in cache.py resolves (symtable)')
    from rules import names as _names
    _names.check(model, rep, 'R18.11', ('cache',), 15)
    rep.require('R18.1', 14)
    rep.require('R18.4', 9)
    rep.require('R18.6', 9)
