'''C02 Optimised code generation is a faithful translation - generator discipline only.

Decided: R02.1 every emitted in-place operation targets storage the emitting node owns (its `out` parameter or a
view of it, a freshly allocated array, a fresh copy); R02.2 accumulation into `out` is preceded by a zero fill on
every path on which mode may be 'assign'; R02.3 who may start an in-place chain and under which escapes;
R02.4/R02.5 the printer covers every field of every expression/statement class (variables, lines, filter, bool;
operands parenthesised); R02.6/R02.7 what a node compiles is reachable from its announced dependencies and
_compile_expression arities match.  Not decided: loop grouping, block placement values, index arithmetic of
Assemble/_optimized_for_numpy rewrites.
'''

import ast

from sa import AnalysisError
from sa.astutil import dotted, src, stmt_text, params, arity, find_stmts, calls_in, method_name, walk_no_nested, const, resolved, deep_resolved
from sa.paths import PathEnumerator, Event

MUTATORS = {'array_fill_zeros': 0, 'array_add_at': 0, 'array_iadd': 0, 'array_imul': 0, 'array_copy': 0}
VIEW_FULL = ('transpose',)               # numpy.transpose(out, ...) covers every element of out
VIEW_PARTIAL = ('einsum',)               # numpy.einsum('...ii->...i', out): the diagonal only
VIEW_SLICE = ('get_item',)               # out[..., slice]: a partition over loop iterations


def _view_kind(v):
    '''`v` as a view of the destination `out`: 'partial' (einsum diagonal), 'full' (transpose), 'slice' (out[..., slice]) or None.'''
    if isinstance(v, ast.Call) and isinstance(v.func, ast.Attribute):
        t = src(v)
        if v.func.attr == 'call' and any(src(a) == 'out' for a in v.args):
            if "get_attr('einsum')" in t:
                return 'partial'
            if "get_attr('transpose')" in t:
                return 'full'
        if v.func.attr == 'get_item' and src(v.func.value) == 'out':
            return 'slice'
    return None


def _own_destination(f, dst):
    '''Is the destination expression (a local name, or a view of `out` built in place) storage owned by f?'''
    if isinstance(dst, ast.Name):
        return _own_storage(f, dst.id)
    k = _view_kind(dst)
    if k is not None:
        return _own_storage(f, 'out')[0], ('a slice of out' if k == 'slice' else 'a view of out')
    return False, 'not a local'


def _own_storage(f, name):
    '''Is local `name` storage owned by the emitting function f?  returns (bool, why)'''
    pos = params(f.node)[0]
    if name == 'out' and 'out' in pos:
        return True, 'the out parameter'
    for s in find_stmts(f.body, lambda s: isinstance(s, ast.Assign)):
        tg = s.targets[0]
        v = s.value
        names = [src(e) for e in tg.elts] if isinstance(tg, ast.Tuple) else [src(tg)]
        if name not in names:
            continue
        t = src(v)
        if isinstance(tg, ast.Tuple) and names[0] == name and isinstance(v, ast.Call) and method_name(v) == 'new_empty_array_for_evaluable' and [src(a) for a in v.args] == ['self']:
            return True, 'freshly allocated for this node'
        if isinstance(v, ast.Call) and method_name(v) == 'get_variable_for_evaluable' and [src(a) for a in v.args] == ['self']:
            # the variable must be assigned a fresh copy before being mutated
            fresh = any(isinstance(c, ast.Call) and method_name(c) == 'assign_to' and c.args and src(c.args[0]) == name and
                        "get_attr('array')" in src(c.args[1]) and 'copy=_pyast.LiteralBool(True)' in src(c.args[1]) for c in calls_in(f.node))
            return (True, 'a fresh numpy.array(..., copy=True)') if fresh else (False, 'the node\'s variable is mutated without having been assigned a fresh copy')
        if isinstance(v, ast.Call) and isinstance(v.func, ast.Attribute):
            # views of owned storage
            m = v.func.attr
            if m == 'call' and any(vw in t for vw in ("get_attr('transpose')", "get_attr('einsum')")) and any(src(a) == 'out' for a in v.args):
                return _own_storage(f, 'out')[0], 'a view of out'
            if m == 'get_item' and src(v.func.value) == 'out':
                return _own_storage(f, 'out')[0], 'a slice of out'
        if any(k in t for k in ('builder.compile(', 'add_constant(', 'get_argument(')) or (isinstance(v, ast.Call) and method_name(v) == 'compile'):
            return False, f'`{t[:50]}` is a compiled dependency / constant / caller argument'
        return False, f'`{t[:50]}` is not storage owned by this node'
    return False, 'unknown origin'


def check_destinations(model, rep, rule='R02.1'):
    n = 0
    for f in model.functions.values():
        if f.module.short != 'evaluable' or isinstance(f.node, ast.Lambda) or (f.cls is not None and f.cls.name == '_BlockBuilder'):
            continue
        for c in calls_in(f.node, nested=False):
            m = method_name(c)
            if m in MUTATORS and c.args:
                n += 1
                dst = c.args[MUTATORS[m]]
                ok, why = (_own_storage(f, dst.id) if isinstance(dst, ast.Name) else (False, f'`{src(dst)[:40]}` is not a local owned array'))
                rep.ob(rule, f.key, f.where(c), ok, f'{m}({src(dst)}, ...) writes into {why}' if ok else
                       f'`{src(c)[:80]}` mutates in place something that is not owned by {f.qualname}: {why}; a shared subterm, a cached constant or a caller\'s argument would be modified',
                       statement=f'{m}({src(dst)})')
    if n < 7:
        raise AnalysisError(f'only {n} emitted in-place operations found')
    # destinations handed to compile_with_out by a node must be owned as well
    for f in model.functions.values():
        if f.module.short != 'evaluable' or isinstance(f.node, ast.Lambda):
            continue
        for c in calls_in(f.node, nested=False):
            if method_name(c) == 'compile_with_out' and isinstance(c.func, ast.Attribute) and src(c.func.value) == 'builder' and len(c.args) >= 2:
                dst = c.args[1]
                ok, why = _own_destination(f, dst)
                rep.ob(rule, f.key, f.where(c), ok, f'child is compiled into {why}' if ok else f'`{src(c)[:70]}` lets a child write in place into storage this node does not own ({why})', statement=f'compile_with_out({src(dst)})')
            if method_name(c) == '_compile_with_out' and src(c.func.value) == 'self' and len(c.args) >= 2:
                dst = c.args[1]
                ok, why = _own_destination(f, dst)
                rep.ob(rule, f.key, f.where(c), ok, f'self is compiled into {why}' if ok else f'`{src(c)[:70]}` writes in place into storage that is not fresh ({why})', statement=f'self._compile_with_out({src(dst)})')


def check_zero_fill(model, rep):
    A = model.cls('evaluable:Array')
    n = 0
    for c in model.subclasses(A, strict=True):
        mem = c.members.get('_compile_with_out')
        if mem is None or mem.func is None:
            continue
        f = mem.func
        n += 1
        views = {}
        for s in find_stmts(f.body, lambda s: isinstance(s, ast.Assign)):
            if isinstance(s.targets[0], ast.Name) and _view_kind(s.value) is not None:
                views[s.targets[0].id] = _view_kind(s.value)

        def on_stmt(s, st):
            evs = []
            for call in ast.walk(s):
                if not isinstance(call, ast.Call):
                    continue
                m = method_name(call)
                if m == 'array_fill_zeros' and call.args and src(call.args[0]) == 'out':
                    evs.append(Event('FILL', s))
                elif m == 'array_add_at' and call.args and src(call.args[0]) == 'out':
                    evs.append(Event('ACC', s, 'add_at'))
                elif m == 'compile_with_out' and len(call.args) >= 4:
                    dst, mode = src(call.args[1]), call.args[3]
                    kind = 'out' if dst == 'out' else views.get(dst) or _view_kind(call.args[1]) or '?'
                    if const(mode) == 'iadd':
                        evs.append(Event('ACC', s, f'iadd into {dst}'))
                    elif src(mode) == 'mode':
                        evs.append(Event('FWD', s, kind))   # 'mode' may have been rebound to 'iadd' on this path: decided while walking the path
                    else:
                        evs.append(Event('FWD', s, kind + ':' + src(mode)))
            if isinstance(s, ast.Assign) and len(s.targets) == 1 and src(s.targets[0]) == 'mode':
                evs.append(Event('SETMODE', s, const(s.value)))
            return evs
        paths = PathEnumerator(f.node, on_stmt=on_stmt, unroll=2).paths()
        bad = None
        for p in paths:
            if p.end == 'raise':
                continue
            filled = False
            not_assign = False
            forwarded_assign = None
            for e in p.events:
                if e.kind == 'SETMODE':
                    not_assign = e.data == 'iadd'
                    continue
                if e.kind == 'FWD' and e.data in ('out', 'full') and not not_assign and not filled:
                    forwarded_assign = e
                if e.kind in ('ACC', 'FWD') and forwarded_assign is not None and e is not forwarded_assign and not filled:
                    bad = (e, 'accumulates into out after the (possible) assign mode was forwarded to another term: the statements are placed by block order, not in this order, so the forwarded assignment can be emitted '
                              'after an accumulation and overwrite it - one term of the sum is lost')
                if e.kind == 'cond' and src(e.node).replace(' ', '') in ("mode=='assign'",):
                    if e.data[0] is False:
                        not_assign = True
                if e.kind == 'FILL':
                    filled = True
                if e.kind == 'ACC' and not filled and not not_assign:
                    bad = (e, 'accumulates into out')
                if e.kind == 'FWD' and e.data == 'partial' and not filled and not not_assign:
                    bad = (e, 'forwards mode to a view that covers only part of out (the diagonal)')
                if e.kind == 'FWD' and e.data == '?':
                    bad = (e, 'forwards to an unrecognised destination')
        rep.ob('R02.2', f.key, f.where(bad[0].node) if bad else f.where(), bad is None,
               f'on all {len(paths)} paths an accumulation into out is preceded by array_fill_zeros(out) unless mode is not assign' if bad is None else
               f'`{stmt_text(bad[0].node)[:70]}` {bad[1]} on a path on which mode may be \'assign\' and out was not zero-filled: the result contains whatever numpy.empty returned',
               statement='zero-fill-before-accumulate')
        modes = [a for a in find_stmts(f.body, lambda s: isinstance(s, ast.Assert)) if 'mode in' in src(a.test)]
    if n < 7:
        raise AnalysisError(f'only {n} _compile_with_out implementations found')


def check_who_may_call(model, rep):
    n = 0
    for f in model.functions.values():
        if f.module.short != 'evaluable' or isinstance(f.node, ast.Lambda):
            continue
        for c in calls_in(f.node, nested=False):
            if method_name(c) == '_compile_with_out' and isinstance(c.func, ast.Attribute):
                recv = src(c.func.value)
                n += 1
                if recv == 'self':
                    ok = f.name == '_compile' and len(c.args) + len(c.keywords) == 4 and (src(c.args[-1]) if len(c.args) == 4 else src(next(k.value for k in c.keywords if k.arg == 'mode'))) == "'assign'"
                    rep.ob('R02.3', f.key, f.where(c), ok, 'a node compiles itself into its own fresh array with mode assign' if ok else
                           f'`{src(c)[:70]}`: a node may call its own _compile_with_out only from _compile with mode \'assign\' into a fresh array', statement='self._compile_with_out')
                else:
                    ok = f.key == 'evaluable:_BlockTreeBuilder.compile_with_out'
                    rep.ob('R02.3', f.key, f.where(c), ok, 'the in-place protocol of another node is entered through the builder' if ok else
                           f'`{src(c)[:70]}` calls the in-place protocol of another node directly, bypassing the dependents/block-order escapes of builder.compile_with_out', statement=f'{recv}._compile_with_out')
    b = model.func('evaluable:_BlockTreeBuilder.compile_with_out')
    # decided by executing the statements over the eight truth assignments of the three tests (short circuit respected), so that the way the
    # decision is spelled (one `or`, a flag that is refined, nested ifs) does not matter: the in-place call of the term is EVALUATED iff the term has a
    # single dependent and is not placed before the destination; the fallback runs iff one of the two holds or the call answered NotImplemented
    import itertools
    from sa.boolnf import formula as _formula
    import sa.boolnf as _B

    def _formula_int(e):     # counts and block ids are totally ordered: `a <= b` is `not b < a`
        old_, _B.TOTAL_ORDER = _B.TOTAL_ORDER, True
        try:
            return _formula(e)
        finally:
            _B.TOTAL_ORDER = old_
    KA, KB = _formula_int(ast.parse('self.ndependents[evaluable] > 1', mode='eval').body), _formula_int(ast.parse('evaluable_block_id < out_block_id', mode='eval').body)

    _REL = {ast.Lt: ('lt',), ast.LtE: ('lt', 'eq'), ast.Gt: ('gt',), ast.GtE: ('gt', 'eq'), ast.Eq: ('eq',), ast.NotEq: ('lt', 'gt')}

    class _Unknown(Exception):
        pass

    class _Done(Exception):
        pass

    def bev(e, env, val, st):
        if isinstance(e, ast.BoolOp):
            r = None
            for x in e.values:
                r = bev(x, env, val, st)
                if (isinstance(e.op, ast.Or) and r) or (isinstance(e.op, ast.And) and not r):
                    return r
            return r
        if isinstance(e, ast.UnaryOp) and isinstance(e.op, ast.Not):
            return not bev(e.operand, env, val, st)
        if isinstance(e, ast.Name) and e.id in env:
            return env[e.id]
        if isinstance(e, ast.Constant) and isinstance(e.value, bool):
            return e.value
        if isinstance(e, ast.Compare) and len(e.ops) == 1:
            inplace = any(isinstance(c, ast.Call) and method_name(c) == '_compile_with_out' for c in ast.walk(e))
            if inplace and isinstance(e.ops[0], (ast.Is, ast.IsNot, ast.Eq, ast.NotEq)) and 'NotImplemented' in (src(e.left), src(e.comparators[0])):
                st['evaluated'] += 1
                return val['C'] == isinstance(e.ops[0], (ast.Is, ast.Eq))
            # an order comparison of the two quantities the decision depends on, in any spelling: decided from their order relation
            l_, r_ = src(e.left), src(e.comparators[0])
            if type(e.ops[0]) in _REL:
                ND = 'self.ndependents[evaluable]'
                for a__, b__, flip in ((e.left, e.comparators[0], False), (e.comparators[0], e.left, True)):
                    if src(a__) == ND and isinstance(const(b__), int) and not isinstance(const(b__), bool):
                        n_, k_ = val['A'], const(b__)       # the number of dependents against a literal
                        rel = 'lt' if n_ < k_ else 'eq' if n_ == k_ else 'gt'
                        if flip:
                            rel = {'lt': 'gt', 'gt': 'lt', 'eq': 'eq'}[rel]
                        return rel in _REL[type(e.ops[0])]
                if {l_, r_} == {'evaluable_block_id', 'out_block_id'}:
                    rel = val['B'] if l_ == 'evaluable_block_id' else {'lt': 'gt', 'gt': 'lt', 'eq': 'eq'}[val['B']]
                    return rel in _REL[type(e.ops[0])]
            if src(e) == "mode == 'assign'" or src(e) == "mode == 'iadd'":
                return True
        raise _Unknown(src(e))

    def bexec(stmts, env, val, st):
        def relevant(node):
            return any(isinstance(c, ast.Call) and (method_name(c) == '_compile_with_out' or src(c.func) == 'self.compile') for c in ast.walk(node)) or \
                any(isinstance(n_, ast.Name) and n_.id in env for n_ in ast.walk(node))
        for s_ in stmts:
            if isinstance(s_, ast.Return) and s_.value is None:
                raise _Done()
            if isinstance(s_, ast.If):
                try:
                    taken = bev(s_.test, env, val, st)
                except _Unknown:
                    if relevant(s_):
                        raise
                    continue    # a test that has nothing to do with the in-place decision (e.g. index bookkeeping)
                bexec(s_.body if taken else s_.orelse, env, val, st)
            elif isinstance(s_, ast.Assign) and len(s_.targets) == 1 and isinstance(s_.targets[0], ast.Name) and isinstance(s_.value, (ast.BoolOp, ast.Compare, ast.UnaryOp, ast.Constant)) \
                    and (isinstance(s_.value, (ast.BoolOp, ast.Compare)) or (isinstance(s_.value, ast.UnaryOp) and isinstance(s_.value.op, ast.Not)) or isinstance(getattr(s_.value, 'value', None), bool)):
                env[s_.targets[0].id] = bev(s_.value, env, val, st)
            else:
                if any(isinstance(c, ast.Call) and method_name(c) == '_compile_with_out' for c in ast.walk(s_)):
                    st['evaluated'] += 1    # called outside a test: evaluated unconditionally at this point
                if any(isinstance(c, ast.Call) and src(c.func) == 'self.compile' for c in ast.walk(s_)):
                    st['fallback'] += 1
    wrong = None
    try:
        for ra_, rb_, c_ in itertools.product((0, 1, 2, 3), ('lt', 'eq', 'gt'), (False, True)):
            a_, b_ = ra_ > 1, rb_ == 'lt'     # several dependents; placed before the destination
            st = {'evaluated': 0, 'fallback': 0}
            try:
                bexec(b.body, {}, {'A': ra_, 'B': rb_, 'C': c_}, st)
            except _Done:
                pass
            # safety, not optimality: the in-place protocol may be entered only for a single dependent that is not placed before the destination
            # (declining more often merely copies); the fallback runs exactly when the protocol was not entered or answered NotImplemented
            ev_ = st['evaluated'] > 0
            if (ev_ and (a_ or b_)) or st['evaluated'] > 1 or (st['fallback'] > 0) != (not ev_ or c_):
                wrong = wrong or (a_, b_, c_, st)
    except _Unknown as e:
        # a test over the block ids / the dependents count that is not an order comparison of exactly these quantities (e.g. of their lengths) is
        # not the decision the protocol needs; anything else the rule does not understand is an analysis error
        t_ = str(e)
        if any(k_ in t_ for k_ in ('evaluable_block_id', 'out_block_id', 'self.ndependents')):
            rep.ob('R02.3', b.key, b.where(), False, f'the escape decision of compile_with_out tests `{t_[:80]}`: the in-place protocol may be entered only when the term has a single dependent '
                   '(self.ndependents[evaluable] <= 1) and is not placed before the destination (evaluable_block_id >= out_block_id, compared as block ids); another test over these quantities decides something else',
                   statement='escape-order')
            return
        raise AnalysisError(f'_BlockTreeBuilder.compile_with_out: the escape test was not found (unrecognised test `{e}`)')
    # the fallback: the statement list that holds `... = self.compile(evaluable)` (the body of the escape test, or the rest of the function after an early return)
    def holder(stmts):
        for i_, s_ in enumerate(stmts):
            if not isinstance(s_, (ast.If, ast.For, ast.While, ast.With, ast.Try)) and any(isinstance(c, ast.Call) and src(c.func) == 'self.compile' for c in ast.walk(s_)):
                return stmts[i_:]
            for fld in ('body', 'orelse', 'finalbody'):
                sub = getattr(s_, fld, None)
                if isinstance(sub, list) and sub and isinstance(sub[0], ast.stmt):
                    r_ = holder(sub)
                    if r_:
                        return r_
        return None
    fb = holder(b.body)
    if not fb:
        raise AnalysisError('_BlockTreeBuilder.compile_with_out: the fallback branch was not found')
    ifs = [fb[0]]
    ok = wrong is None
    rep.ob('R02.3', b.key, b.where(ifs[0]), ok, 'in-place compilation is tried only for a term with a single dependent that is not placed before the destination; NotImplemented falls back' if ok else
           f'with (several dependents, placed before the destination, answered NotImplemented) = {wrong[:3]} the in-place protocol of the term is ' + ('' if wrong[3]['evaluated'] else 'not ') +
           'entered and the copy/add fallback is ' + ('' if wrong[3]['fallback'] else 'not ') + 'emitted; it must try `ndependents > 1`, `block before destination` before the in-place call and treat NotImplemented as fallback', statement='escape-order')
    body = fb
    txt = ' ; '.join(src(s) for s in body)
    # the fallback is followed for each mode: 'assign' copies, 'iadd' adds, anything else raises ValueError before a statement is emitted -
    # wherever in the function the mode is validated
    def mode_only(t):
        return all(isinstance(n_, (ast.Compare, ast.BoolOp, ast.UnaryOp, ast.Not, ast.And, ast.Or, ast.Eq, ast.NotEq, ast.In, ast.NotIn, ast.Is, ast.IsNot, ast.Constant, ast.Tuple, ast.List, ast.Set, ast.Load))
                   or (isinstance(n_, ast.Name) and n_.id == 'mode') for n_ in ast.walk(t))

    def has_compile(stmts):
        return any(isinstance(c, ast.Call) and src(c.func) == 'self.compile' for x in stmts for c in ast.walk(x))

    def follow(stmts, m, ev):
        for s_ in stmts:
            if isinstance(s_, ast.If):
                if mode_only(s_.test):
                    taken = eval(compile(ast.Expression(body=s_.test), '<mode-test>', 'eval'), {'__builtins__': {}}, {'mode': m})
                    r_ = follow(s_.body if taken else s_.orelse, m, ev)
                elif has_compile(s_.body):
                    r_ = follow(s_.body, m, ev)
                elif has_compile(s_.orelse):
                    r_ = follow(s_.orelse, m, ev)
                else:
                    r_ = None     # the escape test in early-return form, or a test that has nothing to do with the fallback
                if r_:
                    return r_
            elif isinstance(s_, ast.Raise):
                ev.append('raise ' + (src(s_.exc.func) if isinstance(s_.exc, ast.Call) else src(s_.exc) if s_.exc else ''))
                return 'raise'
            elif isinstance(s_, ast.Return):
                return 'return'
            else:
                for c in ast.walk(s_):
                    if isinstance(c, ast.Call) and method_name(c) in ('array_copy', 'array_iadd') and [src(a) for a in c.args] == ['out', 'value']:
                        ev.append(method_name(c))
        return None
    seen = {}
    for m_ in ('assign', 'iadd', 'something else'):
        ev_ = []
        follow(b.body, m_, ev_)
        seen[m_] = ev_
    ok = 'value = self.compile(evaluable)' in txt and seen['assign'] == ['array_copy'] and seen['iadd'] == ['array_iadd'] and seen['something else'] == ['raise ValueError']
    rep.ob('R02.3', b.key, b.where(ifs[0]), ok, 'the fallback copies (assign) or adds (iadd) the separately compiled value and rejects other modes' if ok else 'the copy/iadd fallback of compile_with_out changed', statement='fallback')
    blk = [c for c in calls_in(b.node) if method_name(c) == 'get_block_for_evaluable']
    ok = len(blk) == 1 and any(k.arg == 'block_id' and src(k.value).replace(' ', '') == 'builtins.max(evaluable_block_id,out_block_id)' for k in blk[0].keywords)
    rep.ob('R02.3', b.key, b.where(), ok, 'the fallback statement is placed after both the value and the destination exist' if ok else 'the fallback is not placed in max(evaluable_block_id, out_block_id)', statement='fallback-block')
    # loops: the in-place protocol must decline when the destination is defined after the loop index (sibling agreement of the Loop classes)
    L = model.cls('evaluable:Loop')
    for c in model.subclasses(L, strict=True):
        mem = c.members.get('_compile_with_out')
        if mem is None or mem.func is None:
            continue
        f = mem.func
        def is_escape(s):
            # `out_block_id > builder.get_block_id(self.index)` in any spelling (mirrored, or with the block id of the index held in a local)
            if not (isinstance(s, ast.If) and isinstance(s.test, ast.Compare) and len(s.test.ops) == 1 and any(isinstance(b, ast.Return) and src(b.value) == 'NotImplemented' for b in s.body)):
                return False
            l, r = resolved(f.node, s.test.left, s.lineno), resolved(f.node, s.test.comparators[0], s.lineno)
            if isinstance(s.test.ops[0], ast.Lt):
                l, r = r, l
            elif not isinstance(s.test.ops[0], ast.Gt):
                return False
            return src(l) == 'out_block_id' and src(r).replace(' ', '') == 'builder.get_block_id(self.index)'
        esc = [s for s in f.body if is_escape(s)]
        first_emit = min([x.lineno for x in calls_in(f.node) if method_name(x) in ('array_fill_zeros', 'compile_with_out', 'compile')] or [10 ** 9])
        ok = len(esc) == 1 and esc[0].lineno < first_emit
        rep.ob('R02.3', f.key, f.where(esc[0]) if esc else f.where(), ok, f'{c.name} declines in-place compilation when the loop body would precede the definition of out' if ok else
               f'{c.name}._compile_with_out lost the escape `if out_block_id > builder.get_block_id(self.index): return NotImplemented` in front of its first emission: the loop body would write into an array that is allocated later',
               statement='loop-escape')
    a = model.func('evaluable:Add._compile')
    ifs = [s for s in a.body if isinstance(s, ast.If)]
    # the test may delegate to a local predicate (def or lambda) of the same function: its body counts as part of the test
    local_preds = [d for d in ast.walk(a.node) if (isinstance(d, ast.FunctionDef) and d is not a.node) or isinstance(d, ast.Lambda)]
    ttxt = src(ifs[0].test) + ' ' + ' '.join(src(d) for d in local_preds if isinstance(d, ast.Lambda) or d.name in src(ifs[0].test)) if ifs else ''
    ttxt += ' ' + ' '.join(src(resolved(a.node, n_)) for n_ in ast.walk(ifs[0].test) if isinstance(n_, ast.Name)) if ifs else ''
    ok = len(ifs) == 1 and 'any(' in src(ifs[0].test) and 'builder.ndependents[func] == 1' in ttxt and '_compile_with_out != Array._compile_with_out' in ttxt
    rep.ob('R02.3', a.key, a.where(), ok, 'Add starts an in-place chain only for a term with exactly one dependent that implements the protocol' if ok else 'the condition under which Add compiles in place changed', statement='add-inplace-condition')


def _fields(cls):
    '''annotated fields (dataclass) or attributes assigned in __init__: name -> annotation text or None'''
    out = {}
    for name, ann, _ in cls.fields:
        out[name] = ann
    init = cls.members.get('__init__')
    if init is not None and init.func is not None:
        for s in find_stmts(init.func.body, lambda s: isinstance(s, ast.Assign)):
            t = s.targets[0]
            if isinstance(t, ast.Attribute) and src(t.value) == 'self':
                out.setdefault(t.attr.lstrip('_') if False else t.attr, None)
    return out


def check_printer(model, rep, rule='R02.4'):
    m = model.module('_pyast')
    E = m.classes['Expression']
    S = m.classes['Statements']
    nexp = 0
    for c in model.subclasses(E, strict=True):
        if c.module is not m or c.name.startswith('_Literal') or c.name in ('Raw', 'Variable', 'LiteralBool', 'LiteralInt', 'LiteralFloat', 'LiteralComplex', 'LiteralStr'):
            continue
        fields = _fields(c)
        exprf = [n for n, a in fields.items() if a is None or 'Expression' in a or n in ('items', 'args', 'kwargs', 'func')]
        exprf = [n for n in exprf if fields[n] != 'str']
        for prop in ('variables', 'py_expr'):
            mem = c.members.get(prop)
            if mem is None or mem.func is None:
                continue
            txt = src(mem.func.node)
            nexp += 1
            missing = [n for n in exprf if f'self.{n}' not in txt and f'self._{n}' not in txt]
            rep.ob(rule, mem.func.key, mem.func.where(), not missing, f'{c.name}.{prop} covers {exprf}' if not missing else
                   f'{c.name}.{prop} does not mention {missing}: ' + ('variables inside that operand are invisible to the lock discipline and the rerun filter' if prop == 'variables' else 'that operand is not printed'),
                   statement=f'{prop} covers fields')
    if nexp < 14:
        raise AnalysisError(f'only {nexp} expression printer members found')
    nst = 0
    for c in model.subclasses(S, strict=True):
        if c.module is not m:
            continue
        fields = _fields(c)
        stf = [n for n, a in fields.items() if (a and 'Statements' in a) or n in ('body', 'else_body', 'statements', '_items')]
        exf = [n for n, a in fields.items() if (a and 'Expression' in a) or n in ('condition',)]
        for meth in ('lines', '__bool__', 'filter'):
            mem = c.members.get(meth)
            if mem is None or mem.func is None:
                rep.ob(rule, f'{c.key}.{meth}', f'{m.relpath}:{c.node.lineno}', False, f'{c.name} does not define {meth}', statement=f'{meth} defined')
                continue
            txt = src(mem.func.node)
            nst += 1
            if meth == 'lines':
                need = stf + exf
            elif meth == 'filter':
                need = stf
            else:
                need = [] if c.name in ('Assign', 'Exec', 'Assert', 'Raise') else (stf if c.name != 'With' else stf + ['omit_if_body_is_empty'])
            if meth == 'filter':
                missing = [n for n in need if f'self.{n}.filter(' not in txt and not (n == '_items' and 'item.filter(f) for item in self._items' in txt)]
            else:
                missing = [n for n in need if f'self.{n}' not in txt]
            rep.ob(rule, mem.func.key, mem.func.where(), not missing, f'{c.name}.{meth} covers {need}' if not missing else
                   f'{c.name}.{meth} does not use {missing}: ' + {'lines': 'that part of the statement is not printed', 'filter': 'the rerun filter cannot reach the statements nested there', '__bool__': 'emptiness is computed without it'}[meth],
                   statement=f'{meth} covers fields')
            if meth == 'filter' and stf:
                # reconstruction passes every field on
                ctor = [x for x in calls_in(mem.func.node) if isinstance(x.func, ast.Name) and x.func.id == c.name]
                ok = bool(ctor) and all(any(f'self.{n}' in src(a) for a in list(ctor[0].args) + [k.value for k in ctor[0].keywords]) for n in fields if not n.startswith('_'))
                rep.ob(rule, mem.func.key, mem.func.where(), ok, f'{c.name}.filter rebuilds the statement from all its fields' if ok else
                       f'{c.name}.filter drops a field when rebuilding the filtered statement', statement='filter rebuilds')
    if nst < 30:
        raise AnalysisError(f'only {nst} statement printer members found')
    # R02.5 operands are parenthesised
    for cname, ops in (('BinOp', ['lhs', 'rhs']), ('UnaryOp', ['rhs']), ('GetAttr', ['value']), ('GetItem', ['value']), ('UnpackIterable', ['iterable'])):
        mem = m.classes[cname].members['py_expr']
        txt = src(mem.func.node)
        missing = [o for o in ops if f'self.{o}.py_paren_expr' not in txt]
        rep.ob('R02.5', mem.func.key, mem.func.where(), not missing, f'{cname} interpolates {ops} through py_paren_expr' if not missing else
               f'{cname}.py_expr interpolates {missing} without parentheses: precedence of the generated code differs from the expression tree', statement='operands-parenthesised')
    b = m.classes['Expression'].members['py_paren_expr']
    ok = "f'({self.py_expr})'" in src(b.func.node) or '"(" + self.py_expr + ")"' in src(b.func.node)
    rep.ob('R02.5', b.func.key, b.func.where(), ok, 'the default py_paren_expr wraps in parentheses', statement='default-paren')


def check_compiled_subset_dependencies(model, rep, rule='R02.6'):
    E = model.cls('evaluable:Evaluable')
    n = 0
    for c in model.subclasses(E, strict=True):
        deps = model.lookup(c, 'dependencies')
        if deps is None or deps[1].func is None:
            continue
        dtxt = src(deps[1].func.node)
        # expand properties referenced by `dependencies` (init_args, body_args, ...) through the MRO
        announced = set()
        todo = [dtxt]
        seen_props = set()
        while todo:
            t = todo.pop()
            for tok in _self_attrs(t):
                announced.add(tok)
                if tok in seen_props:
                    continue
                seen_props.add(tok)
                pm = model.lookup(c, tok)
                if pm is not None and pm[1].func is not None and tok not in ('dependencies',):
                    todo.append(src(pm[1].func.node))
        is_loop = model.lookup(c, 'index') is not None and '_LoopIndex' in src(model.lookup(c, 'index')[1].func.node) if model.lookup(c, 'index') and model.lookup(c, 'index')[1].func else False
        for mname in ('_compile', '_compile_with_out'):
            mem = c.members.get(mname)
            if mem is None or mem.func is None:
                continue
            f = mem.func
            for call in calls_in(f.node):
                if method_name(call) in ('compile', 'get_block_id') and isinstance(call.func, ast.Attribute) and src(call.func.value) == 'builder' and call.args:
                    for a in ast.walk(call.args[0]):
                        if isinstance(a, ast.Attribute) and src(a.value) == 'self' and a.attr not in ('dependencies',):
                            fld = a.attr
                            n += 1
                            reach = fld in announced or fld == 'shape'
                            if not reach and fld == 'index' and is_loop and method_name(call) == 'get_block_id':
                                reach = True   # the loop's own index is registered by compile() before any node is compiled
                            rep.ob(rule, f.key, f.where(call), reach, f'self.{fld} is compiled and announced in dependencies' if reach else
                                   f'{c.name}.{mname} compiles self.{fld}, which `dependencies` does not announce: block placement, `arguments` and the loop analysis are computed without it', statement=f'compiles self.{fld}')
    if n < 25:
        raise AnalysisError(f'only {n} compiled fields found')


FIELD_EXEMPT = {('ArrayFromTuple', 'shape'): 'metadata of the wrapped tuple item, checked at run time, not evaluated',
                ('WithDerivative', 'derivative'): 'used only when differentiating to the stored target, never evaluated',
                ('RavelIndex', 'na'): 'ia*nb+ib does not need the length of the first axis'}


def check_fields_announced(model, rep, rule='R02.6'):
    """Every Array-typed constructor field of a node is reachable from its `dependencies` (arguments, isconstant, block placement
    and loop analysis are computed from the dependencies; a field that is evaluated but not announced hides its arguments)."""
    E = model.cls('evaluable:Evaluable')
    n = 0
    for c in model.subclasses(E, strict=True):
        deps = model.lookup(c, 'dependencies')
        if deps is None or deps[1].func is None:
            continue
        announced = set()
        todo = [src(deps[1].func.node)]
        seen = set()
        while todo:
            t = todo.pop()
            for tok in _self_attrs(t):
                announced.add(tok)
                if tok in seen:
                    continue
                seen.add(tok)
                pm = model.lookup(c, tok)
                if pm is not None and pm[1].func is not None and tok != 'dependencies':
                    todo.append(src(pm[1].func.node))
        fields = []
        for k in reversed(model.mro(c)):
            fields += [(nm, ann, k) for nm, ann, _ in k.fields]
        for nm, ann, owner in fields:
            if 'Array' not in ann:
                continue
            n += 1
            if (c.name, nm) in FIELD_EXEMPT or (owner.name, nm) in FIELD_EXEMPT:
                continue
            ok = nm in announced
            rep.ob(rule, f'{c.key}.dependencies', f'{c.module.relpath}:{deps[1].func.lineno}', ok, f'field {nm}: {ann} is an announced dependency' if ok else
                   f'{c.name} has the array-valued field `{nm}` but `dependencies` (defined in {deps[0].name}) does not announce it: its arguments are hidden, so the node can be taken for a constant and cached across calls',
                   statement=f'field {nm} announced')
    if n < 100:
        raise AnalysisError(f'only {n} array-typed fields found')


def _self_attrs(text):
    import re
    return set(re.findall(r'self\.([A-Za-z_][A-Za-z0-9_]*)', text))


def check_expression_arity(model, rep):
    E = model.cls('evaluable:Evaluable')
    n = 0
    for c in model.subclasses(E, strict=True):
        ce = c.members.get('_compile_expression')
        if ce is None or ce.func is None:
            continue
        deps = model.lookup(c, 'dependencies')
        if deps is None or deps[1].func is None:
            continue
        rets = find_stmts(deps[1].func.body, lambda s: isinstance(s, ast.Return))
        if len(rets) != 1 or not isinstance(rets[0].value, ast.Tuple) or any(isinstance(e, ast.Starred) for e in rets[0].value.elts):
            continue
        ndep = len(rets[0].value.elts)
        lo, hi = arity(ce.func.node)
        n += 1
        ok = lo - 1 <= ndep and (hi is None or hi - 1 >= ndep)
        rep.ob('R02.7', ce.func.key, ce.func.where(), ok, f'_compile_expression takes the {ndep} compiled dependencies' if ok else
               f'{c.name}._compile_expression takes {lo - 1} arguments but `dependencies` has {ndep} entries: TypeError when the node is compiled', statement='expression-arity')
    if n < 60:
        raise AnalysisError(f'only {n} _compile_expression/dependencies pairs found')


def check_dependency_registration(model, rep, rule='R02.9'):
    """Every builder.compile(e) call records the edge origin -> e BEFORE looking at the cache of compiled evaluables: the
    constant-intermediate cache and the rerun filter are computed from these edges, also for the second consumer of e."""
    f = model.func('evaluable:_BlockTreeBuilder.compile')
    # an unconditional statement of the function body that adds the evaluable to the edge set of the origin (setdefault(...).add or [origin].add after creating the set)
    reg = [s for s in f.body if isinstance(s, ast.Expr) and src(s.value).replace(' ', '') in ('self._evaluable_deps.setdefault(self._origin,util.IDSet()).add(evaluable)', 'self._evaluable_deps[self._origin].add(evaluable)')]
    look = [s for s in f.body if isinstance(s, ast.If) and '_compiled_cache.get(evaluable)' in src(s.test)]
    ok = len(reg) == 1 and len(look) == 1 and reg[0].lineno < look[0].lineno
    rep.ob(rule, f.key, f.where(reg[0]) if reg else f.where(), ok, 'the dependency edge is recorded unconditionally, before the compiled-cache lookup' if ok else
           'the dependency edge origin -> evaluable is recorded only on a cache miss (or not at all): a constant intermediate consumed a second time is neither cached nor recomputed on reruns', statement='edge-before-lookup')


# --- R02.10: einsum labels and axis positions are different kinds of integers -------------------------------------------

POS, LAB = 'position', 'label'


def _kind(e, env):
    """kind of an expression in the Einsum-fusing rules: POS | LAB | ('seq', kind) | ('seq', ('seq', LAB)) | None"""
    t = src(e)
    if isinstance(e, ast.Name):
        return env.get(e.id)
    if isinstance(e, ast.Attribute):
        if e.attr == 'out_idx':
            return ('seq', LAB)
        if e.attr == 'args_idx':
            return ('seq', ('seq', LAB))
        if e.attr == 'axes':
            return ('seq', POS)
        if e.attr == 'ndim':
            return POS
    if isinstance(e, ast.Subscript):
        base = _kind(e.value, env)
        if isinstance(base, tuple) and base[0] == 'seq':
            return base if isinstance(e.slice, ast.Slice) else base[1]
        return None
    if isinstance(e, ast.BinOp):
        a, b = _kind(e.left, env), _kind(e.right, env)
        if isinstance(a, tuple) and a == b:
            return a
        if a in (POS, LAB) and (b is None or b == a or isinstance(e.right, (ast.Compare, ast.Constant))):
            return a
        return a or b
    if isinstance(e, ast.Call):
        n = src(e.func)
        if n in ('range',):
            return ('seq', POS)
        if n in ('list', 'tuple') and e.args:
            return _kind(e.args[0], env)
    if isinstance(e, (ast.ListComp, ast.GeneratorExp)):
        env2 = dict(env)
        for g in e.generators:
            k = _kind(g.iter, env2)
            if isinstance(k, tuple) and k[0] == 'seq' and isinstance(g.target, ast.Name):
                env2[g.target.id] = k[1]
        k = _kind(e.elt, env2)
        return ('seq', k) if k else None
    if isinstance(e, ast.IfExp):
        a, b = _kind(e.body, env), _kind(e.orelse, env)
        return a if a == b else (a or b)
    return None


def check_label_position_typing(model, rep):
    targets = ['evaluable:Sum._optimized_for_numpy', 'evaluable:TakeDiag._optimized_for_numpy', 'evaluable:Einsum._optimized_for_numpy']
    ncmp = 0
    for key in targets:
        f = model.func(key)
        env = {}
        # two passes to propagate through straight-line assignments and loops
        for _ in range(3):
            for s in ast.walk(f.node):
                if isinstance(s, ast.Assign):
                    t = s.targets[0]
                    k = _kind(s.value, env)
                    if isinstance(t, ast.Name) and k:
                        env[t.id] = k
                    elif isinstance(t, ast.Tuple) and isinstance(k, tuple) and k[0] == 'seq':
                        for x in t.elts:
                            if isinstance(x, ast.Name):
                                env[x.id] = k[1]
                elif isinstance(s, (ast.For, ast.comprehension)):
                    k = _kind(s.iter, env)
                    tg = s.target
                    if isinstance(k, tuple) and k[0] == 'seq':
                        if isinstance(tg, ast.Name):
                            env[tg.id] = k[1]
                    if isinstance(s.iter, ast.Call) and src(s.iter.func) == 'enumerate' and isinstance(tg, ast.Tuple) and len(tg.elts) == 2:
                        env[tg.elts[0].id] = None
        problems = []
        for n in ast.walk(f.node):
            # comprehension scopes: bind their targets before judging the comparisons inside
            if isinstance(n, (ast.ListComp, ast.GeneratorExp, ast.SetComp)):
                env2 = dict(env)
                for g in n.generators:
                    k = _kind(g.iter, env2)
                    if isinstance(k, tuple) and k[0] == 'seq' and isinstance(g.target, ast.Name):
                        env2[g.target.id] = k[1]
                scope_env = env2
            else:
                continue
            for c in ast.walk(n):
                if isinstance(c, ast.Compare) and len(c.ops) == 1 and isinstance(c.ops[0], (ast.Eq, ast.NotEq, ast.Gt, ast.Lt, ast.GtE, ast.LtE)):
                    a, b = _kind(c.left, scope_env), _kind(c.comparators[0], scope_env)
                    if a in (POS, LAB) and b in (POS, LAB):
                        ncmp += 1
                        if a != b:
                            problems.append((c, a, b))
                if isinstance(c, ast.Subscript) and not isinstance(c.slice, ast.Slice):
                    base = _kind(c.value, scope_env)
                    ik = _kind(c.slice, scope_env)
                    if isinstance(base, tuple) and base[0] == 'seq' and ik == LAB and src(c.value).endswith(('out_idx', 'axes')):
                        problems.append((c, 'index by label', ''))
        if problems:
            for c, a, b in problems:
                rep.ob('R02.10', f.key, f.where(c), False, f'`{src(c)}` mixes an einsum {a} with an axis {b}: labels and positions coincide only for an Einsum fresh from a Multiply, not after a Sum was folded into it',
                       statement=f'mixes {src(c)}')
        else:
            rep.ob('R02.10', f.key, f.where(), True, 'einsum labels are only compared with labels and axis positions with positions', statement='label/position typing')
    if ncmp < 3:
        raise AnalysisError(f'label/position typing recognised only {ncmp} comparisons')


def check_assemble_transposition(model, rep):
    """R02.13: Assemble._compile_with_out emits `out[index1, index2, ...] += func.transpose(...)`.  NumPy places the broadcast axes of the
    ADVANCED indices first whenever two of them (0-d ones included) are separated by a slice, and leaves them in place otherwise; the
    operand must be transposed accordingly: (axes of func that belong to advanced indices, in order) + (axes of func that belong to
    ranges, in order).  The method's own bookkeeping is interpreted (sa/miniexec.py: exact ints/lists, opaque builder/_pyast values)
    for every arrangement of one to four indices that are a Range, or an advanced index with 0, 1 or 2 axes, and the permutation it
    hands to array_add_at is compared with that rule."""
    import itertools
    from sa.miniexec import MiniExec, Opaque, Sym, Returned, AssertionFailed
    from sa.algebra import Unsupported
    f = model.func('evaluable:Assemble._compile_with_out')

    class RangeT(Sym):
        pass

    class AdvT(Sym):
        pass
    bad = None
    n = 0
    try:
        for length in (1, 2, 3, 4):
            for kinds in itertools.product(('R', 'A0', 'A1', 'A2'), repeat=length):
                indices = [RangeT(ndim=1, shape=[Opaque('n')]) if k == 'R' else AdvT(ndim=int(k[1]), shape=[Opaque('m')] * int(k[1])) for k in kinds]
                nd = sum(i.ndim for i in indices)
                self_ = Sym(indices=tuple(indices), func=Sym(ndim=nd), shape=tuple(Opaque('s') for _ in indices), ndim=len(indices))
                ex = MiniExec({'self': self_, 'builder': Opaque('builder'), 'out': Opaque('out'), 'out_block_id': Opaque('bid'), 'mode': 'iadd', '_pyast': Opaque('_pyast'), 'Range': RangeT})
                try:
                    ex.run(f.node.body)
                except Returned:
                    pass
                except AssertionFailed as e:
                    bad = bad or (kinds, f'its own assertion `{e}` fails', None)
                    continue
                adds = [l for l in ex.log if l[0].endswith('.array_add_at')]
                if len(adds) != 1 or len(adds[0][1]) != 3:
                    raise AnalysisError('Assemble._compile_with_out: the array_add_at(out, indices, func) emission was not found')
                cf = adds[0][1][2]
                if cf.origin and cf.origin[0].endswith('.call') and "get_attr('transpose')" in cf.origin[0]:
                    perm = [a.origin[1][0] if isinstance(a, Opaque) and a.origin else a for a in cf.origin[1]]
                else:
                    perm = list(range(nd))
                # NumPy's rule
                pos, ax = [], 0
                adv_axes, rng_axes, adv_pos = [], [], []
                for k_, ind in enumerate(indices):
                    if isinstance(ind, RangeT):
                        rng_axes.append(ax)
                    else:
                        adv_pos.append(k_)
                        adv_axes.extend(range(ax, ax + ind.ndim))
                    ax += ind.ndim
                separated = len(adv_pos) >= 2 and adv_pos[-1] - adv_pos[0] != len(adv_pos) - 1
                want = adv_axes + rng_axes if separated else list(range(nd))
                n += 1
                if perm != want and bad is None:
                    bad = (kinds, f'the operand is transposed with {perm}', want)
                # every advanced index is reshaped so that the advanced indices index their cross product: its own axes in place, a new axis for every axis of the others
                tup = adds[0][1][1]
                elems = list(tup.origin[1][0]) if isinstance(tup, Opaque) and tup.origin and tup.origin[0] == '_pyast.Tuple' else None
                if elems is None or len(elems) != len(indices):
                    raise AnalysisError('Assemble._compile_with_out: the tuple of compiled indices was not found')
                total = sum(ind.ndim for ind in indices if not isinstance(ind, RangeT))
                before = 0
                for ind, ce in zip(indices, elems):
                    if isinstance(ind, RangeT):
                        continue
                    wantpad = ','.join(['None'] * before + [':'] * ind.ndim + ['None'] * (total - before - ind.ndim)) if ind.ndim < total else None
                    gotpad = None
                    if isinstance(ce, Opaque) and ce.origin and ce.origin[0].endswith('.get_item') and isinstance(ce.origin[1][0], Opaque) and ce.origin[1][0].origin and ce.origin[1][0].origin[0] == '_pyast.Raw':
                        gotpad = ce.origin[1][0].origin[1][0]
                    if gotpad != wantpad and bad is None:
                        bad = (kinds, f'an advanced index is reshaped with [{gotpad}] instead of [{wantpad}]', None)
                    before += ind.ndim
    except Unsupported as e:
        raise AnalysisError(f'Assemble._compile_with_out uses a construct the evaluator does not know: {e}')
    names = {'R': 'range', 'A0': 'scalar index', 'A1': 'index vector', 'A2': 'index matrix'}
    rep.ob('R02.13', f.key, f.where(), bad is None, f'for all {n} arrangements of up to four range / advanced indices the operand is transposed as NumPy\'s combined indexing requires' if bad is None else
           f'for the indices ({", ".join(names[k] for k in bad[0])}) {bad[1]}' + (f'; NumPy puts the advanced axes first when a slice separates two advanced indices, which needs {bad[2]}' if bad[2] is not None else '') +
           ': the scattered values land in transposed positions (silently when the axis lengths coincide, a broadcast error otherwise)', statement='assemble-transposition')


def run(model, rep, tier):
    rep.explanation = (
        'R02.1 def-use of every emitted in-place operation (array_fill_zeros/add_at/iadd/imul/copy and destinations handed to compile_with_out): the destination is the out parameter, a view of it, '
        'the fresh array from new_empty_array_for_evaluable(self) or a fresh numpy.array(copy=True) - never a compiled dependency, a constant or an argument. R02.2 on every enumerated path of each '
        '_compile_with_out an accumulation into out (add_at, child with literal iadd, or forwarding mode to a partial view) is preceded by array_fill_zeros(out) unless the path established mode != assign. '
        'R02.3 _compile_with_out of another node is entered only through builder.compile_with_out, whose test keeps the three escapes in order with the copy/iadd fallback; nodes compile themselves in place only '
        'from _compile with mode assign; Add starts a chain only for single-dependent terms. R02.4/R02.5 every expression/statement class of _pyast covers all its fields in variables/py_expr/lines/__bool__/filter and '
        'parenthesises operands. R02.6 every field handed to builder.compile is announced in dependencies; R02.7 _compile_expression arity equals the number of dependencies. Necessary conditions of a faithful '
        'translation for every DAG shape; values of loop grouping, block ids and index arithmetic are NOT decided.')
    rep.rule('R02.1', 'in-place operations only on storage owned by the emitting node')
    rep.rule('R02.2', 'zero fill precedes accumulation whenever mode may be assign')
    rep.rule('R02.3', 'who may enter the in-place protocol, escapes and fallback')
    rep.rule('R02.4', 'printer completeness: variables/py_expr/lines/__bool__/filter cover all fields')
    rep.rule('R02.5', 'operands are parenthesised')
    rep.rule('R02.6', 'compiled fields are announced as dependencies')
    rep.rule('R02.7', '_compile_expression arity equals the number of dependencies')
    rep.rule('R02.8', 'parallel configuration: shared allocation / lock pairing (= R16.4)')
    rep.rule('R02.9', 'dependency edges are recorded before the compiled-cache lookup')
    rep.rule('R02.11', 'constant-intermediate caching: what is cached, frozen, declared global; first_run dispatch and reset (= R03.2)')
    rep.rule('R02.10', 'einsum labels and axis positions are never compared with or indexed by each other (kind typing)')
    check_destinations(model, rep)
    check_zero_fill(model, rep)
    check_who_may_call(model, rep)
    check_printer(model, rep)
    check_compiled_subset_dependencies(model, rep)
    check_fields_announced(model, rep)
    check_expression_arity(model, rep)
    check_dependency_registration(model, rep)
    check_label_position_typing(model, rep)
    from rules.c03 import check_cache_protocol, _Rename
    check_cache_protocol(model, _Rename(rep, {'R03.2': 'R02.11'}))   # with constant-intermediate caching: the first_run dispatch (= R03.2)
    from rules.c16 import check_shared_alloc
    from rules.c03 import _Rename
    check_shared_alloc(model, _Rename(rep, {'R16.4': 'R02.8'}))
    rep.rule('R02.13', 'Assemble._compile_with_out transposes its operand as NumPy combined (advanced + slice) indexing requires (interpreted for all arrangements of up to 4 indices)')
    check_assemble_transposition(model, rep)
    from rules.c16 import check_builder
    rep.rule('R02.12', 'parallel configuration: every generated statement that touches a shared array is emitted inside the lock of that array (= R16.3)')
    check_builder(model, _Rename(rep, {'R16.3': 'R02.12'}))
    from rules import round4 as _r4
    rep.rule('R02.14', 'a code emitter consults a configuring field of its node on every path or on none')
    _r4.check_fields_on_every_path(model, rep, 'R02.14')
    rep.rule('R02.15', 'slices of one sequence spread into a call tile it up to single removed elements (numpy-optimisation rewrites keep every operand)')
    _r4.check_tiling_slices(model, rep, 'R02.15')
    rep.require('R02.1', 15)
    rep.require('R02.2', 7)
    rep.require('R02.3', 8)
    rep.require('R02.4', 40)
