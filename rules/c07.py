'''C07 Function arrays follow NumPy semantics - dispatch-table agreement only.

Decided: R07.1 for every table-shaped registration `@implements(numpy.f)` the chain
numpy.f -> function-level implementation -> evaluable constructor/wrapper -> emitted NumPy expression is
evaluated symbolically (small functions are inlined, classes are read through _compile_expression) and its
meaning, as a normal form over the operands, equals the meaning NumPy documents for f; R07.2 the element-kind
class (min_dtype / force_dtype) equals NumPy's result kind; R07.3 the dispatch hooks consult the table and
decline the rest; R07.4 linear-algebra wrappers announce an inexact kind; R07.5 no in-place store into
caller-owned arrays; R07.6 slice normalisation; R07.7 dot/matmul/vdot compare the operand shapes before the
broadcasting product (interp: xp/fp lengths); R07.8 every _Transpose receives normalised, permutation-checked axes;
R07.9 shape preconditions a wrapped evaluable node only asserts are tested by the wrapping implementation where the
operand is the caller's own; R07.10 index arrays of one subscript are handled jointly (known finding F20).
Not decided: broadcasting, indexing, reshape, einsum, lowering with point axes (values).
'''

import ast
import builtins
import json
import os
from fractions import Fraction

from sa import AnalysisError
from sa.pattern import pmatch, pfind
from sa.astutil import dotted, src, stmt_text, params, find_stmts, calls_in, method_name, const, resolved, target_names
from sa.algebra import Poly, Unsupported
from rules.c04 import emitted_function

ORACLE = os.path.join(os.path.dirname(os.path.dirname(os.path.abspath(__file__))), 'oracles', 'numpy_api.json')
IDENTITY_CALLS = {'asarray', 'Array.cast', '_numpy_align', 'types.frozenmultiset'}


class Meaning:
    '''Symbolic evaluation of evaluable-level callables over Poly operands, split by operand dtype class.'''

    def __init__(self, model):
        self.model = model
        self.ev = model.module('evaluable')
        self.depth = 0

    def of_callable(self, name, args, dtype_case):
        '''meaning of evaluable.<name>(*args) as Poly.'''
        self.depth += 1
        try:
            if self.depth > 12:
                raise Unsupported('recursion too deep')
            if name in self.ev.classes:
                return self.of_class(self.ev.classes[name], args)
            f = self.ev.functions.get(name)
            if f is None:
                raise Unsupported(f'unknown evaluable callable {name}')
            return self.of_function(f, args, dtype_case)
        finally:
            self.depth -= 1

    def of_class(self, c, args):
        fn = emitted_function(c)
        if fn is None:
            raise Unsupported(f'{c.name} emits nothing recognisable')
        a = [x for x in args]
        if fn == 'op+':
            return a[0] + a[1]
        if fn == 'op*':
            return a[0] * a[1]
        if fn == 'op//':
            return Poly.atom(f'floordiv({a[0].canon()},{a[1].canon()})')
        if fn == 'op%':
            return Poly.atom(f'mod({a[0].canon()},{a[1].canon()})')
        if fn == 'uop-':
            return -a[0]
        if fn == 'power' and len(a) == 2:
            if a[1].is_const():
                return a[0].pow(a[1].const_value())
            return Poly.atom(f'power({a[0].canon()},{a[1].canon()})')
        return Poly.atom(f'{fn}(' + ','.join(x.canon() for x in a) + ')')

    def of_function(self, f, args, dtype_case):
        pos = params(f.node)[0]
        env = {}
        for i, p in enumerate(pos):
            if i < len(args):
                env[p] = args[i]
        if f.node.args.vararg is not None:
            env[f.node.args.vararg.arg] = list(args[len(pos):])
        return self.block(f, f.body, env, dtype_case)

    def block(self, f, stmts, env, dtype_case):
        for s in stmts:
            if isinstance(s, ast.Expr) and isinstance(s.value, ast.Constant):
                continue
            if isinstance(s, ast.Assign):
                t = s.targets[0]
                if isinstance(t, ast.Name):
                    env[t.id] = self.expr(f, s.value, env, dtype_case)
                elif isinstance(t, ast.Tuple) and isinstance(s.value, ast.Call) and src(s.value.func) in IDENTITY_CALLS and len(t.elts) == len(s.value.args):
                    for tt, a in zip(t.elts, s.value.args):
                        env[tt.id] = self.expr(f, a, env, dtype_case)
                else:
                    raise Unsupported(f'assignment `{stmt_text(s)[:50]}`')
                continue
            if isinstance(s, ast.If):
                if all(isinstance(b, ast.Raise) for b in s.body):
                    if s.orelse:
                        r = self.block(f, s.orelse, env, dtype_case)
                        if r is not None:
                            return r
                    continue
                t = src(s.test)
                if 'dtype == complex' in t or 'dtype != complex' in t:
                    positive = 'dtype == complex' in t
                    take_body = (dtype_case == 'complex') == positive
                    r = self.block(f, s.body if take_body else s.orelse, env, dtype_case)
                    if r is not None:
                        return r
                    continue
                raise Unsupported(f'branch on `{t[:40]}`')
            if isinstance(s, ast.For):
                # add / multiply fold their arguments pairwise
                if isinstance(s.iter, ast.Name) and isinstance(env.get(s.iter.id), list) and len(s.body) == 1 and isinstance(s.body[0], ast.Assign):
                    acc = s.body[0].targets[0].id
                    for item in env[s.iter.id]:
                        env2 = dict(env)
                        env2[s.target.id] = item
                        env[acc] = self.expr(f, s.body[0].value, env2, dtype_case)
                    continue
                raise Unsupported('loop')
            if isinstance(s, ast.Return):
                return self.expr(f, s.value, env, dtype_case)
            if isinstance(s, ast.Raise):
                return None
            raise Unsupported(f'statement `{stmt_text(s)[:40]}`')
        return None

    def expr(self, f, e, env, dtype_case):
        if isinstance(e, ast.Constant) and isinstance(e.value, (int, float)) and not isinstance(e.value, bool):
            return Poly.const(Fraction(e.value).limit_denominator(10 ** 6))
        if isinstance(e, ast.Name):
            if e.id in env and isinstance(env[e.id], Poly):
                return env[e.id]
            raise Unsupported(f'name {e.id}')
        if isinstance(e, ast.Attribute) and e.attr in ('real', 'imag') and isinstance(e.value, ast.Name) and e.value.id in env:
            return Poly.atom(f'{"re" if e.attr == "real" else "im"}({env[e.value.id].canon()})')
        if src(e) == 'numpy.pi':
            return Poly.atom('pi')
        if isinstance(e, ast.UnaryOp) and isinstance(e.op, ast.USub):
            return -self.expr(f, e.operand, env, dtype_case)
        if isinstance(e, ast.BinOp):
            a = self.expr(f, e.left, env, dtype_case)
            b = self.expr(f, e.right, env, dtype_case)
            if isinstance(e.op, ast.Add):
                return a + b
            if isinstance(e.op, ast.Sub):
                return a - b
            if isinstance(e.op, ast.Mult):
                return a * b
            if isinstance(e.op, ast.Div):
                return a * b.pow(-1)
            if isinstance(e.op, ast.Pow) and b.is_const():
                return a.pow(b.const_value())
            raise Unsupported(f'operator in `{src(e)[:40]}`')
        if isinstance(e, ast.Starred):
            raise Unsupported('starred')
        if isinstance(e, ast.Call):
            name = src(e.func)
            if name in IDENTITY_CALLS:
                if len(e.args) == 1:
                    return self.expr(f, e.args[0], env, dtype_case)
                # frozenmultiset(_numpy_align(a, b)) style: handled by the class taking a pair
            if name == 'astype':
                return self.expr(f, e.args[0], env, dtype_case)
            if name == 'numpy.log' and e.args and isinstance(const(e.args[0]), (int, float)):
                return Poly.atom(f'log({const(e.args[0])})')
            if name in ('zeros_like', 'zeros'):
                return Poly.const(0)
            args = self.call_args(f, e, env, dtype_case)
            if name in self.ev.classes or name in self.ev.functions:
                kw = {k.arg: self.expr(f, k.value, env, dtype_case) for k in e.keywords if k.arg}
                if name in self.ev.classes and kw:
                    args = args + [kw[k] for k in kw]
                return self.of_callable(name, args, dtype_case)
            raise Unsupported(f'call of {name}')
        raise Unsupported(f'expression `{src(e)[:40]}`')

    def call_args(self, f, call, env, dtype_case):
        out = []
        for a in call.args:
            if isinstance(a, ast.Starred):
                inner = a.value
                if isinstance(inner, ast.Call) and src(inner.func) in IDENTITY_CALLS:
                    out.extend(self.expr(f, x, env, dtype_case) for x in inner.args)
                    continue
                raise Unsupported('starred argument')
            if isinstance(a, ast.Call) and src(a.func) in IDENTITY_CALLS and len(a.args) != 1:
                # frozenmultiset(_numpy_align(a, b)) -> the pair
                inner = a.args[0] if len(a.args) == 1 else a
                out.extend(self.call_args(f, a, env, dtype_case))
                continue
            if isinstance(a, ast.Call) and src(a.func) in IDENTITY_CALLS and len(a.args) == 1 and isinstance(a.args[0], ast.Call) and src(a.args[0].func) in IDENTITY_CALLS:
                out.extend(self.call_args(f, a.args[0], env, dtype_case))
                continue
            out.append(self.expr(f, a, env, dtype_case))
        return out


def oracle_poly(text):
    from sa.algebra import translate
    env = {'x': Poly.atom('x'), 'y': Poly.atom('y'), 'pi': Poly.atom('pi')}
    fns = {k: ('fn', k) for k in ('sin', 'cos', 'tan', 'arcsin', 'arccos', 'arctan', 'arctan2', 'sinh', 'cosh', 'tanh', 'arctanh', 'exp', 'log', 'sign', 'sinc', 'floordiv', 'mod', 'power', 'greater', 'equal',
                                  'less', 'minimum', 'maximum', 'logical_not', 'conjugate', 'real', 'imag', 're', 'im')}
    return translate(ast.parse(text, mode='eval').body, env, fns)


def registrations(model):
    m = model.module('function')
    impl = None
    for n in m.tree.body:
        if isinstance(n, ast.ClassDef) and n.name == '__implementations__':
            impl = n
    if impl is None:
        raise AnalysisError('function.__implementations__ not found')
    out = []
    for s in impl.body:
        if isinstance(s, ast.FunctionDef):
            regs = [src(d.args[0]) for d in s.decorator_list if isinstance(d, ast.Call) and src(d.func) == 'implements' and d.args]
            if regs:
                out.append((s, regs))
    return m, out


def table_shape(fn):
    '''(evaluable callable name, [operand expressions], min_dtype, force_dtype, explicit dtype expr) if the implementation is table shaped.'''
    rets = [s for s in ast.walk(fn) if isinstance(s, ast.Return)]
    final = [r for r in rets if r.value is not None and src(r.value) != 'NotImplemented']
    if len(final) != 1:
        return None
    v = final[0].value
    if not isinstance(v, ast.Call):
        return None
    name = src(v.func)
    if name not in ('_Wrapper.broadcasted_arrays', '_Wrapper'):
        return None
    if not v.args or not src(v.args[0]).startswith('evaluable.'):
        return None
    callee = src(v.args[0])[len('evaluable.'):]
    kw = {k.arg: k.value for k in v.keywords}
    return callee, list(v.args[1:]), kw.get('min_dtype'), kw.get('force_dtype'), kw.get('dtype'), name, final[0]


def check_chains(model, rep, oracle):
    m, regs = registrations(model)
    meaning = Meaning(model)
    nsimple = 0
    ntotal = 0
    for fn, names in regs:
        for reg in names:
            ntotal += 1
            if not reg.startswith('numpy.'):
                continue
            npname = reg[len('numpy.'):]
            spec = oracle['functions'].get(npname)
            shape = table_shape(fn)
            key = f'function:__implementations__.{fn.name}'
            where = f'{m.relpath}:{fn.lineno}'
            if spec is None or shape is None:
                continue
            nsimple += 1
            callee, operands, min_dtype, force_dtype, dtype_expr, ctor, ret = shape
            pnames = [a.arg for a in fn.args.args]
            env = {}
            for i, p in enumerate(pnames[:2]):
                env[p] = Poly.atom('xy'[i])
            # locals re-bound by casts keep their meaning: `a, b = map(Array.cast, (a, b))`, `arg = Array.cast(arg)`
            problems = []
            try:
                args = []
                for o in operands:
                    args.append(_operand_poly(o, env))
                for case in (['real'] + (['complex'] if 'by_dtype' in spec else [])):
                    got = meaning.of_callable(callee, args, case)
                    want = oracle_poly(spec['by_dtype']['complex'] if case == 'complex' else spec['meaning'])
                    if got is None or got != want:
                        problems.append(f'for {case} operands the chain evaluates to `{got.canon() if got is not None else None}` but numpy.{npname} means `{want.canon()}`')
            except Unsupported as ex:
                problems.append(f'the chain through evaluable.{callee} cannot be evaluated symbolically ({ex})')
            rep.ob('R07.1', key, where, not problems, f'numpy.{npname} -> evaluable.{callee} -> {spec["meaning"]}' if not problems else
                   f'numpy.{npname} is implemented by evaluable.{callee}: {problems[0]}', statement=f'chain numpy.{npname}')
            # R07.2 element kind
            kind = spec['kind']
            md = src(min_dtype) if min_dtype is not None else None
            fd = src(force_dtype) if force_dtype is not None else None
            if ctor == '_Wrapper':
                # explicit dtype expression: accept when it promotes/keeps as the oracle says
                dt = src(dtype_expr) if dtype_expr is not None else None
                ok = (kind == 'same' and dt is not None and 'arg.dtype' in dt or kind == 'float' and dt == 'float' or kind == 'bool' and dt == 'bool')
                det = f'explicit dtype `{dt}`'
            else:
                ok = (kind == 'float' and md == 'float' and fd is None) or (kind == 'int' and md == 'int' and fd is None) or (kind == 'bool' and fd == 'bool') or (kind == 'same' and md is None and fd is None)
                det = f'min_dtype={md}, force_dtype={fd}'
            rep.ob('R07.2', key, where, ok, f'numpy.{npname} yields kind class {kind!r} ({det})' if ok else
                   f'numpy.{npname} must yield element kind class {kind!r} but the registration has {det}: ' +
                   {'float': 'integer operands would stay integer (e.g. true division or a transcendental function evaluated in integers)', 'bool': 'the result would carry the operand dtype instead of bool',
                    'int': 'boolean operands would stay boolean', 'same': 'the operands are promoted although NumPy keeps their kind'}[kind], statement=f'kind numpy.{npname}')
    rep.unit('registrations_total', ntotal)
    rep.unit('registrations_table_shaped', nsimple)
    if nsimple < 38 or ntotal < 75:
        raise AnalysisError(f'only {nsimple} table-shaped of {ntotal} registrations recognised')
    # complex operands rejected where NumPy has no order
    byname = {fn.name: fn for fn, _ in regs}
    for name in ('greater', 'less', 'minimum', 'maximum'):
        fn = byname.get(name)
        ok = fn is not None and any(isinstance(s, ast.If) and 'dtype == complex' in src(s.test) and any(isinstance(b, ast.Raise) for b in s.body) for s in fn.body)
        rep.ob('R07.2', f'function:__implementations__.{name}', f'{m.relpath}:{fn.lineno if fn else 1}', ok, f'{name} rejects complex operands (no total order)' if ok else f'{name} no longer rejects complex operands', statement=f'complex-rejected {name}')
    for name in ('logical_and', 'logical_or', 'logical_not'):
        fn = byname.get(name)
        ok = fn is not None and any(isinstance(s, ast.If) and 'dtype != bool' in src(s.test) and any(isinstance(b, ast.Return) and src(b.value) == 'NotImplemented' for b in s.body) for s in fn.body)
        rep.ob('R07.2', f'function:__implementations__.{name}', f'{m.relpath}:{fn.lineno if fn else 1}', ok, f'{name} is declined for non-boolean operands (it is only a product/sum for booleans)' if ok else
               f'{name} is no longer restricted to boolean operands: for integers the product/sum is not the bitwise/logical result', statement=f'bool-only {name}')


def _operand_poly(o, env):
    if isinstance(o, ast.Name) and o.id in env:
        return env[o.id]
    if isinstance(o, ast.BinOp) and isinstance(o.op, ast.Mult):
        a, b = _operand_poly(o.left, env), _operand_poly(o.right, env)
        return a * b
    if src(o) == 'numpy.pi':
        return Poly.atom('pi')
    raise Unsupported(f'operand `{src(o)[:30]}`')


def check_hooks(model, rep):
    A = model.cls('function:Array')
    uf = A.members['__array_ufunc__'].func
    txt = src(uf.node)
    ok = "method != '__call__' or ufunc not in HANDLED_FUNCTIONS" in txt and 'return NotImplemented' in txt and 'HANDLED_FUNCTIONS[ufunc](' in txt
    rep.ob('R07.3', uf.key, uf.where(), ok, 'ufunc calls go through the table; other ufunc methods and unknown ufuncs are declined' if ok else '__array_ufunc__ changed', statement='ufunc-hook')
    af = A.members['__array_function__'].func
    txt = src(af.node)
    ok = 'func not in HANDLED_FUNCTIONS' in txt and 'return NotImplemented' in txt and 'HANDLED_FUNCTIONS[func](*args, **kwargs)' in txt
    rep.ob('R07.3', af.key, af.where(), ok, 'array functions go through the table; unknown ones are declined' if ok else '__array_function__ changed', statement='function-hook')
    # operators: Array takes every arithmetic/comparison dunder from NumPy's mixin, which routes them through __array_ufunc__
    ok = 'numpy.lib.mixins.NDArrayOperatorsMixin' in A.base_exprs
    own = [n for n in ('__add__', '__sub__', '__mul__', '__truediv__', '__pow__', '__neg__', '__lt__', '__eq__', '__radd__', '__rsub__') if n in A.members]
    rep.ob('R07.3', A.key, f'{A.module.relpath}:{A.node.lineno}', ok and not own, 'operators come from numpy.lib.mixins.NDArrayOperatorsMixin, i.e. they are the ufuncs of the same name dispatched through the table' if ok and not own else
           f'Array no longer takes its operators from NDArrayOperatorsMixin (own definitions: {own}): operator and function forms can diverge', statement='operators-from-mixin')


INEXACT = ('numpy.linalg.eig', 'numpy.linalg.eigh', 'numpy.linalg.det', 'numpy.linalg.inv')


def check_composites(model, rep):
    m, regs = registrations(model)
    # R07.4: linear-algebra results are inexact (float or complex) whatever the operand kind
    n = 0
    for fn, names in regs:
        if not any(nm in INEXACT for nm in names):
            continue
        for c in ast.walk(fn):
            if isinstance(c, ast.Call) and src(c.func) == '_Wrapper':
                dt = next((k.value for k in c.keywords if k.arg == 'dtype'), None)
                if dt is None:
                    continue
                n += 1
                t = src(dt).replace(' ', '')
                ok = t in ('float', 'complex') or (isinstance(dt, ast.IfExp) and {src(dt.body), src(dt.orelse)} == {'float', 'complex'} and 'complex' in src(dt.test))
                rep.ob('R07.4', f'function:__implementations__.{fn.name}', f'{m.relpath}:{c.lineno}', ok, f'{names[0]} announces an inexact element kind (`{src(dt)}`)' if ok else
                       f'{names[0]} announces dtype `{src(dt)}`: for integer or boolean operands NumPy returns floating point, so the announced kind differs from what evaluation delivers', statement=f'inexact {fn.name}@{_ord(fn, c)}')
    if n < 5:
        raise AnalysisError(f'only {n} linear-algebra wrappers found')
    # R07.5: implementations never modify what the caller passed in
    mod = model.module('function')
    nstore = 0
    for f in model.functions.values():
        if f.module is not mod or isinstance(f.node, ast.Lambda) or not (f.cls is None or f.cls.name == '__implementations__'):
            continue   # user-facing functions and NumPy dispatch implementations only
        pos, kwonly, va, kw = params(f.node)
        pnames = set(pos) | set(kwonly)
        alias = set(pnames) - {'self', 'cls'}
        fresh = set()
        for s_ in ast.walk(f.node):
            if isinstance(s_, ast.Assign) and len(s_.targets) == 1 and isinstance(s_.targets[0], ast.Name) and isinstance(s_.value, ast.Call):
                callee = src(s_.value.func)
                args = {x.id for a in s_.value.args for x in ast.walk(a) if isinstance(x, ast.Name)}
                tname = s_.targets[0].id
                if callee in ('numpy.asarray', 'numpy.asanyarray', 'numpy.ascontiguousarray') and args & alias:
                    alias.add(tname)
                    fresh.discard(tname)
                elif callee in ('numpy.array', 'numpy.copy', 'list', 'numpy.empty', 'numpy.zeros') or callee.endswith('.copy'):
                    fresh.add(tname)
                    alias.discard(tname)
        for s_ in ast.walk(f.node):
            tgt = None
            if isinstance(s_, ast.AugAssign):
                tgt = s_.target
            elif isinstance(s_, ast.Assign):
                tgt = s_.targets[0] if isinstance(s_.targets[0], ast.Subscript) else None
            if tgt is None:
                continue
            base = tgt.value if isinstance(tgt, ast.Subscript) else None
            if isinstance(base, ast.Name) and isinstance(tgt, ast.Subscript):
                nstore += 1
                bad = base.id in alias and base.id not in fresh
                if bad:
                    rep.ob('R07.5', f.key, f.where(s_), False, f'`{stmt_text(s_)[:70]}` writes into `{base.id}`, which is (a no-copy view of) an argument of the caller: the caller\'s array is modified and reusing it gives another result',
                           statement=f'mutates {base.id}')
    rep.ob('R07.5', 'function:__implementations__', mod.relpath + ':1', True, f'{nstore} in-place stores in function.py inspected: none targets caller-owned data', statement='no-argument-mutation')
    # R07.6: slice normalisation follows Python's slice semantics
    for key in ('function:_takeslice', 'evaluable:_takeslice'):
        f = model.func(key)
        # matched structurally (sa.pattern): S_ is the slice, N_ the length of the sliced axis, whatever they are called or however they are spelled
        starts = pfind('0 if S_.start is None else S_.start if S_.start >= 0 else S_.start + N_', f.node)
        ok = False
        for _, b in starts:
            if pfind('N_ if S_.stop is None else S_.stop if S_.stop >= 0 else S_.stop + N_', f.node, b) and pmatch('A_.shape[X_]', resolved(f.node, b['N_'])) is not None:
                ok = True
        a = {src(s_.targets[0]): src(s_.value).replace(' ', '') for s_ in ast.walk(f.node) if isinstance(s_, ast.Assign) and src(s_.targets[0]) in ('start', 'stop')}
        rep.ob('R07.6', f.key, f.where(), ok, 'negative and missing slice bounds are normalised as Python does (None -> 0 / n, negative -> + n, 0 stays 0)' if ok else
               f'{key} normalises slice bounds as start={a.get("start")}, stop={a.get("stop")}: not Python\'s slice semantics (e.g. an explicit stop 0 or start 0)', statement='slice-normalisation')
    # at the function level axis lengths are integers, so out-of-range bounds can and must be clipped as Python/NumPy do:
    # the unit-step branch takes start/stop from slice.indices(n) (or clips explicitly) and never lets stop fall below start
    f = model.func('function:_takeslice')
    import re as _re
    from sa.boolnf import equivalent as _equiv
    from sa.astutil import if_branches as _if_branches
    unit, body = [], None
    for blk_owner in ast.walk(f.node):
        for fld in ('body', 'orelse'):
            blk = getattr(blk_owner, fld, None)
            if not isinstance(blk, list):
                continue
            for g in blk:
                if not (isinstance(g, ast.If) and 'step' in src(g.test)):
                    continue
                mname = _re.search(r'(\w+)\.step', src(g.test))
                if not mname:
                    continue
                S_ = mname.group(1)
                # the statements executed for a unit step, whichever way round the test is written
                try:
                    t_, e_ = _if_branches(blk, g)
                    if any(_equiv(g.test, w) for w in (f'{S_}.step == None or {S_}.step == 1', f'{S_}.step is None or {S_}.step == 1')):
                        unit.append(g)
                        body = t_
                    elif any(_equiv(g.test, w) for w in (f'not ({S_}.step == None or {S_}.step == 1)', f'not ({S_}.step is None or {S_}.step == 1)')):
                        unit.append(g)
                        body = e_
                except Exception:
                    continue
    if len(unit) != 1 or body is None:
        raise AnalysisError('function._takeslice: the unit-step branch was not found')
    clipped = any(isinstance(c, ast.Call) and method_name(c) == 'indices' for s_ in body for c in ast.walk(s_)) or \
        (any(isinstance(c, ast.Call) and src(c.func).endswith('max') for s_ in body for c in ast.walk(s_)) and any(isinstance(c, ast.Call) and src(c.func).endswith('min') for s_ in body for c in ast.walk(s_)))
    ordered = any(isinstance(s_, ast.Assign) and src(s_.targets[0]) in ('stop', 'length') and any(isinstance(c, ast.Call) and src(c.func).endswith('max') for c in ast.walk(s_.value)) for b_ in body for s_ in ast.walk(b_))
    ok = clipped and ordered
    rep.ob('R07.6', f.key, f.where(unit[0]), ok, 'unit-step slices clip out-of-range bounds (slice.indices) and an empty range stays empty (stop >= start)' if ok else
           'the unit-step branch of function._takeslice shifts negative bounds by the length but does not clip them to the axis: a[-10:3] of a length-5 array has 8 entries, a[1:10] and a[3:1] build a range of impossible '
           'length, where Python and NumPy clip', statement='slice-clipping')


NONBROADCAST = {   # NumPy functions whose named operands are NOT broadcast against each other: (first operand, second operand, how)
    'dot': (0, 1, 'contracted'),      # last axis of the first operand against the second-to-last (or only) axis of the second
    'matmul': (0, 1, 'contracted'),
    'vdot': (0, 1, 'flattened'),      # both operands flattened, sizes must agree
    'interp': (1, 2, 'paired'),       # data points xp and values fp: same length
}


def _shape_reads(e):
    """operand names whose shape/size/length the expression e reads: p.shape, p.size, len(p), numpy.shape(p), numpy.size(p)."""
    out = set()
    for n in ast.walk(e):
        if isinstance(n, ast.Attribute) and isinstance(n.value, ast.Name) and n.attr in ('shape', 'size'):
            out.add(n.value.id)
        elif isinstance(n, ast.Call) and src(n.func) in ('len', 'numpy.shape', 'numpy.size') and len(n.args) == 1 and isinstance(n.args[0], ast.Name):
            out.add(n.args[0].id)
    return out


def _shape_guards(fn, p0, p1):
    """`if <test reading the shape/size/length of both operands>: raise ValueError` statements of fn, in line order."""
    out = []
    for s_ in ast.walk(fn):
        if not isinstance(s_, ast.If) or not any(isinstance(b, ast.Raise) and 'ValueError' in src(b) for b in s_.body):
            continue
        if {p0, p1} <= _shape_reads(s_.test):
            out.append(s_)
    return sorted(out, key=lambda s_: s_.lineno)


def check_contractions(model, rep):
    """R07.7: implementations of NumPy functions that do not broadcast their operands against each other, but are realised as a
    broadcasting product + sum, must compare the operand shapes first (sibling agreement dot/matmul/vdot)."""
    m, regs = registrations(model)
    by = {fn.name: fn for fn, _ in regs}
    for name, (i0, i1, how) in NONBROADCAST.items():
        fn = by.get(name)
        if fn is None:
            raise AnalysisError(f'numpy.{name} implementation not found')
        pos = [a.arg for a in fn.args.args]
        p0, p1 = pos[i0], pos[i1]
        # the places where the two operands are combined with (NumPy or nutils) broadcasting
        combine = [n.lineno for n in ast.walk(fn) if (isinstance(n, ast.BinOp) or (isinstance(n, ast.Call) and src(n.func) in ('broadcast_arrays', '_Wrapper.broadcasted_arrays', 'numpy.multiply', 'multiply')))
                   and {p0, p1} <= {x.id for x in ast.walk(n) if isinstance(x, ast.Name)}]
        if not combine:
            raise AnalysisError(f'numpy.{name}: no broadcasting combination of the operands found')
        guards = [g for g in _shape_guards(fn, p0, p1) if g.lineno < max(combine)]
        if how == 'contracted':   # the test reads the last axis of the first operand
            guards = [g for g in guards if any(isinstance(n, ast.Subscript) and src(n.value) == f'{p0}.shape' and src(n.slice) == '-1' for n in ast.walk(g.test))]
        # no broadcasting of the raw operands before the guard
        early = [n.lineno for n in ast.walk(fn) if isinstance(n, ast.Call) and src(n.func) == 'broadcast_arrays' and guards and n.lineno < guards[0].lineno]
        ok = bool(guards) and not early
        rep.ob('R07.7', f'function:__implementations__.{name}', f'{m.relpath}:{fn.lineno}', ok, f'numpy.{name}: the shapes of `{p0}` and `{p1}` are compared and a mismatch raises ValueError before they are combined with broadcasting' if ok else
               f'numpy.{name} combines `{p0}` and `{p1}` with broadcasting without first comparing their shapes: an axis of length one is silently broadcast, where NumPy ' +
               {'contracted': 'rejects the operands', 'flattened': 'flattens both operands and rejects unequal sizes', 'paired': 'requires equal lengths'}[how],
               statement='contracted-lengths-checked' if how == 'contracted' else 'operand-sizes-checked')


def check_sequence_shapes(model, rep):
    """R07.7 (sequence form): numpy.stack joins arrays of EQUAL shape along a new axis and rejects anything else; it is realised as a sum
    of kronecker-inflated members, which would happily broadcast.  The implementation must compare the shapes of the members and raise
    ValueError before they are combined, and must not pass them through broadcast_arrays."""
    m, regs = registrations(model)
    by = {fn.name: fn for fn, _ in regs}
    fn = by.get('stack')
    if fn is None:
        raise AnalysisError('numpy.stack implementation not found')
    rets = [r for r in ast.walk(fn) if isinstance(r, ast.Return)]
    guards = [g for g in ast.walk(fn) if isinstance(g, ast.If) and any(isinstance(b, ast.Raise) and 'ValueError' in src(b) for b in g.body)
              and any(isinstance(c, ast.Compare) and isinstance(c.ops[0], (ast.NotEq, ast.Eq)) and (src(c.left).endswith('.shape') or src(c.comparators[0]).endswith('.shape')) for c in ast.walk(g.test))
              and rets and g.lineno < min(r.lineno for r in rets)]
    bcast = [c for c in ast.walk(fn) if isinstance(c, ast.Call) and src(c.func).endswith('broadcast_arrays')]
    ok = bool(guards) and not bcast
    rep.ob('R07.7', 'function:__implementations__.stack', f'{m.relpath}:{fn.lineno}', ok, 'numpy.stack: the member shapes are compared and a mismatch raises ValueError before the members are combined' if ok else
           'numpy.stack ' + ('broadcasts its members against each other' if bcast else 'does not compare the shapes of its members') + ': arrays of different (broadcastable) shapes are silently repeated, where NumPy raises '
           '"all input arrays must have the same shape"', statement='stack-shapes-checked')


ORDER_SENSITIVE_AXES = {   # NumPy functions whose result depends on WHICH of two axis arguments is which (so the pair may not be reordered)
    'diagonal': ('axis1', 'axis2'),     # with an offset, diagonal(a, k, 0, 1) and diagonal(a, k, 1, 0) are the k-th and the (-k)-th diagonal
    'trace': ('axis1', 'axis2'),
    'moveaxis': ('source', 'destination'),
}


def check_axis_order(model, rep):
    """R07.8 (order): the two axis arguments of numpy.diagonal/trace (and source/destination of moveaxis) are not interchangeable; an
    implementation that sorts or min/max-es the pair computes another diagonal for offset != 0 when the caller passes axis1 > axis2."""
    m, regs = registrations(model)
    by = {fn.name: fn for fn, _ in regs}
    for name, (a1, a2) in ORDER_SENSITIVE_AXES.items():
        fn = by.get(name)
        if fn is None:
            continue
        pos, kwonly, va, kw = params(fn)
        if a1 not in pos + kwonly or a2 not in pos + kwonly:
            continue
        bad = None
        for n in ast.walk(fn):
            if isinstance(n, ast.Call) and src(n.func) in ('sorted', 'min', 'max', 'builtins.min', 'builtins.max', 'numpy.sort', 'numpy.minimum', 'numpy.maximum'):
                names = {x.id for x in ast.walk(n) if isinstance(x, ast.Name)}
                if {a1, a2} <= names:
                    par = [s_ for s_ in ast.walk(fn) if isinstance(s_, (ast.Assign, ast.Return, ast.Expr)) and any(x is n for x in ast.walk(s_))]
                    if any(isinstance(s_, ast.Assign) and ({a1, a2} & set(target_names(s_.targets[0])) or True) for s_ in par) and not any(isinstance(c, ast.Compare) and any(x is n for x in ast.walk(c)) for c in ast.walk(fn)):
                        bad = n
        rep.ob('R07.8', f'function:__implementations__.{name}', f'{m.relpath}:{(bad or fn).lineno}', bad is None, f'numpy.{name} keeps `{a1}` and `{a2}` in the order given' if bad is None else
               f'numpy.{name} reorders its axis arguments with `{src(bad)[:60]}`: for a non-zero offset (or distinct roles) the result for {a1} > {a2} is the one NumPy gives for the swapped pair', statement='axis-order-kept')


def _axes_taint(fn):
    """Flow through fn in line order: which local names may hold caller-supplied (un-normalised) axis numbers.
    Returns {call node of _Transpose/cls: (tainted names read by the axes operand, names read, guards before it)}."""
    pos, kwonly, va, kw = params(fn)
    names = [p for p in pos if p not in ('self', 'cls')]
    raw = set(names[1:]) | set(kwonly) | ({va} if va else set())    # everything but the array operand

    def taint(e, env):
        if isinstance(e, ast.Call) and method_name(e) == 'normdim':
            return False
        if isinstance(e, ast.Call) and src(e.func) == 'range':
            return any(taint(a, env) for a in e.args)
        if isinstance(e, ast.Name):
            return e.id in env
        if isinstance(e, ast.Attribute):
            return False    # .ndim, .shape of an operand
        if isinstance(e, (ast.GeneratorExp, ast.ListComp, ast.SetComp)):
            env2 = set(env)
            for g in e.generators:
                tgt = {n.id for n in ast.walk(g.target) if isinstance(n, ast.Name)}
                if taint(g.iter, env2):
                    env2 |= tgt
                else:
                    env2 -= tgt
            return taint(e.elt, env2)
        if isinstance(e, ast.IfExp):
            return taint(e.body, env) or taint(e.orelse, env)
        if isinstance(e, ast.Compare):
            return False
        return any(taint(c, env) for c in ast.iter_child_nodes(e) if isinstance(c, ast.expr))

    env = set(raw)
    sites = {}
    guards = []

    def visit(stmts):
        for s_ in stmts:
            for c in sorted((c for c in ast.walk(s_) if isinstance(c, ast.Call) and src(c.func) in ('_Transpose', 'cls') and len(c.args) == 2 and not isinstance(s_, (ast.If, ast.For, ast.While, ast.With, ast.Try))), key=lambda c: c.lineno):
                ax = c.args[1]
                sites[c] = (taint(ax, env), {n.id for n in ast.walk(ax) if isinstance(n, ast.Name) and not hasattr(builtins, n.id)}, list(guards))
            if isinstance(s_, ast.Assign) and len(s_.targets) == 1 and isinstance(s_.targets[0], ast.Name):
                (env.add if taint(s_.value, env) else env.discard)(s_.targets[0].id)
            elif isinstance(s_, ast.Expr) and isinstance(s_.value, ast.Call) and isinstance(s_.value.func, ast.Attribute) and s_.value.func.attr in ('extend', 'append', 'insert') and isinstance(s_.value.func.value, ast.Name):
                if any(taint(a, env) for a in s_.value.args):
                    env.add(s_.value.func.value.id)
            elif isinstance(s_, ast.If):
                if any(isinstance(b, ast.Raise) for b in s_.body):
                    guards.append(s_)
                visit(s_.body)
                visit(s_.orelse)
            elif isinstance(s_, (ast.For, ast.While, ast.With, ast.Try)):
                raise AnalysisError(f'{fn.name}: statement kind {type(s_).__name__} not modelled in the axes flow')
    visit(fn.body)
    return sites


def check_axes(model, rep):
    """R07.8: _Transpose.lower adds the number of point axes to every stored axis, which is right only for a permutation of
    0..ndim-1.  Every construction of _Transpose therefore receives axes that are normalised (numeric.normdim) or derived from
    range(ndim), and - unless they are derived from range(ndim) alone - checked for repeated/missing entries first."""
    mod = model.module('function')
    low = model.func('function:_Transpose.lower')
    if not any(isinstance(n, ast.BinOp) and isinstance(n.op, ast.Add) and 'offset' in src(n) for n in ast.walk(low.node)):
        raise AnalysisError('_Transpose.lower no longer offsets the stored axes: R07.8 needs review')
    nsites = 0
    for f in model.functions.values():
        if f.module is not mod or isinstance(f.node, ast.Lambda):
            continue
        if not any(isinstance(c, ast.Call) and (src(c.func) == '_Transpose' or (src(c.func) == 'cls' and f.cls is not None and f.cls.name == '_Transpose')) and len(c.args) == 2 for c in ast.walk(f.node)):
            continue
        for c, (tainted, names, guards) in _axes_taint(f.node).items():
            if src(c.func) == 'cls' and not (f.cls is not None and f.cls.name == '_Transpose'):
                continue
            nsites += 1
            pure = not names - {params(f.node)[0][1 if params(f.node)[0][0] in ('self', 'cls') else 0]}   # reads nothing but the array operand: built from range(ndim)
            derived = set(names)
            for s_ in ast.walk(f.node):   # names the axes value was computed from (one step back is enough for the two idioms in use)
                if isinstance(s_, ast.Assign) and isinstance(s_.targets[0], ast.Name) and s_.targets[0].id in names:
                    derived |= {n.id for n in ast.walk(s_.value) if isinstance(n, ast.Name)}
            checked = pure or any({n.id for n in ast.walk(g.test) if isinstance(n, ast.Name)} & (derived - {'array', 'arg'}) for g in guards)
            ok = not tainted and checked
            rep.ob('R07.8', f.key, f.where(c), ok, f'`{src(c)[:60]}`: the axes are ' + ('derived from range(ndim)' if pure else 'normalised with numeric.normdim and checked to be a permutation') if ok else
                   f'`{src(c)[:60]}` stores ' + ('caller-supplied axis numbers without numeric.normdim' if tainted else 'axes that are never checked for repeated or missing entries') +
                   ': _Transpose.lower adds the point-axis offset to each entry, so negative, repeated or missing axes announce a shape that evaluation cannot deliver (NumPy normalises negative axes and rejects the others)',
                   statement=f'transpose-axes@{f.name}')
    if nsites < 2:
        raise AnalysisError(f'only {nsites} constructions of _Transpose found')


SHAPE_PRE = ('ndim', 'square')


def _node_preconditions(model, cname):
    """{field: set of 'ndim'/'square'} asserted by evaluable.<cname>.__post_init__ on the shape of its operand fields, and the field order."""
    ev = model.module('evaluable')
    c = ev.classes.get(cname)
    if c is None:
        raise AnalysisError(f'evaluable.{cname} not found')
    fields = [st.target.id for st in c.node.body if isinstance(st, ast.AnnAssign) and isinstance(st.target, ast.Name)]
    pi = c.members.get('__post_init__')
    pre = {}
    if pi is None:
        return fields, pre
    for a in ast.walk(pi.func.node):
        if not isinstance(a, ast.Assert):
            continue
        for n in ast.walk(a.test):
            if isinstance(n, ast.Compare) and isinstance(n.left, ast.Attribute) and n.left.attr == 'ndim' and src(n.left.value).startswith('self.') and isinstance(n.comparators[0], ast.Constant):
                k, op = n.comparators[0].value, type(n.ops[0])
                if (op in (ast.Eq,) and k >= 0) or (op is ast.GtE and k >= 2) or (op is ast.Gt and k >= 1):
                    pre.setdefault(src(n.left.value)[5:], {})['ndim'] = (op.__name__, k)
            if isinstance(n, ast.Compare) and len(n.ops) == 1 and isinstance(n.ops[0], ast.In) and isinstance(n.left, ast.Attribute) and n.left.attr == 'dtype' and src(n.left.value).startswith('self.') \
                    and isinstance(n.comparators[0], (ast.Tuple, ast.List, ast.Set)):
                pre.setdefault(src(n.left.value)[5:], {})['dtype'] = tuple(src(e) for e in n.comparators[0].elts)
            if isinstance(n, ast.Compare) and len(n.ops) == 1 and isinstance(n.ops[0], ast.Eq) and isinstance(n.left, ast.Attribute) and n.left.attr == 'dtype' and src(n.left.value).startswith('self.') \
                    and src(n.comparators[0]) in ('int', 'float', 'complex', 'bool') and '.' not in src(n.left.value)[5:]:
                pre.setdefault(src(n.left.value)[5:], {})['dtype'] = (src(n.comparators[0]),)
            if isinstance(n, ast.Call) and src(n.func) == '_certainly_different':
                t = ' '.join(src(x) for x in n.args)
                for fld in fields:
                    if f'self.{fld}.shape[-1]' in t and f'self.{fld}.shape[-2]' in t or f'*self.{fld}.shape[-2:]' in t:
                        pre.setdefault(fld, {})['square'] = True
    return fields, pre


def check_wrapped_preconditions(model, rep):
    """R07.9: shape preconditions that an evaluable node only *asserts* (AssertionError while lowering, nothing under -O) are
    established with a raising test by the NumPy implementation that wraps the node, wherever a caller-supplied operand reaches
    the node unchanged."""
    m, regs = registrations(model)
    impl = model.cls('function:__implementations__') if hasattr(model, 'cls') else None
    n = 0
    for fn, names in regs:
        pos = [a.arg for a in fn.args.args]
        # names that hold a caller-supplied operand unchanged: parameters, and `x = Array.cast(param)`, never bound to anything else anywhere in the function
        binds = {}
        other = set()
        for s_ in ast.walk(fn):
            if isinstance(s_, ast.Assign) and len(s_.targets) == 1 and isinstance(s_.targets[0], ast.Name):
                binds.setdefault(s_.targets[0].id, []).append(s_.value)
            elif isinstance(s_, (ast.Assign, ast.AugAssign, ast.AnnAssign, ast.For, ast.comprehension, ast.NamedExpr, ast.withitem)):
                tg = s_.targets if isinstance(s_, ast.Assign) else [s_.optional_vars] if isinstance(s_, ast.withitem) else [s_.target]
                other |= {x.id for t in tg if t is not None for x in ast.walk(t) if isinstance(x, ast.Name)}
        direct = {}

        def same_array(v, p_):   # Array.cast(p) and p.astype(kind) denote the caller's operand with the same shape
            return isinstance(v, ast.Call) and ((src(v.func) == 'Array.cast' and [src(x) for x in v.args] == [p_]) or src(v.func) == f'{p_}.astype')
        for p_ in pos:
            if p_ not in other and all(same_array(v, p_) for v in binds.get(p_, [])):
                direct[p_] = p_
        for t, vs in binds.items():
            if t not in pos and t not in other and all(isinstance(v, ast.Call) and src(v.func) == 'Array.cast' and len(v.args) == 1 and src(v.args[0]) in direct and src(v.args[0]) in pos for v in vs):
                direct[t] = src(vs[0].args[0])
        for c in ast.walk(fn):
            if not (isinstance(c, ast.Call) and src(c.func) == '_Wrapper' and c.args):
                continue
            for cname, skip in _wrapped_nodes(model, c.args[0], binds):
                fields, pre = _node_preconditions(model, cname)
                for fld, what in pre.items():
                    if fld not in fields:
                        continue
                    i = fields.index(fld) - skip
                    if not 0 <= i < len(c.args) - 1:
                        continue
                    op = c.args[1 + i]
                    without_points = isinstance(op, ast.Call) and src(op.func) == '_WithoutPoints'
                    if without_points:
                        op = op.args[0]
                    if not (isinstance(op, ast.Name) and op.id in direct):
                        continue   # the operand was built by this implementation: its shape is this implementation's doing (not decided)
                    if 'ndim' in what and what['ndim'][0] == 'Eq' and not without_points:
                        continue   # lowering prepends point axes: an exact ndim is not a function-level fact
                    if not ({'ndim', 'square'} & set(what)):
                        continue
                    n += 1
                    need = {'ndim'} | ({'shape'} if what.get('square') else set())
                    guards = [g for g in ast.walk(fn) if isinstance(g, ast.If) and any(isinstance(b, ast.Raise) for b in g.body) and
                              need <= {a.attr for a in ast.walk(g.test) if isinstance(a, ast.Attribute) and isinstance(a.value, ast.Name) and a.value.id in direct and direct[a.value.id] == direct[op.id]}
                              and g.lineno < c.lineno]
                    ok = bool(guards)
                    want = ' and '.join(([f'ndim {dict(Eq="==", GtE=">=", Gt=">")[what["ndim"][0]]} {what["ndim"][1]}'] if 'ndim' in what else []) + (['equal last two axes'] if what.get('square') else []))
                    rep.ob('R07.9', f'function:__implementations__.{fn.name}', f'{m.relpath}:{c.lineno}', ok,
                           f'{names[0]}: evaluable.{cname} requires {want} of `{op.id}`; the implementation tests it and raises first' if ok else
                           f'{names[0]} hands the caller\'s operand `{op.id}` to evaluable.{cname}, which only asserts {want}: an operand NumPy rejects is accepted when the expression is built and fails an internal assertion (or nothing, under -O) when it is lowered',
                           statement=f'precondition {cname}.{fld}@{fn.name}')
    if n < 6:
        raise AnalysisError(f'only {n} directly wrapped operands with asserted shape preconditions found (det, inv, eig, eigh, searchsorted expected)')


KIND_PRESERVING = ('Array.cast', 'broadcast_arrays', 'util.deep_reduce', '_Transpose.to_end', '_Transpose.from_end', 'numpy.ravel', 'numpy.transpose', '_append_axes', '_prepend_axes')


def check_wrapped_kinds(model, rep):
    """R07.9 (element kinds): an evaluable node that only asserts the element kind of an operand (`self.index.dtype == int`,
    `self.func.dtype in (float, complex)`) must never see another kind: where the kind of the operand is the caller's (the value
    reaches the wrapper through kind-preserving steps only), the implementation tests `.dtype` of it first and raises or converts."""
    m, regs = registrations(model)
    n = 0
    for fn, names in regs:
        pos = [a.arg for a in fn.args.args]
        kind_of = {p_: p_ for p_ in pos}
        binds = {}
        stmts = sorted((s_ for s_ in ast.walk(fn) if isinstance(s_, ast.Assign) and len(s_.targets) == 1), key=lambda s_: s_.lineno)
        for s_ in stmts:
            t, v = s_.targets[0], s_.value
            if isinstance(t, ast.Name):
                binds.setdefault(t.id, []).append(v)
            srcs = set()
            if isinstance(v, ast.Call) and (src(v.func) in KIND_PRESERVING or method_name(v) == 'astype'):
                cand = list(v.args) + ([v.func.value] if method_name(v) == 'astype' and isinstance(v.func, ast.Attribute) else [])
                if isinstance(t, ast.Name):
                    srcs = {kind_of[x.id] for a in cand for x in ast.walk(a) if isinstance(x, ast.Name) and x.id in kind_of}
                    if len(srcs) == 1:
                        kind_of[t.id] = srcs.pop()
                        continue
                elif isinstance(t, ast.Tuple) and src(v.func) == 'broadcast_arrays':
                    for te, ae in zip(t.elts, v.args):
                        if isinstance(te, ast.Starred) or isinstance(ae, ast.Starred):
                            break
                        if isinstance(te, ast.Name) and isinstance(ae, ast.Name) and ae.id in kind_of:
                            kind_of[te.id] = kind_of[ae.id]
                    continue
            for x in ast.walk(t):
                if isinstance(x, ast.Name) and x.id not in pos:
                    kind_of.pop(x.id, None)
        for c in ast.walk(fn):
            if not (isinstance(c, ast.Call) and src(c.func) in ('_Wrapper', '_Wrapper.broadcasted_arrays') and c.args):
                continue
            for cname, skip in _wrapped_nodes(model, c.args[0], binds):
                fields, pre = _node_preconditions(model, cname)
                for fld, what in pre.items():
                    if 'dtype' not in what or fld not in fields:
                        continue
                    i = fields.index(fld) - skip
                    if not 0 <= i < len(c.args) - 1:
                        continue
                    op = c.args[1 + i]
                    if isinstance(op, ast.Call) and src(op.func) == '_WithoutPoints':
                        op = op.args[0]
                    if not (isinstance(op, ast.Name) and op.id in kind_of):
                        continue   # the operand's kind is fixed by this implementation (a constant, a Range, a converted value)
                    p_ = kind_of[op.id]
                    n += 1
                    kinds = what['dtype']
                    reads = [g for g in ast.walk(fn) if isinstance(g, ast.If) and g.lineno < c.lineno and
                             any(isinstance(a, ast.Attribute) and a.attr == 'dtype' and isinstance(a.value, ast.Name) and kind_of.get(a.value.id) == p_ for a in ast.walk(g.test)) and
                             (any(isinstance(b, ast.Raise) for b in ast.walk(g)) or any(isinstance(b, ast.Assign) and isinstance(b.value, ast.Call) and method_name(b.value) == 'astype' for b in g.body))]
                    ok = bool(reads)
                    rep.ob('R07.9', f'function:__implementations__.{fn.name}', f'{m.relpath}:{c.lineno}', ok,
                           f'{names[0]}: evaluable.{cname} requires element kind {"/".join(kinds)} of `{op.id}` (kind of the caller\'s `{p_}`); the implementation tests the kind and converts or rejects first' if ok else
                           f'{names[0]} hands `{op.id}`, whose element kind is that of the caller\'s `{p_}`, to evaluable.{cname}, which only asserts that it is {"/".join(kinds)}: another kind is announced with a result '
                           'but fails an internal assertion when the expression is lowered (where NumPy either accepts it - booleans as 0/1, integers as reals - or rejects it when the call is made)',
                           statement=f'precondition-kind {cname}.{fld}@{fn.name}')
    if n < 4:
        raise AnalysisError(f'only {n} wrapped operands with asserted element kinds found (det, inv, choose, take expected)')


def _wrapped_nodes(model, target, binds, depth=0):
    """evaluable node classes constructed by the lowering callable `target` of a _Wrapper call: [(class name, number of leading
    constructor fields bound elsewhere)].  Resolves local names, functools.partial over evaluable.X, and partial over a helper in
    __implementations__ that constructs evaluable.X from its trailing parameters."""
    if depth > 3:
        return []
    t = src(target)
    if isinstance(target, ast.Attribute) and t.startswith('evaluable.') and t[10:11].isupper():
        return [(t[10:], 0)]
    if isinstance(target, ast.Name):
        return [x for v in binds.get(target.id, []) for x in _wrapped_nodes(model, v, binds, depth + 1)]
    if isinstance(target, ast.Call) and src(target.func) == 'functools.partial' and target.args:
        inner = target.args[0]
        bound = len(target.args) - 1
        ti = src(inner)
        if ti.startswith('evaluable.'):
            return [(c, k - 0) for c, k in _wrapped_nodes(model, inner, binds, depth + 1)] if bound == 0 else []
        if ti.startswith('__implementations__.'):
            h = model.functions.get('function:' + ti)
            if h is None:
                return []
            hp = [a.arg for a in h.node.args.args]
            out = []
            for c in ast.walk(h.node):
                if isinstance(c, ast.Call) and src(c.func).startswith('evaluable.') and src(c.func)[10:11].isupper():
                    # operand j of the wrapper is helper parameter hp[bound + j]; it must be constructor argument j
                    if [src(a) for a in c.args[:1]] == hp[bound:bound + 1]:
                        out.append((src(c.func)[10:], 0))
            return out
    return []


def check_getitem(model, rep):
    """R07.10: NumPy treats all index arrays of one subscript jointly (they are broadcast against each other, and the position of
    the resulting axes depends on whether they are adjacent).  An item loop whose only carried state is the array so far and the
    current axis handles every item in isolation, so it cannot distinguish one index array from several: necessary condition for
    NumPy's result is that the loop (or a test before it) takes note of index arrays seen."""
    f = model.func('function:Array.__getitem__')
    loops = [s_ for s_ in f.node.body if isinstance(s_, ast.For)]
    main = [l for l in loops if any(isinstance(c, ast.Call) and src(c.func) in ('numpy.take', 'take') for c in ast.walk(l))]
    if len(main) != 1:
        raise AnalysisError('Array.__getitem__: item loop applying numpy.take not found')
    loop = main[0]
    carried = {n.id for s_ in ast.walk(loop) if isinstance(s_, (ast.Assign, ast.AugAssign)) for t in (s_.targets if isinstance(s_, ast.Assign) else [s_.target]) for n in ast.walk(t) if isinstance(n, ast.Name)}
    takes = [c for c in ast.walk(loop) if isinstance(c, ast.Call) and src(c.func) in ('numpy.take', 'take')]
    arr = {src(c.args[0]) for c in takes}
    axis = {src(c.args[2]) for c in takes if len(c.args) > 2}
    extra = carried - arr - axis - {n.id for n in ast.walk(loop.target) if isinstance(n, ast.Name)}   # rebinding the current item is not state carried to the next item
    # a test OUTSIDE the item loop that looks at all items together: a comprehension / generator over the subscript tuple that inspects
    # the dimension or type of the items (a test on the single current item inside the loop cannot count index arrays)
    inside = {id(n) for n in ast.walk(loop)}
    item_tuple = {src(loop.iter).split(' ')[0], 'item'}
    pre = []
    for s_ in ast.walk(f.node):
        if not isinstance(s_, (ast.If, ast.Assert, ast.IfExp, ast.Assign)) or id(s_) in inside:
            continue
        probe = s_.test if hasattr(s_, 'test') else s_.value
        for g in ast.walk(probe):
            if isinstance(g, (ast.GeneratorExp, ast.ListComp, ast.SetComp)) and any(src(c.iter).split(' ')[0] in item_tuple or src(c.iter) == 'item' for c in g.generators) and \
                    any(isinstance(c, ast.Call) and src(c.func) in ('numpy.ndim', 'isinstance', 'numpy.shape', 'numpy.asarray') for c in ast.walk(g)):
                pre.append(s_)
    ok = bool(extra) or bool(pre)
    rep.ob('R07.10', f.key, f.where(loop), ok, 'the subscript loop takes note of index arrays seen' if ok else
           f'the subscript loop carries only {sorted(carried)} from item to item and applies `{src(takes[0])}` to each item on its own: two or more index arrays in one subscript are applied one after the other '
           f'(outer indexing, a[[0,1],[0,1]] of a (2,3) array has shape (2,2)) where NumPy broadcasts them against each other (shape (2,)) and rejects index arrays that do not broadcast',
           statement='index-arrays-handled-jointly')


def check_boolean_cases(model, rep, oracle):
    """R07.11: NumPy's behaviour for boolean operands where the generic realisation cannot deliver it.  (a) functions the oracle marks
    bool=identity (absolute) return the operand under a test of its kind, because the chain x*sign(x) has no boolean loop;
    (b) the contractions (dot, matmul, vdot, einsum) keep booleans boolean, whereas numpy.sum counts them: the reduction of the
    product goes through a reducer that tests for the boolean kind; (c) a boolean array used as subscript is a mask, not the integer
    indices 0 and 1: the index-array branch of Array.__getitem__ tests for the boolean kind before numpy.take."""
    m, regs = registrations(model)
    by = {fn.name: (fn, names) for fn, names in regs}
    for name, spec in oracle['functions'].items():
        if spec.get('bool') != 'identity':
            continue
        hit = [(fn, names) for fn, names in regs if f'numpy.{name}' in names]
        if not hit:
            raise AnalysisError(f'numpy.{name} registration not found')
        fn, names = hit[0]
        ok = any(isinstance(g, ast.If) and isinstance(g.test, ast.Compare) and src(g.test).replace(' ', '').endswith('.dtype==bool') and
                 any(isinstance(b, ast.Return) and isinstance(b.value, ast.Name) and b.value.id == src(g.test.left).split('.')[0] for b in g.body) for g in fn.body)
        rep.ob('R07.11', f'function:__implementations__.{fn.name}', f'{m.relpath}:{fn.lineno}', ok, f'numpy.{name} of a boolean operand is the operand (tested before the generic chain)' if ok else
               f'numpy.{name} sends boolean operands down the generic chain, which multiplies by the sign: NumPy returns the operand, here a boolean result is announced and evaluation fails (numpy.sign has no boolean loop)',
               statement=f'bool-identity {name}')
    mod = model.module('function')
    for name in oracle['contractions']:
        if name not in by:
            raise AnalysisError(f'numpy.{name} implementation not found')
        fn, names = by[name]
        own_test = any(isinstance(n, ast.Compare) and 'dtype' in src(n) and 'bool' in src(n) for n in ast.walk(fn))
        bad = None
        nred = 0
        for c in ast.walk(fn):
            if not isinstance(c, ast.Call):
                continue
            mn = method_name(c)
            operand = c.func.value if (mn == 'sum' and isinstance(c.func, ast.Attribute) and src(c.func.value) != 'numpy') else (c.args[0] if c.args else None)
            if operand is None or not any(isinstance(x, ast.BinOp) and isinstance(x.op, ast.Mult) or (isinstance(x, ast.Call) and src(x.func) == 'util.product') for x in ast.walk(operand)):
                continue
            if mn == 'sum':
                nred += 1
                if not own_test:
                    bad = c
            elif isinstance(c.func, ast.Name) and c.func.id in mod.functions:
                nred += 1
                helper = mod.functions[c.func.id]
                if not any(isinstance(n, ast.Compare) and 'dtype' in src(n) and 'bool' in src(n) for n in ast.walk(helper.node)):
                    bad = c
        if nred == 0:
            raise AnalysisError(f'numpy.{name}: no reduction of a product found')
        rep.ob('R07.11', f'function:__implementations__.{name}', f'{m.relpath}:{(bad or fn).lineno}', bad is None, f'numpy.{name}: {nred} reduction(s) of the product go through a reducer that keeps booleans boolean' if bad is None else
               f'`{src(bad)[:70]}` reduces the product with a sum that counts booleans: numpy.{name} of boolean operands is the boolean or of ands in NumPy, here it is the integer number of common true entries',
               statement=f'bool-contraction {name}')
    gi = model.func('function:Array.__getitem__')
    takes = [c for c in ast.walk(gi.node) if isinstance(c, ast.Call) and src(c.func) in ('numpy.take', 'take')]
    if not takes:
        raise AnalysisError('Array.__getitem__: numpy.take not found')
    def tests_bool_kind(test):
        # the test itself, or a module-level predicate it calls, looks at the boolean dtype
        if 'bool' in src(test) and 'dtype' in src(test):
            return True
        for c_ in ast.walk(test):
            if isinstance(c_, ast.Call) and isinstance(c_.func, ast.Name):
                h_ = model.functions.get(f'function:{c_.func.id}')
                if h_ is not None and not isinstance(h_.node, ast.Lambda) and 'bool' in src(h_.node) and 'dtype' in src(h_.node):
                    return True
        return False
    tests = [g for g in ast.walk(gi.node) if isinstance(g, ast.If) and g.lineno < takes[0].lineno and tests_bool_kind(g.test)]
    ok = bool(tests)
    rep.ob('R07.11', gi.key, gi.where(takes[0]), ok, 'a boolean subscript is recognised as a mask before the index-array branch applies numpy.take' if ok else
           f'`{src(takes[0])}` is applied to every non-slice item without a test for the boolean kind: a boolean array used as subscript is applied as the integer indices 0 and 1 (a[[True,False,True]] gives a[[1,0,1]]) '
           'where NumPy selects the positions at which the mask is true', statement='bool-mask')


def check_build_time_division(model, rep):
    """R07.12: axis lengths may be zero (NumPy has empty arrays).  Wherever a NumPy implementation divides at build time (`%`, `//`,
    builtins.divmod) by a length taken from the operand's or the requested shape, a test that excludes zero - an early exit under
    `not <operand>.size`, or under `not <divisor>` - must come first; otherwise an empty operand raises ZeroDivisionError where NumPy
    returns an empty array (or its own ValueError)."""
    m, regs = registrations(model)
    n = 0
    for fn, names in regs:
        pos = [a.arg for a in fn.args.args]
        sites = []
        for x in ast.walk(fn):
            if isinstance(x, ast.BinOp) and isinstance(x.op, (ast.Mod, ast.FloorDiv)):
                sites.append((x, x.right))
            elif isinstance(x, ast.Call) and src(x.func) in ('builtins.divmod', 'divmod') and len(x.args) == 2:
                sites.append((x, x.args[1]))
        for node, div in sites:
            dn = {y.id for y in ast.walk(div) if isinstance(y, ast.Name)}
            lengthy = any(isinstance(y, ast.Attribute) and y.attr in ('shape', 'size') for y in ast.walk(div)) or bool(dn - {'numpy', 'builtins'})
            if isinstance(div, ast.Constant) or not lengthy:
                continue
            n += 1
            guards = []
            for g in ast.walk(fn):
                if not (isinstance(g, ast.If) and g.lineno < node.lineno and any(isinstance(b, (ast.Raise, ast.Return)) for b in g.body)):
                    continue
                t = g.test
                zero = None
                if isinstance(t, ast.UnaryOp) and isinstance(t.op, ast.Not):
                    zero = t.operand
                elif isinstance(t, ast.Compare) and len(t.ops) == 1 and isinstance(t.ops[0], ast.Eq) and src(t.comparators[0]) == '0':
                    zero = t.left
                if zero is None:
                    continue
                if (isinstance(zero, ast.Name) and (zero.id in dn or any(isinstance(a, ast.Assign) and src(a.targets[0]) == zero.id and src(a.value) == src(div) for a in ast.walk(fn)))) or (isinstance(zero, ast.Attribute) and zero.attr == 'size' and isinstance(zero.value, ast.Name) and zero.value.id in pos):
                    guards.append(g)
            ok = bool(guards)
            rep.ob('R07.12', f'function:__implementations__.{fn.name}', f'{m.relpath}:{node.lineno}', ok, f'`{src(node)[:50]}`: a zero divisor is excluded by `{src(guards[0].test)}` first' if ok else
                   f'`{src(node)[:60]}` divides by a length that is zero for an empty array and no earlier test excludes that: {names[0]} of an empty function array raises ZeroDivisionError where NumPy returns an empty array or raises ValueError',
                   statement=f'nonzero-divisor {src(node)[:40]}')
    if n < 3:
        raise AnalysisError(f'R07.12: only {n} build-time divisions by lengths found (reshape expected)')


def check_contraction_shapes(model, rep, oracle):
    """R07.13: on which axis a contraction contracts.  dot, matmul and vdot are interpreted over labelled shapes (sa/shapes.py: NumPy
    broadcasting, subscripts with newaxis/Ellipsis, reductions, transposes to the end) for every operand-dimension case of the
    oracle; the reduced axis must carry the contracted length K of BOTH operands (a product that aligns K with another length is
    an error) and the result must have the shape NumPy documents."""
    from sa.shapes import ShapeExec, Arr, ShapeError, Raised
    m, regs = registrations(model)
    by = {fn.name: fn for fn, _ in regs}
    ncases = 0
    for name, cases in oracle['contraction_shapes'].items():
        fn = by.get(name)
        if fn is None:
            raise AnalysisError(f'numpy.{name} implementation not found')
        pos = [a.arg for a in fn.args.args]
        bad = None
        for a, b, want in cases:
            ncases += 1
            try:
                r = ShapeExec({pos[0]: Arr(a), pos[1]: Arr(b)}).call(fn)
            except Raised:
                bad = (a, b, 'the operands are rejected')
            except ShapeError as e:
                bad = (a, b, str(e))
            except Unsupported as e:
                raise AnalysisError(f'numpy.{name}: the shape interpreter does not know a construct: {e}')
            else:
                contracted = [l for l in a if l in b and l not in want]
                if sorted(r.reduced) != sorted(contracted):
                    bad = (a, b, f'the axes summed away carry the lengths {list(r.reduced)}, NumPy contracts {contracted}')
                elif r.shape != want:
                    bad = (a, b, f'the result has shape ({", ".join(r.shape)}), NumPy gives ({", ".join(want)})')
            if bad:
                break
        fmt = lambda sh: '(' + ', '.join(sh) + ')'
        rep.ob('R07.13', f'function:__implementations__.{name}', f'{m.relpath}:{fn.lineno}', bad is None,
               f'numpy.{name}: for all {len(cases)} operand-dimension cases the contraction runs over the contracted length of both operands and the result has NumPy\'s shape (labelled-shape interpretation)' if bad is None else
               f'numpy.{name} of operands with shapes {fmt(bad[0])} and {fmt(bad[1])}: {bad[2]}', statement=f'contraction-axis {name}')
    if ncases < 15:
        raise AnalysisError('R07.13: oracle cases missing')


def check_result_shapes(model, rep, oracle):
    """R07.14: composite implementations with axis arguments (transpose, swapaxes, sum, prod, any, all, trace, diagonal, stack) are
    interpreted over labelled shapes, down through the implementations they call and through _Transpose._end itself, for the calls
    listed in the oracle; the result must have the shape NumPy documents, with the axes in NumPy's order."""
    from sa.shapes import ShapeExec, Arr, ShapeError, Raised
    m, regs = registrations(model)
    impls = {}
    for fn, names in regs:
        for nme in names:
            impls[nme] = fn
    impls['_contract'] = model.func('function:_contract').node
    end = model.func('function:_Transpose._end').node

    def conv(x):
        if isinstance(x, dict):
            return Arr(x['a'], dtype=x.get('dtype', 'float'))
        if isinstance(x, list):
            return [conv(y) for y in x]
        return x
    verdict = {}
    ncases = 0
    for case in oracle['result_shapes']:
        f = case['f']
        if f not in impls:
            raise AnalysisError(f'{f} implementation not found')
        ncases += 1
        if f in verdict and verdict[f] is not None:
            continue
        verdict.setdefault(f, None)
        args = [conv(a) for a in case['args']]
        try:
            r = ShapeExec({}, impls, end).sub(impls[f], args)
        except Raised:
            verdict[f] = (case, 'the call is rejected')
            continue
        except ShapeError as e:
            verdict[f] = (case, str(e))
            continue
        except Unsupported as e:
            raise AnalysisError(f'{f}: the shape interpreter does not know a construct: {e}')
        if not isinstance(r, Arr) or r.shape != case['shape']:
            verdict[f] = (case, f'the result has shape ({", ".join(r.shape) if isinstance(r, Arr) else r}), NumPy gives ({", ".join(case["shape"])})')
    # the contract of the helper every axis-taking implementation relies on: to_end(a, *axes) moves the listed axes to the end IN THE
    # LISTED ORDER and keeps the relative order of the others; from_end is its inverse.  Exhaustive for up to 4 axes.
    import itertools
    bad_end = None
    nend = 0
    for n in range(1, 5):
        labels = [f'L{k}' for k in range(n)]
        for r in range(0, min(n, 3) + 1):
            for axes in itertools.permutations(range(n), r):
                for spelled in (axes, tuple(a - n for a in axes)):
                    nend += 1
                    try:
                        t = ShapeExec({}, impls, end).transpose_end(Arr(labels), list(spelled), False)
                        want = [l for k, l in enumerate(labels) if k not in axes] + [labels[k] for k in axes]
                        if t.shape != want:
                            bad_end = bad_end or (f'to_end of ({", ".join(labels)}) with axes {spelled} gives ({", ".join(t.shape)}), the listed axes in the listed order at the end would be ({", ".join(want)})')
                            continue
                        back = ShapeExec({}, impls, end).transpose_end(t, list(spelled), True)
                        if back.shape != labels:
                            bad_end = bad_end or (f'from_end does not invert to_end for axes {spelled} of {n}: ({", ".join(back.shape)})')
                    except ShapeError as e:
                        bad_end = bad_end or f'to_end/from_end with axes {spelled} of {n}: {e}'
                    except Raised:
                        bad_end = bad_end or f'to_end/from_end rejects the valid axes {spelled} of {n}'
                    except Unsupported as e:
                        raise AnalysisError(f'_Transpose._end: the shape interpreter does not know a construct: {e}')
    endf = model.func('function:_Transpose._end')
    rep.ob('R07.14', endf.key, endf.where(), bad_end is None, f'_Transpose.to_end moves the listed axes to the end in the listed order and from_end inverts it ({nend} axis lists of up to 4 axes, interpreted)' if bad_end is None else
           bad_end + ': implementations that slice or reduce the trailing axes after to_end (diagonal and trace with an offset, dot, cross, take) then act on the wrong axes', statement='to_end-contract')
    def show(a):
        return '(' + ', '.join(a['a']) + ')' if isinstance(a, dict) else '[' + ', '.join(show(x) for x in a) + ']' if isinstance(a, list) else repr(a)
    for f, bad in verdict.items():
        fn = impls[f]
        rep.ob('R07.14', f'function:__implementations__.{fn.name}', f'{m.relpath}:{fn.lineno}', bad is None,
               f'{f}: all oracle calls give NumPy\'s result shape (labelled-shape interpretation through the called implementations and _Transpose._end)' if bad is None else
               f'{f}({", ".join(show(a) for a in bad[0]["args"])}): {bad[1]}', statement=f'result-shape {f}')
    if ncases < 20:
        raise AnalysisError('R07.14: oracle cases missing')


def _ord(fn, node):
    calls = [c for c in ast.walk(fn) if isinstance(c, ast.Call) and src(c.func) == '_Wrapper']
    calls.sort(key=lambda c: (c.lineno, c.col_offset))
    return next(i for i, c in enumerate(calls) if c is node)


def check_namespace_table(model, rep, oracle):
    ns = model.cls('expression_v2:Namespace')
    init = ns.members['__init__'].func
    alias = oracle['namespace_v2']
    for s in init.body:
        if isinstance(s, ast.Assign) and isinstance(s.targets[0], ast.Attribute) and src(s.targets[0].value) == 'self' and src(s.value).startswith('numpy.'):
            name = s.targets[0].attr
            ok = src(s.value) == 'numpy.' + alias.get(name, name)
            rep.ob('R07.1', init.key, init.where(s), ok, f'namespace function {name} is numpy.{alias.get(name, name)}' if ok else f'namespace function {name} is bound to {src(s.value)}', statement=f'namespace {name}')


def run(model, rep, tier):
    with open(ORACLE) as f:
        oracle = json.load(f)
    rep.explanation = (
        'R07.1 three-table chain: for each table-shaped registration `@implements(numpy.f)` in function.__implementations__ (return of _Wrapper.broadcasted_arrays(evaluable.G, operands...) or _Wrapper(evaluable.G, ...)), '
        'evaluable.G is evaluated symbolically - lower-case wrappers (reciprocal, sqrt, negative, divide, subtract, log2, log10, abs, conjugate, real, imag, sinc, add, multiply, power ...) are inlined statement by statement, '
        'node classes are read through the expression their _compile_expression emits - to a polynomial normal form over the operands, separately for real and complex operands where the wrapper branches on dtype, and '
        'compared with the meaning NumPy documents for f (oracles/numpy_api.json). R07.2 min_dtype/force_dtype realise NumPy\'s result kind class (float for true division and transcendental functions, int for power, bool '
        'for comparisons), comparisons reject complex operands, logical operations are declined for non-booleans. R07.3 the NEP-13/18 hooks consult the table and decline the rest; operator dunders delegate to the same-named '
        'NumPy function, reflected ones with swapped operands. 42 of the 81 registrations are table shaped and decided; broadcasting, indexing, reshape, einsum and lowering with point axes are NOT decided.')
    rep.rule('R07.1', 'numpy.f -> implementation -> evaluable chain has the meaning NumPy documents for f')
    rep.rule('R07.2', 'result element-kind class as NumPy; domain restrictions')
    rep.rule('R07.3', 'dispatch hooks and operator delegation')
    rep.rule('R07.4', 'linear-algebra wrappers announce an inexact element kind')
    rep.rule('R07.5', 'implementations never write into caller-owned arrays')
    rep.rule('R07.6', 'slice bounds are normalised with Python slice semantics in both layers')
    rep.rule('R07.7', 'non-broadcasting functions of two operands (dot, matmul, vdot) compare the operand shapes before the broadcasting product')
    rep.rule('R07.9', 'shape preconditions asserted by a wrapped evaluable node are tested (raise) by the wrapping NumPy implementation')
    rep.rule('R07.10', 'index arrays of one subscript are handled jointly, as NumPy does')
    rep.rule('R07.11', 'boolean operands: absolute is the identity, contractions stay boolean, a boolean subscript is a mask')
    rep.rule('R07.12', 'build-time divisions by axis lengths are preceded by a test that excludes zero (empty arrays)')
    rep.rule('R07.13', 'dot/matmul/vdot contract the axis that carries the contracted length of both operands and return NumPy\'s shape (labelled-shape interpretation)')
    rep.rule('R07.14', 'composite implementations with axis arguments deliver NumPy\'s result shape for the oracle calls (labelled-shape interpretation)')
    rep.rule('R07.15', 'integer ranges of the index-producing nodes (SearchSorted, ArgSort, Find, Range, ...) equal interval arithmetic (= R06.4)')
    rep.rule('R07.8', 'every _Transpose is constructed from normalised, permutation-checked axes')
    rep.trusted_base.append('oracles/numpy_api.json (NumPy documented semantics)')
    check_chains(model, rep, oracle)
    check_hooks(model, rep)
    check_composites(model, rep)
    check_contractions(model, rep)
    check_sequence_shapes(model, rep)
    check_axis_order(model, rep)
    rep.rule('R07.16', 'numpy.prod / numpy.all over an empty axis: the Zeros shortcut of Product answers 1 there (= R01.9)')
    from rules.c01 import check_zeros_shortcuts
    check_zeros_shortcuts(model, rep, rule='R07.16')
    check_axes(model, rep)
    check_wrapped_preconditions(model, rep)
    check_wrapped_kinds(model, rep)
    check_getitem(model, rep)
    check_boolean_cases(model, rep, oracle)
    check_build_time_division(model, rep)
    check_contraction_shapes(model, rep, oracle)
    check_result_shapes(model, rep, oracle)
    from rules.c06 import check_transfer, _OnlyRule
    check_transfer(model, _OnlyRule(rep, {'R06.4': 'R07.15'}))
    from rules.c06 import check_transfer_sound
    check_transfer_sound(model, _OnlyRule(rep, {'R06.4': 'R07.15'}))   # the ranges of the index-producing nodes behind searchsorted/argsort/take
    check_namespace_table(model, rep, oracle)
    from rules import round4 as _r4
    rep.rule('R07.17', 'numpy.cross: axis overrides axisa, axisb and axisc; numeric.inv visits every matrix of a batch; slice.indices() components all used in function.py')
    _r4.check_cross_axis(model, rep, 'R07.17')
    _r4.check_batch_loops(model, rep, 'R07.17')
    _r4.check_slice_components(model, rep, 'R07.17', ('function',))
    rep.rule('R07.18', 'a constant integer vector is rewritten to a Range only under a guard that proves unit steps (= R01.10)')
    from rules.c01 import check_range_recognition
    from rules.c03 import _Rename as _Rn
    check_range_recognition(model, _Rn(rep, {'R01.10': 'R07.18'}))
    rep.require('R07.1', 55)
    rep.require('R07.2', 40)
    rep.require('R07.3', 3)
