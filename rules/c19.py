'''C19 Expression strings mean their index-notation reading.

Decided: error discipline of the v2 parser (only ExpressionSyntaxError is raised; int()/float() of user text
guarded), must-check-before-action guards of its semantic rules (divide, power, add, trace, get_element,
scopes), the bracket/function tables of v2, escape analysis of v1's internal _IntermediateError, and
writer/reader agreement of v1's opcode tuples.  Not decided: that the value equals the index-notation
reading; v1 length linking.
'''

import ast

from sa import AnalysisError, scopes
from sa.pattern import pmatch, pfind
from sa.astutil import dotted, src, stmt_text, params, find_stmts, calls_in, method_name, walk_no_nested, const, resolved_return
from sa.guards import facts_at, paths_to, enclosing_conditions, decompose
from sa.paths import PathEnumerator, Event


# --------------------------------------------------------------------------- v2

def _merge_rejects_duplicates(g):
    """In _merge_summed_indices_same_term: for every part, a non-empty intersection with the indices merged so far raises BEFORE the part
    is merged (spellings: a for over the intersection that raises, an if on it, `not merged.isdisjoint(part)`)."""
    for lp in find_stmts(g.body, lambda s: isinstance(s, ast.For)):
        if not isinstance(lp.target, ast.Name):
            continue
        part = lp.target.id
        inits = [a for a in g.body if isinstance(a, (ast.Assign, ast.AnnAssign)) and src(a.value) in ('set()', 'set(())') and a.lineno < lp.lineno]
        for a in inits:
            m = src(a.targets[0] if isinstance(a, ast.Assign) else a.target)
            inter = {f'{m} & {part}', f'{part} & {m}', f'{m}.intersection({part})', f'{part}.intersection({m})'}
            inter |= {f'sorted({x})' for x in inter} | {f'list({x})' for x in inter} | {f'len({x})' for x in inter} | {f'bool({x})' for x in inter}
            nonempty = inter | {f'not {m}.isdisjoint({part})', f'not {part}.isdisjoint({m})'} | {f'{x} > 0' for x in inter if x.startswith('len(')}
            updates = {f'{m} |= {part}', f'{m}.update({part})', f'{m} = {m} | {part}', f'{m} = {m}.union({part})'}
            guard = update = None
            for i, b in enumerate(lp.body):
                if guard is None and isinstance(b, ast.For) and src(b.iter) in inter and b.body and isinstance(b.body[0], ast.Raise):
                    guard = i
                elif guard is None and isinstance(b, ast.If) and src(b.test) in nonempty and b.body and isinstance(b.body[-1], ast.Raise) \
                        and not any(isinstance(x, (ast.Assign, ast.AugAssign)) for x in b.body):
                    guard = i
                elif update is None and src(b) in updates:
                    update = i
            if guard is not None and update is not None and guard < update and not any(isinstance(x, (ast.Break, ast.Continue)) for x in ast.walk(lp)):
                return True
    return False


def check_v2_errors(model, rep):
    p = model.cls('expression_v2:_Parser')
    m = p.module
    n = 0
    for mem in p.members.values():
        f = mem.func
        if f is None:
            continue
        # locals bound to an ExpressionSyntaxError instance (e.g. `error = ExpressionSyntaxError(...)`)
        errvars = {src(s.targets[0]) for s in find_stmts(f.body, lambda s: isinstance(s, ast.Assign)) if isinstance(s.value, ast.Call) and src(s.value.func) == 'ExpressionSyntaxError'}
        for r in find_stmts(f.body, lambda s: isinstance(s, ast.Raise)):
            n += 1
            if r.exc is None:
                ok = False
            else:
                e = r.exc.func if isinstance(r.exc, ast.Call) else r.exc
                ok = src(e) == 'ExpressionSyntaxError' or src(e) in errvars
            rep.ob('R19.1', f.key, f.where(r), ok, 'raises the module\'s ExpressionSyntaxError' if ok else
                   f'`{stmt_text(r)[:70]}` raises something else than ExpressionSyntaxError for a malformed expression', statement='raise@' + _ordinal_in(f, r))
        # conversions of user text
        for c in calls_in(f.node, nested=False):
            if isinstance(c.func, ast.Name) and c.func.id in ('int', 'float') and c.args and 'str(' in src(c.args[0]):
                n += 1
                ok = _in_try_converting(f, c, 'ValueError') or _digit_guarded(f, c)
                rep.ob('R19.1', f.key, f.where(c), ok, f'`{src(c)}` of user text is converted under a ValueError->ExpressionSyntaxError handler or a digit test' if ok else
                       f'`{src(c)}` parses user text without a ValueError handler or a digit-range test: a malformed number escapes as ValueError', statement=f'convert {src(c)}')
    if n < 20:     # a guard against vacuity only (the pinned tree has about 37 sites; merging sibling parsers into a shared helper legitimately lowers the number)
        raise AnalysisError(f'_Parser: only {n} raise/conversion sites found')
    # name resolution inside the parser and the ops (the exception type is part of the property)
    for u in scopes.unresolved(m):
        head = u.scope.split('.')[0]
        if head in ('_Parser', '_FunctionArrayOps', '_Substring', 'Namespace', 'ExpressionSyntaxError'):
            rep.ob('R19.1', f'expression_v2:{u.scope}', f'{m.relpath}:{u.lineno}', False, f'name `{u.name}` resolves in no scope: NameError instead of the documented error', statement=f'unresolved {u.name}')
    rep.ob('R19.1', 'expression_v2:_Parser', f'{m.relpath}:{p.node.lineno}', True, 'every name in the v2 parser resolves', statement='names-resolve')
    e = model.cls('expression_v2:ExpressionSyntaxError')
    ok = 'ValueError' in e.base_exprs
    rep.ob('R19.1', e.key, f'{m.relpath}:{e.node.lineno}', ok, 'ExpressionSyntaxError is the module\'s (ValueError based) syntax error', statement='error-class')


def _ordinal_in(f, node):
    rs = [s for s in ast.walk(f.node) if isinstance(s, ast.Raise)]
    rs.sort(key=lambda s: (s.lineno, s.col_offset))
    return str(next(i for i, s in enumerate(rs) if s is node))


def _in_try_converting(f, call, exc):
    for t in ast.walk(f.node):
        if isinstance(t, ast.Try) and any(any(x is call for x in ast.walk(b)) for b in t.body):
            for h in t.handlers:
                names = [src(x) for x in (h.type.elts if isinstance(h.type, ast.Tuple) else [h.type])] if h.type is not None else []
                if exc in names and any(isinstance(b, ast.Raise) and b.exc is not None and 'ExpressionSyntaxError' in src(b.exc) for b in h.body):
                    return True
    return False


def _digit_guarded(f, call):
    conds = enclosing_conditions(f.node)
    arg = src(call.args[0])
    for t, v in conds.get(id(call), ()):
        if v and t.replace(' ', '') == f"'0'<={arg}<='9'".replace(' ', ''):
            return True
    # `index = str(s_index); if '0' <= index <= '9': index = int(index)`
    for t, v in conds.get(id(call), ()):
        if v and "'0' <=" in t and "<= '9'" in t and (arg in t or arg.replace('str(', '').rstrip(')') in t):
            return True
    return False


def _set_difference(e, env):
    """(A, B) when the expression denotes the set of items of A that are not in B (sorted(), a bound name and both spellings of the difference are looked through)."""
    for _ in range(4):
        if isinstance(e, ast.Name) and e.id in env:
            e = env[e.id]
        elif isinstance(e, ast.Call) and src(e.func) in ('sorted', 'list', 'tuple', 'frozenset') and len(e.args) == 1 and not e.keywords:
            e = e.args[0]
        else:
            break
    asset = lambda x: src(x.args[0]) if isinstance(x, ast.Call) and src(x.func) in ('set', 'frozenset') and len(x.args) == 1 else None
    if isinstance(e, ast.BinOp) and isinstance(e.op, ast.Sub) and asset(e.left) and asset(e.right):
        return asset(e.left), asset(e.right)
    if isinstance(e, ast.Call) and isinstance(e.func, ast.Attribute) and e.func.attr == 'difference' and len(e.args) == 1 and asset(e.func.value):
        return asset(e.func.value), asset(e.args[0]) or src(e.args[0])
    return None


def _rejected_differences(fn):
    """The pairs (A, B) for which a non-empty set(A) - set(B) raises in the function."""
    out = set()

    def scan(stmts, env):
        env = dict(env)
        for s_ in stmts:
            if isinstance(s_, ast.Assign) and len(s_.targets) == 1 and isinstance(s_.targets[0], ast.Name):
                env[s_.targets[0].id] = s_.value
            elif isinstance(s_, ast.For) and s_.body and isinstance(s_.body[-1], ast.Raise) and all(isinstance(x, (ast.Assign, ast.Raise)) for x in s_.body):
                d = _set_difference(s_.iter, env)
                if d:
                    out.add(d)
            elif isinstance(s_, ast.If) and s_.body and isinstance(s_.body[-1], ast.Raise) and all(isinstance(x, (ast.Assign, ast.Raise)) for x in s_.body):
                d = _set_difference(s_.test, env)
                if d:
                    out.add(d)
            for fld in ('body', 'orelse', 'finalbody'):
                sub = getattr(s_, fld, None)
                if isinstance(sub, list) and sub and isinstance(sub[0], ast.stmt) and not isinstance(s_, (ast.FunctionDef, ast.ClassDef)):
                    scan(sub, env)
    scan(fn.body, {})
    return out


def _facts_imply(facts, goal):
    """Do the tests known to have succeeded / failed on every path (text -> truth) imply the goal?  Integer comparisons: `a >= b` is `not a < b`."""
    import sa.boolnf as B
    goal_names = {n.id for n in ast.walk(ast.parse(goal, mode='eval')) if isinstance(n, ast.Name)}
    parts = []
    for t, v in facts.items():
        try:
            e = ast.parse(t, mode='eval').body
        except SyntaxError:
            continue
        if goal_names & {n.id for n in ast.walk(e) if isinstance(n, ast.Name)}:
            parts.append(f'({t})' if v else f'(not ({t}))')
    if not parts:
        return False
    old = B.TOTAL_ORDER
    B.TOTAL_ORDER = True
    try:
        return bool(B.implies(' and '.join(parts), goal))
    except Exception:
        return False
    finally:
        B.TOTAL_ORDER = old


def _facts_before_call(f, pred):
    '''facts (text -> truth) common to all paths reaching a statement that contains a call satisfying pred; plus events'''
    def is_target(s):
        return any(isinstance(c, ast.Call) and pred(c) for c in ast.walk(s)) and not isinstance(s, (ast.FunctionDef, ast.If, ast.For, ast.While, ast.With, ast.Try))

    def extra(s, st):
        evs = []
        for c in ast.walk(s):
            if isinstance(c, ast.Call) and isinstance(c.func, ast.Attribute) and src(c.func.value) == 'self' and c.func.attr.startswith(('_verify', '_merge')):
                evs.append(Event('CALL', s, c.func.attr))
        return evs
    ps = paths_to(f.node, is_target, on_extra=extra, unroll=1)
    if not ps:
        raise AnalysisError(f'{f.key}: semantic action not found on any path')
    common = None
    calls_common = None
    for p, idx, facts in ps:
        items = set(facts.items())
        common = items if common is None else common & items
        cs = {e.data for e in p.events[:idx] if e.kind == 'CALL'}
        calls_common = cs if calls_common is None else calls_common & cs
    return dict(common), calls_common, len(ps)


def check_v2_guards(model, rep):
    p = model.cls('expression_v2:_Parser')

    def fn(name):
        mem = p.members.get(name)
        if mem is None or mem.func is None:
            raise AnalysisError(f'_Parser.{name} not found')
        return mem.func

    def need(f, what, ok, good, bad):
        rep.ob('R19.2', f.key, f.where(), ok, good if ok else bad, statement=what)

    # divide
    f = fn('parse_fraction')
    facts, calls, n = _facts_before_call(f, lambda c: src(c.func) == 'self.array.divide')
    need(f, 'divide: denominator-dimension', facts.get('denominator_indices') is False, f'`divide` is reached only with a dimensionless denominator (all {n} paths)',
         'the semantic action `divide` can be reached with a denominator that still has indices: a_i / b_j would be evaluated by broadcasting')
    need(f, 'divide: summed-merge', '_merge_summed_indices_same_term' in calls and '_verify_indices_summed' in calls, 'summed indices of numerator and denominator are merged and verified before `divide`',
         '`divide` is reached without merging/verifying the summed indices: an index used more than twice is accepted')
    facts, calls, n = _facts_before_call(f, lambda c: src(c.func) == 'self.parse_term' and 's_parts[1]' in src(c))
    need(f, 'divide: repeated', facts.get('len(s_parts) > 2') is False, 'repeated fractions are rejected before the denominator is parsed', 'a / b / c is no longer rejected')
    # power
    f = fn('parse_power')
    facts, calls, n = _facts_before_call(f, lambda c: src(c.func) == 'self.array.power')
    need(f, 'power: exponent-dimension', facts.get('exponent_indices') is False, f'`power` is reached only with a dimensionless exponent (all {n} paths)',
         '`power` can be reached with an exponent that has indices')
    need(f, 'power: summed-merge', '_merge_summed_indices_same_term' in calls and '_verify_indices_summed' in calls, 'summed indices of base and exponent are merged and verified before `power`',
         '`power` is reached without merging/verifying the summed indices: a_ii^(b_i) style triple use of an index is accepted')
    need(f, 'power: repeated', facts.get('len(s_parts) > 2') is False, 'repeated powers are rejected', 'a^b^c is no longer rejected')
    txt = src(f.node)
    ok = "s_parts[0].ends_with(' ')" in txt and "s_parts[1].starts_with(' ')" in txt
    need(f, 'power: whitespace', ok, 'whitespace around ^ is rejected', 'whitespace around `^` is no longer rejected')
    # add
    f = fn('parse_expression')
    facts, calls, n = _facts_before_call(f, lambda c: src(c.func) == 'self.array.add')
    loops = [s for s in find_stmts(f.body, lambda s: isinstance(s, ast.For))]
    # both set differences lead to a raise, however the emptiness test is written: `for i in sorted(A - B): raise`, `if A - B: raise`,
    # `m = set(A).difference(B)` + `if m: raise`
    ok = _rejected_differences(f.node) >= {('indices', 'term_indices'), ('term_indices', 'indices')}
    need(f, 'add: index-sets', ok, 'both index-set differences between a term and the first term raise', 'terms with different index sets are no longer rejected in both directions')
    lens = [l for l in loops if src(l.iter).replace(' ', '') == 'zip(shape,term_shape,indices)']
    ok = len(lens) == 1 and any(isinstance(b, ast.If) and src(b.test).replace(' ', '') in ('n!=m', 'm!=n') and any(isinstance(x, ast.Raise) for x in b.body) for b in lens[0].body)
    need(f, 'add: lengths', ok, 'per-axis lengths of every term are compared with the first term', 'the per-axis length test between terms is gone: a_i + b_i with different lengths is evaluated by broadcasting')
    # the transposition uses the first term's order
    ok = any(isinstance(s, ast.Assign) and src(s.targets[0]) == 'axes' and src(s.value).replace(' ', '') == 'tuple(map(term_indices.index,indices))' for s in find_stmts(f.body, lambda s: isinstance(s, ast.Assign)))
    need(f, 'add: transpose-order', ok, 'later terms are transposed to the index order of the first term', 'the transposition to the first term\'s index order changed')
    ok = any(isinstance(s, ast.AugAssign) and src(s.target) == 'summed_indices' and isinstance(s.op, ast.BitOr) and src(s.value) == 'term_summed_indices' for s in find_stmts(f.body, lambda s: isinstance(s, ast.AugAssign)))
    need(f, 'add: summed-union', ok, 'summed indices of all terms are united', 'summed indices of later terms are dropped: an index summed in one term could be reused outside')
    # ... on EVERY path through the per-term loop body (a shortcut `continue` in front of it loses them for that term)
    tl = [l for l in loops if 'unaligned[1:]' in src(l.iter)]
    if len(tl) != 1:
        raise AnalysisError('parse_expression: the loop over the later terms was not found')
    fake = ast.FunctionDef(name='_term_loop_body', args=ast.arguments(posonlyargs=[], args=[], kwonlyargs=[], kw_defaults=[], defaults=[]), body=tl[0].body, decorator_list=[], lineno=tl[0].lineno)

    def on_stmt(s, st):
        evs = []
        if isinstance(s, ast.AugAssign) and src(s.target) == 'summed_indices' and isinstance(s.op, ast.BitOr):
            evs.append(Event('UNION', s))
        if isinstance(s, ast.Expr) and src(s.value).startswith('aligned.append('):
            evs.append(Event('APPEND', s))
        return evs
    paths = [p for p in PathEnumerator(fake, on_stmt=on_stmt, unroll=1).paths() if p.end != 'raise']
    # `continue` ends the iteration of the enclosing loop: the enumerator reports it as an error outside a loop, so wrap
    bad = [p for p in paths if not any(e.kind == 'UNION' for e in p.events)]
    bad2 = [p for p in paths if not any(e.kind == 'APPEND' for e in p.events)]
    need(f, 'add: every-term-accounted', not bad and not bad2 and bool(paths), f'all {len(paths)} non-raising paths through the per-term loop unite the summed indices and append the term',
         'a path through the per-term loop skips `summed_indices |= term_summed_indices` or `aligned.append(...)`: indices summed inside that term are forgotten (or the term is dropped)')
    # trace
    f = fn('_trace')
    facts, calls, n = _facts_before_call(f, lambda c: src(c.func) == 'self.array.trace')
    # decided on what the tests passed on the way imply (sa.boolnf over integers), not on how the guards are spelled or nested
    need(f, 'trace: more-than-twice', _facts_imply(facts, 'not (index in summed_indices)'), '`trace` is reached only for an index that was not summed before',
         '`trace` can be reached for an index that was already summed: a third occurrence is silently traced')
    need(f, 'trace: lengths', _facts_imply(facts, 'not (shape[i] != shape[j])'), '`trace` is reached only for axes of equal length', 'axes of different length can be traced')
    need(f, 'trace: order', _facts_imply(facts, 'i < j'), 'the first occurrence precedes the repeated one', 'trace positions changed')
    wl = [s for s in find_stmts(f.body, lambda s: isinstance(s, ast.While))]
    txt = src(f.node)
    ok = 'summed_indices.add(index)' in txt and 'shape = shape[:i] + shape[i + 1:j] + shape[j + 1:]' in txt and 'indices = indices[:i] + indices[i + 1:j] + indices[j + 1:]' in txt
    need(f, 'trace: bookkeeping', ok, 'traced axes are removed from shape and indices and the index is recorded as summed', 'the bookkeeping after a trace (remove both axes, record the index) changed')
    # get_element
    f = fn('parse_item')
    facts, calls, n = _facts_before_call(f, lambda c: src(c.func) == 'self.array.get_element')
    need(f, 'get_element: range', facts.get('index >= shape[axis]') is False, '`get_element` is reached only with an index below the axis length',
         'a numeral index beyond the axis length reaches `get_element`')
    ge = [c for c in calls_in(f.node) if src(c.func) == 'self.array.get_element']
    ok = len(ge) == 1 and [src(a) for a in ge[0].args] == ['array', 'axis', 'index'] and any(isinstance(s, ast.Assign) and src(s.targets[0]) == 'axis' and src(s.value) == 'len(indices)' for s in find_stmts(f.body, lambda s: isinstance(s, ast.Assign)))
    need(f, 'get_element: axis', ok, 'the element is taken from the axis that follows the indices kept so far', 'the axis of a numeral index is no longer len(indices)')
    # scope recursion
    facts, calls, n = _facts_before_call(f, lambda c: src(c.func) == 'self.parse_expression')
    need(f, 'scope: trailing', facts.get('s_tail') is False, 'nothing may follow a closed scope', 'symbols after a scope are no longer rejected')
    conds = enclosing_conditions(f.node)
    unclosed = [r for r in find_stmts(f.body, lambda s: isinstance(s, ast.Raise)) if ('s_close', False) in conds.get(id(r), ())]
    mismatch = [r for r in find_stmts(f.body, lambda s: isinstance(s, ast.Raise)) if any('parentheses[str(s_open)] != str(s_close)' == t and v for t, v in conds.get(id(r), ()))]
    need(f, 'scope: balanced', bool(unclosed) and bool(mismatch), 'unclosed and mismatched brackets are rejected', 'unclosed or mismatched brackets are no longer rejected')
    # numbers only at the start of a term
    ok = any(('allow_number', False) in conds.get(id(r), ()) for r in find_stmts(f.body, lambda s: isinstance(s, ast.Raise)))
    need(f, 'number: position', ok, 'numbers are only allowed at the start of a term', 'a number in the middle of a term is no longer rejected')
    t = fn('parse_term')
    ok = False
    for comp in [n for n in ast.walk(t.node) if isinstance(n, (ast.GeneratorExp, ast.ListComp))]:
        g = comp.generators[0]
        m = pmatch('self.parse_power(P_, allow_number=I_ == 0)', comp.elt)
        if m is not None and isinstance(g.iter, ast.Call) and src(g.iter.func) == 'enumerate' and isinstance(g.target, ast.Tuple) and src(g.target.elts[0]) == src(m['I_']) \
                and (len(g.iter.args) == 1 or const(g.iter.args[1]) == 0):
            ok = True     # whatever the counter of the enumeration is called
    need(t, 'term: first-number', ok, 'only the first factor of a term may be a number', 'parse_term allows numbers at every position')
    # variable / function lookup failures
    unknown = [r for r in find_stmts(f.body, lambda s: isinstance(s, ast.Raise)) if ('result is None', True) in conds.get(id(r), ())]
    invalid = [r for r in find_stmts(f.body, lambda s: isinstance(s, ast.Raise)) if ('isinstance(result, _InvalidDimension)', True) in conds.get(id(r), ())]
    need(f, 'lookup: unknown', len(unknown) == 2 and len(invalid) == 2, 'unknown variables/functions and wrong numbers of indices are rejected', 'unknown names or wrong index counts are no longer rejected for both variables and functions')
    ok = any(isinstance(s, ast.If) and "'a' <= index <= 'z'" in src(s.test) for s in ast.walk(f.node)) and 'is not allowed as index' in src(f.node)
    need(f, 'index: alphabet', ok, 'only a-z and digits are accepted as indices', 'the index alphabet test changed')
    # _verify / _merge helpers themselves
    v = fn('_verify_indices_summed')
    ok = any(isinstance(s, ast.If) and src(s.test) == 'index in summed' and any(isinstance(b, ast.Raise) for b in s.body) for s in ast.walk(v.node))
    need(v, 'verify-summed', ok, 'a free index that is also summed raises', '_verify_indices_summed no longer raises for a free index that was summed')
    g = fn('_merge_summed_indices_same_term')
    ok = _merge_rejects_duplicates(g)
    need(g, 'merge-summed', ok, 'an index summed in two factors of one term raises', '_merge_summed_indices_same_term no longer rejects an index summed twice')


def _is_outer_product_fold(ops, mul):
    """multiply(*args) folds the arguments from the left with  (acc, nxt) -> numpy.multiply(self.append_axes(acc, numpy.shape(nxt)), nxt):
    as a loop over args[1:] that starts from args[0], or as functools.reduce of a lambda / of a method of the same class."""
    def step_ok(expr, acc, nxt):
        return expr is not None and src(expr) in (f'numpy.multiply(self.append_axes({acc}, numpy.shape({nxt})), {nxt})', f'self.append_axes({acc}, numpy.shape({nxt})) * {nxt}',
                                                  f'numpy.multiply(self.append_axes({acc}, {nxt}.shape), {nxt})', f'self.append_axes({acc}, {nxt}.shape) * {nxt}')
    for loop in (n for n in ast.walk(mul.node) if isinstance(n, ast.For)):
        if src(loop.iter) == 'args[1:]' and isinstance(loop.target, ast.Name) and len(loop.body) == 1 and isinstance(loop.body[0], ast.Assign) \
                and len(loop.body[0].targets) == 1 and isinstance(loop.body[0].targets[0], ast.Name):
            acc = loop.body[0].targets[0].id
            inits = [s_ for s_ in mul.body if isinstance(s_, ast.Assign) and src(s_.targets[0]) == acc and s_.lineno < loop.lineno]
            rets = find_stmts(mul.body, lambda s_: isinstance(s_, ast.Return))
            if len(inits) == 1 and src(inits[0].value) == 'args[0]' and len(rets) == 1 and src(rets[0].value) == acc and step_ok(loop.body[0].value, acc, loop.target.id):
                return True
    R = resolved_return(mul.node)
    m = pmatch('functools.reduce(F_, args[1:], args[0])', R) or pmatch('functools.reduce(F_, args)', R)
    if m is None:
        return False
    F = m['F_']
    if isinstance(F, ast.Lambda) and len(F.args.args) == 2 and not F.args.defaults:
        return step_ok(F.body, F.args.args[0].arg, F.args.args[1].arg)
    if isinstance(F, ast.Attribute) and src(F.value) == 'self' and F.attr in ops.members and ops.members[F.attr].func is not None:
        h = ops.members[F.attr].func
        ps = [a.arg for a in h.node.args.args]
        if len(ps) == 3 and ps[0] == 'self':
            return step_ok(resolved_return(h.node), ps[1], ps[2])
    return False


def _index_segments(expr, env):
    """An integer index vector as a list of ranges (start, length): K + arange(N), arange(A, B), arange(K), their concatenation."""
    from sa.algebra import Poly, translate, Unsupported
    funcs = {'len': ('fn', 'len'), 'numpy.ndim': ('fn', 'ndim')}

    def num(e):
        class T(ast.NodeTransformer):
            def visit_Attribute(self, n):   # X.ndim is numpy.ndim(X)
                self.generic_visit(n)
                if n.attr == 'ndim' and isinstance(n.value, ast.Name) and n.value.id != 'numpy':
                    return ast.Call(func=ast.Attribute(value=ast.Name(id='numpy', ctx=ast.Load()), attr='ndim', ctx=ast.Load()), args=[n.value], keywords=[])
                return n
        import copy
        return translate(ast.fix_missing_locations(T().visit(copy.deepcopy(e))), env, funcs)

    def seg(e):
        if isinstance(e, ast.Call) and src(e.func) in ('numpy.arange', 'range') and not e.keywords and 1 <= len(e.args) <= 2:
            if len(e.args) == 1:
                return [(Poly.const(0), num(e.args[0]))]
            a, b = num(e.args[0]), num(e.args[1])
            return [(a, b - a)]
        if isinstance(e, ast.Call) and src(e.func) in ('list', 'tuple', 'numpy.array', 'numpy.asarray') and len(e.args) == 1 and not e.keywords:
            return seg(e.args[0])
        if isinstance(e, ast.Call) and src(e.func) in ('numpy.concatenate', 'numpy.hstack') and len(e.args) == 1 and not e.keywords and isinstance(e.args[0], (ast.List, ast.Tuple)):
            return [x for a in e.args[0].elts for x in seg(a)]
        if isinstance(e, (ast.List, ast.Tuple)) and all(isinstance(x, ast.Starred) for x in e.elts):
            return [x for a in e.elts for x in seg(a.value)]
        if isinstance(e, ast.BinOp) and isinstance(e.op, ast.Add):
            # K + arange(N) shifts a range; list(range) + list(range) concatenates
            for a, b in ((e.left, e.right), (e.right, e.left)):
                try:
                    k = num(a)
                except Unsupported:
                    continue
                r = seg(b)
                if len(r) == 1 and not (isinstance(b, ast.Call) and src(b.func) in ('list', 'tuple')):
                    return [(r[0][0] + k, r[0][1])]
            if all(isinstance(x, ast.Call) and src(x.func) in ('list', 'tuple') or isinstance(x, (ast.List, ast.Tuple)) for x in (e.left, e.right)):
                return seg(e.left) + seg(e.right)
        raise Unsupported(src(e)[:60])
    try:
        return seg(expr)
    except Unsupported:
        return None


def _appends_axes(ap):
    """append_axes(array, shape) broadcasts `array` to shape + array.shape and then moves the len(shape) new leading axes behind the
    axes of `array`: the transposition is [k, ..., k+n-1, 0, ..., k-1] with k = len(shape), n = ndim(array), however it is spelled."""
    from sa.algebra import Poly
    R = resolved_return(ap.node)
    m = None
    for bshape in ('shape + numpy.shape(array)', 'shape + array.shape', '(*shape, *numpy.shape(array))', '(*shape, *array.shape)'):
        m = m or pmatch(f'numpy.transpose(numpy.broadcast_to(array, {bshape}), S_)', R) or pmatch(f'numpy.broadcast_to(array, {bshape}).transpose(S_)', R)
    if m is None:
        return False
    env = {'shape': Poly.atom('shape'), 'array': Poly.atom('array')}
    segs = _index_segments(m['S_'], env)
    k, n = Poly.atom('len(shape)'), Poly.atom('ndim(array)')
    return segs is not None and [(a.terms, b.terms) for a, b in segs] == [(k.terms, n.terms), (Poly.const(0).terms, k.terms)]


def check_v2_tables(model, rep):
    p = model.cls('expression_v2:_Parser')
    f = p.members['parse_item'].func
    dicts = [d for d in ast.walk(f.node) if isinstance(d, ast.Dict) and all(isinstance(const(k), str) for k in d.keys) and {const(k) for k in d.keys} == {'(', '{', '['}]
    ok = len(dicts) == 1 and {const(k): src(v) for k, v in zip(dicts[0].keys, dicts[0].values)} == {'(': 'self.array.scope', '{': 'self.array.mean', '[': 'self.array.jump'}
    rep.ob('R19.3', f.key, f.where(dicts[0]) if dicts else f.where(), ok, '( ) is a scope, { } the mean, [ ] the jump' if ok else
           'the bracket table no longer maps ( -> scope, { -> mean, [ -> jump as documented', statement='bracket-table')
    par = [d for d in ast.walk(f.node) if isinstance(d, ast.Dict) and {const(k) for k in d.keys} == {'(', '[', '{', '<'}]
    ok = len(par) == 1 and {const(k): const(v) for k, v in zip(par[0].keys, par[0].values)} == {'(': ')', '[': ']', '{': '}', '<': '>'}
    rep.ob('R19.3', f.key, f.where(), ok, 'closing brackets match their opening bracket', statement='closing-table')
    ops = model.cls('expression_v2:_FunctionArrayOps')
    expect = {
        'mean': ['function.mean(array)'], 'jump': ['function.jump(array)'], 'scope': ['array'],
        'trace': ['numpy.trace(array, axis1=axis1, axis2=axis2)', 'numpy.trace(array, axis1, axis2)'],
        'divide': ['numpy.true_divide(numerator, denominator)', 'numpy.divide(numerator, denominator)', 'numerator / denominator'],
        'power': ['numpy.power(base, exponent)', 'base ** exponent'],
        'get_element': ['numpy.take(array, index, axis)', 'numpy.take(array, index, axis=axis)'],
        'transpose': ['numpy.transpose(array, axes)'],
    }
    for name, accepted in expect.items():
        mem = ops.members.get(name)
        if mem is None or mem.func is None:
            raise AnalysisError(f'_FunctionArrayOps.{name} not found')
        rets = find_stmts(mem.func.body, lambda s: isinstance(s, ast.Return))
        ok = len(rets) == 1 and src(rets[0].value) in accepted
        rep.ob('R19.3', mem.func.key, mem.func.where(), ok, f'{name} -> {accepted[0]}' if ok else
               f'the array operation `{name}` returns `{src(rets[0].value) if rets else "?"}` instead of {accepted[0]}', statement=f'op {name}')
    add = ops.members['add'].func
    ok = pmatch('functools.reduce(numpy.add, (-A_ if N_ else A_ for N_, A_ in args))', resolved_return(add.node)) is not None
    rep.ob('R19.3', add.key, add.where(), ok, 'add negates the terms preceded by minus and sums' if ok else 'the add operation changed', statement='op add')
    mul = ops.members['multiply'].func
    ok = _is_outer_product_fold(ops, mul)
    rep.ob('R19.3', mul.key, mul.where(), ok, 'juxtaposition is the outer product in reading order' if ok else 'the multiply operation no longer forms the outer product in reading order', statement='op multiply')
    ap = ops.members['append_axes'].func
    ok = _appends_axes(ap)
    rep.ob('R19.3', ap.key, ap.where(), ok, 'append_axes appends (not prepends) the new axes', statement='op append_axes')
    al = ops.members['align'].func
    ok = 'tuple(map(in_indices.index, out_indices))' in src(al.node)
    rep.ob('R19.3', al.key, al.where(), ok, 'align transposes from expression order to the requested order' if ok else 'align maps the indices in the wrong direction', statement='op align')
    # default functions of the namespace
    ns = model.cls('expression_v2:Namespace')
    init = ns.members['__init__'].func
    alias = {'ln': 'log', 'abs': 'abs', 'conj': 'conj'}
    n = 0
    for s in init.body:
        if isinstance(s, ast.Assign) and isinstance(s.targets[0], ast.Attribute) and src(s.targets[0].value) == 'self':
            name = s.targets[0].attr
            val = src(s.value)
            if val.startswith('numpy.'):
                n += 1
                ok = val == 'numpy.' + alias.get(name, name)
                rep.ob('R19.3', init.key, init.where(s), ok, f'{name} is numpy.{alias.get(name, name)}' if ok else f'the namespace function `{name}` is bound to {val}', statement=f'function {name}')
            elif name == 'opposite':
                rep.ob('R19.3', init.key, init.where(s), val == 'function.opposite', 'opposite is function.opposite', statement='function opposite')
    if n < 18:
        raise AnalysisError('Namespace.__init__: default function table not found')
    rm = ns.members['__rmatmul__'].func
    ok = "ops.align(array, indices, ''.join(sorted(indices)))" in src(rm.node)
    rep.ob('R19.3', rm.key, rm.where(), ok, 'free indices of `expr @ ns` are ordered alphabetically (documented)' if ok else 'the result of `expr @ ns` is no longer aligned to alphabetical index order', statement='rmatmul-order')
    sa_ = ns.members['__setattr__'].func
    txt = src(sa_.node)
    ok = "all(('a' <= index <= 'z' for index in indices))" in txt and 'len(set(indices)) != len(indices)' in txt and 'ops.align(array, expression_indices, indices)' in txt and \
        'sorted(set(indices) - set(expression_indices))' in txt and 'sorted(set(expression_indices) - set(indices))' in txt
    rep.ob('R19.3', sa_.key, sa_.where(), ok, 'attribute indices must be unique a-z, equal as a set to the expression\'s, and the array is aligned to them' if ok else
           'Namespace.__setattr__: the checks/alignment of attribute indices against expression indices changed', statement='setattr-indices')
    gr = model.func('expression_v2:_grad')
    ok = src(gr.body[-1]) == 'return function.grad(func, geom, spaces=spaces)'
    rep.ob('R19.3', gr.key, gr.where(), ok, 'the gradient function is function.grad(func, geom)', statement='define_for gradient')


# --------------------------------------------------------------------------- v1

def check_v1_escape(model, rep):
    m = model.module('expression_v1')
    funcs = [f for f in model.functions.values() if f.module is m and not isinstance(f.node, ast.Lambda)]
    hl = {f.name for f in funcs if f.cls is not None and f.cls.name == '_ExpressionParser' and 'highlight' in f.decorators}

    def raises_directly(f):
        out = []
        for r in find_stmts(f.body, lambda s: isinstance(s, ast.Raise)):
            if r.exc is not None and '_IntermediateError' in src(r.exc) and not _caught(f, r):
                out.append(r)
        return out

    def _caught(f, node):
        for t in ast.walk(f.node):
            if isinstance(t, ast.Try) and any(any(x is node for x in ast.walk(b)) for b in t.body):
                for h in t.handlers:
                    if h.type is None or '_IntermediateError' in src(h.type) or src(h.type) in ('Exception', 'BaseException'):
                        return True
        return False
    MODULE_ALIASES = ('function', 'numpy', 'operator', 'functools', 'types', 're', 'collections', 'builtins', 'itertools', 'warnings', 'super()')
    why = {}
    may = {f.name for f in funcs if raises_directly(f)}
    arr_ops = {f.name for f in funcs if f.cls is not None and f.cls.name in ('_Array', '_ArrayOmittedIndices') and f.name in may}
    changed = True
    byname = {}
    for f in funcs:
        byname.setdefault(f.name, []).append(f)
    while changed:
        changed = False
        for f in funcs:
            if f.name in may:
                continue
            if f.cls is not None and f.cls.name == '_ExpressionParser' and f.name in hl:
                continue   # converts
            for c in calls_in(f.node, nested=False):
                nm = method_name(c)
                if isinstance(c.func, ast.Attribute):
                    recv = src(c.func.value)
                    if recv.split('.')[0] in MODULE_ALIASES or recv.startswith('super()'):
                        continue
                    # methods of the parser / array algebra only
                    if not any(g.cls is not None and g.cls.name in ('_ExpressionParser', '_Array', '_ArrayOmittedIndices') for g in byname.get(nm, [])):
                        continue
                elif not any(g.cls is None for g in byname.get(nm, [])):
                    continue
                if nm in may and nm not in hl and not _caught(f, c):
                    may.add(f.name)
                    why[f.name] = src(c)[:60]
                    changed = True
                    break
    rep.unit('v1_may_raise_intermediate', len(may))
    # 1. every function outside _ExpressionParser/_Array that may raise it is a violation at an entry point
    entry = [f for f in funcs if f.cls is None or f.cls.name in ('Namespace',)]
    n = 0
    for f in entry:
        n += 1
        ok = f.name not in may
        rep.ob('R19.4', f.key, f.where(), ok, '_IntermediateError cannot escape from here' if ok else
               f'{f.qualname} can let the internal _IntermediateError escape to the user instead of ExpressionSyntaxError (via `{why.get(f.name, "raise")}`)', statement='no-escape')
    # 2. parser methods called from entry points must be highlight-wrapped when they may raise
    for f in entry:
        for c in calls_in(f.node, nested=False):
            nm = method_name(c)
            if isinstance(c.func, ast.Attribute) and src(c.func.value) == 'parser' and nm in byname:
                target = [g for g in byname[nm] if g.cls is not None and g.cls.name == '_ExpressionParser']
                if not target:
                    continue
                ok = nm in hl or nm not in may
                rep.ob('R19.4', f.key, f.where(c), ok, f'parser.{nm} converts internal errors (@highlight)' if ok else
                       f'parser.{nm} is called without @highlight: its _IntermediateError reaches the user unconverted', statement=f'calls parser.{nm}')
    p = model.cls('expression_v1:_ExpressionParser')
    hf = p.members['highlight'].func
    txt = src(hf.node)
    ok = 'except _IntermediateError as e' in txt and 'raise ExpressionSyntaxError(' in txt
    rep.ob('R19.4', hf.key, hf.where(), ok, 'highlight converts _IntermediateError into ExpressionSyntaxError' if ok else 'highlight no longer converts _IntermediateError into ExpressionSyntaxError', statement='highlight-converts')
    if n < 8:
        raise AnalysisError('expression_v1: entry points not found')


ARITY_EXACT = {'group': 1, 'jump': 1, 'mean': 1, 'neg': 1, 'eye': 1, 'normal': 1, 'jacobian': 2, 'getitem': 3, 'trace': 3, 'sum': 2, 'grad': 2, 'surfgrad': 2, 'derivative': 2,
               'append_axis': 2, 'transpose': 2, 'add': 2, 'sub': 2, 'mul': 2, 'truediv': 2, 'pow': 2}
READER_CALLS = {'jump': 'function.jump(array)', 'mean': 'function.mean(array)', 'grad': 'function.grad(array, geom)', 'surfgrad': 'function.grad(array, geom, len(geom) - 1)',
                'derivative': 'function.derivative(func, target)', 'normal': 'function.normal(geom)', 'eye': 'function.eye(length)', 'trace': 'numpy.trace(array, axis1=n1, axis2=n2)',
                'sum': 'numpy.sum(array, axis)', 'transpose': 'numpy.transpose(array, trans)', 'concatenate': 'numpy.concatenate(args, axis=0)', 'getitem': 'function.get(array, dim, index)',
                'append_axis': 'function.insertaxis(array, -1, length)', 'jacobian': 'function.J(geom, ndims)', 'neg': '-function.Array.cast(array)', 'group': 'array',
                'substitute': 'function.replace_arguments(array, subs)'}


def check_v1_opcodes(model, rep):
    m = model.module('expression_v1')
    reader = model.func('expression_v1:_eval_ast')
    # reader branches
    branches = {}
    chain = [s for s in reader.body if isinstance(s, ast.If) and 'op ==' in src(s.test)]
    if len(chain) != 1:
        raise AnalysisError('_eval_ast: opcode dispatch chain not found')
    cur = chain[0]
    while True:
        t = cur.test
        names = []
        if isinstance(t, ast.Compare) and src(t.left) == 'op':
            if isinstance(t.ops[0], ast.Eq):
                names = [const(t.comparators[0])]
            elif isinstance(t.ops[0], ast.In):
                names = [const(e) for e in t.comparators[0].elts]
        un = [s for s in cur.body if isinstance(s, ast.Assign) and src(s.value) == 'args' and isinstance(s.targets[0], ast.Tuple)]
        if un:
            elts = un[0].targets[0].elts
            star = any(isinstance(e, ast.Starred) for e in elts)
            arity = (len(elts) - 1, None) if star else (len(elts), len(elts))
        else:
            arity = (0, None)
        rets = [s for s in cur.body if isinstance(s, ast.Return)]
        for nme in names:
            branches[nme] = (arity, cur, src(rets[-1].value) if rets else None)
        if len(cur.orelse) == 1 and isinstance(cur.orelse[0], ast.If):
            cur = cur.orelse[0]
        else:
            final = cur.orelse
            break
    ok = len(final) == 1 and isinstance(final[0], ast.Raise)
    rep.ob('R19.5', reader.key, reader.where(final[0]) if final else reader.where(), ok, 'unknown opcodes raise' if ok else '_eval_ast silently ignores unknown opcodes', statement='reader-else-raises')
    # written opcodes
    written = {}
    for f in model.functions.values():
        if f.module is not m or isinstance(f.node, ast.Lambda) or f.cls is None or f.cls.name not in ('_Array', '_ArrayOmittedIndices', '_ExpressionParser'):
            continue
        asserts = {}
        for a in ast.walk(f.node):
            if isinstance(a, ast.Assert) and isinstance(a.test, ast.Compare) and isinstance(a.test.ops[0], ast.In) and isinstance(a.test.comparators[0], ast.Tuple):
                asserts[src(a.test.left)] = [const(e) for e in a.test.comparators[0].elts]
        skip = set()
        for c in ast.walk(f.node):
            if isinstance(c, ast.Call) and src(c.func) == '_Token':
                skip.update(id(x) for x in ast.walk(c))
            if isinstance(c, ast.Compare):
                skip.update(id(x) for x in ast.walk(c))
            if isinstance(c, ast.Assert):
                skip.update(id(x) for x in ast.walk(c))
        for t in ast.walk(f.node):
            if id(t) in skip:
                continue
            if isinstance(t, (ast.Tuple, ast.List)) and t.elts and isinstance(t.ctx, ast.Load):
                head = t.elts[0]
                names = None
                if isinstance(const(head), str) and const(head).isidentifier() and const(head).islower():
                    names = [const(head)]
                elif isinstance(head, ast.Name) and head.id in asserts:
                    names = asserts[head.id]
                elif isinstance(head, ast.Name) and head.id == 'op' and f.name == '_add_sub':
                    names = ['add', 'sub']
                if not names:
                    continue
                rest = t.elts[1:]
                if len(t.elts) == 1 and not isinstance(t, ast.List):
                    arity = (0, None)     # ('concatenate',) + tuple(...)
                elif isinstance(t, ast.List) or any(isinstance(e, ast.Starred) for e in rest):
                    arity = (sum(1 for e in rest if not isinstance(e, ast.Starred)), None)
                else:
                    # a tuple followed by `+ tuple(...)` has open arity
                    parent_add = any(isinstance(b, ast.BinOp) and isinstance(b.op, ast.Add) and b.left is t for b in ast.walk(f.node))
                    arity = (len(rest), None if parent_add else len(rest))
                # must look like an ast node: further elements are .ast values, _() wrapped, or nested
                looks = all(('.ast' in src(e) or src(e).startswith('_(') or isinstance(e, ast.Starred) or src(e) in ('ast', 'self_ast')) for e in rest) or len(t.elts) == 1
                if not looks:
                    continue
                for nme in names:
                    written.setdefault(nme, []).append((arity, f, t))
    if len(written) < 18:
        raise AnalysisError(f'only {len(written)} distinct opcodes found at the writers')
    rep.unit('v1_opcodes_written', len(written))
    for nme, sites in sorted(written.items()):
        for arity, f, t in sites:
            br = branches.get(nme)
            if br is None:
                rep.ob('R19.5', f.key, f.where(t), False, f'opcode {nme!r} is emitted by the parser but _eval_ast has no branch for it (ValueError: unknown opcode at evaluation)', statement=f'opcode {nme}')
                continue
            (rlo, rhi), node, ret = br
            wlo, whi = arity
            compatible = (rhi is None or whi is None or whi == rhi) and (whi is None or whi >= rlo) and (rhi is None or wlo <= rhi)
            rep.ob('R19.5', f.key, f.where(t), compatible, f'opcode {nme!r} with {wlo if whi == wlo else str(wlo) + "+"} operands has a reader branch of matching arity' if compatible else
                   f'opcode {nme!r} is written with {wlo}{"" if whi == wlo else "+"} operands but _eval_ast unpacks {rlo}{"" if rhi == rlo else "+"}', statement=f'opcode {nme} arity')
    for nme, want in READER_CALLS.items():
        br = branches.get(nme)
        if br is None:
            rep.ob('R19.5', reader.key, reader.where(), False, f'_eval_ast has no branch for the documented opcode {nme!r}', statement=f'reader {nme}')
            continue
        ret = br[2]
        ok = ret == want
        rep.ob('R19.5', reader.key, reader.where(br[1]), ok, f'{nme!r} evaluates to {want}' if ok else f'the branch for opcode {nme!r} evaluates `{ret}` instead of `{want}`', statement=f'reader {nme}')
    arith = branches.get('add')
    ok = arith is not None and arith[2] == "getattr(operator, '__{}__'.format(op))(function.Array.cast(left), function.Array.cast(right))" and all(k in branches for k in ('add', 'sub', 'mul', 'truediv', 'pow'))
    rep.ob('R19.5', reader.key, reader.where(), ok, 'arithmetic opcodes evaluate through the operator of the same name' if ok else 'arithmetic opcodes no longer evaluate through operator.__<op>__(left, right)', statement='reader arithmetic')


def check_v1_scopes(model, rep):
    """R19.6 (v1) scope delimiter discipline.  parse_subexpression stops at ANY of the tokens | EOF _ ) ] } > , - which one it
    stopped at is for the caller to verify.  Every function that obtains a parsed scope (directly, through a wrapper that returns it,
    or through the parse_item callback of parse_comma_separated) must, on every path from that call to its own return, assert the
    delimiter with _consume_assert_equal(<token>); a function that instead returns the scope is a wrapper and passes the obligation
    to its callers.  The module-level entry `parse` cannot be a wrapper: its delimiter is the end of the string."""
    mod = model.module('expression_v1')
    funcs = [f for f in model.functions.values() if f.module is mod and not isinstance(f.node, ast.Lambda)]
    SCOPE = {'parse_subexpression'}
    # the stop-token loop must still be there (otherwise the premise of the rule is gone)
    ps = model.func('expression_v1:_ExpressionParser.parse_subexpression')
    stops = [n for n in ast.walk(ps.node) if isinstance(n, ast.While) and '_next_non_whitespace.type not in' in src(n.test)]
    if len(stops) != 1 or "'EOF'" not in src(stops[0].test):
        raise AnalysisError('parse_subexpression: the stop-token loop was not recognised')

    def events_of(f, scope_names):
        def on_stmt(s_, st):
            evs = []
            for c in sorted((c for c in ast.walk(s_) if isinstance(c, ast.Call)), key=lambda c: (c.lineno, c.col_offset)):
                m = method_name(c)
                if m in scope_names or (m == 'parse_item' and f.name == 'parse_comma_separated'):
                    evs.append(Event('SCOPE', s_, m))
                elif m == '_consume_assert_equal' and c.args:
                    evs.append(Event('DELIM', s_, src(c.args[0])))
            # within one statement the call order is the evaluation order for the idioms in use
            return evs
        return PathEnumerator(f.node, on_stmt=on_stmt, unroll=2).paths()

    # functions that hand the parsed scope on to their caller (confirmed by reading; one line of reason each)
    WRAPPERS = {
        'parse_subexpression_cast': 'tries the omitted-indices reading first and returns the scope unchanged; every caller asserts the delimiter',
        'parse_substitution': 'the right-hand side of `arg = value`; only used as parse_item of parse_comma_separated, which asserts `,` or `)`',
    }
    wrappers = {}
    for name in WRAPPERS:
        fs = [f for f in funcs if f.name == name and f.cls is not None and f.cls.name == '_ExpressionParser']
        if len(fs) != 1:
            raise AnalysisError(f'R19.6: wrapper {name} not found')
        wrappers[name] = fs[0]
    names = SCOPE | set(wrappers)
    verdicts = {}
    for f in funcs:
        if not any(isinstance(c, ast.Call) and (method_name(c) in names or (method_name(c) == 'parse_item' and f.name == 'parse_comma_separated')) for c in ast.walk(f.node)):
            continue
        if f.name == 'parse_subexpression' and f.cls is not None:
            continue    # the scope parser itself (its recursion goes through parse_term ... parse_var, which are checked)
        open_paths = []
        npaths = 0
        for p in events_of(f, names):
            if p.end not in ('return', 'fall'):
                continue
            npaths += 1
            pending = None
            for e in p.events:
                if e.kind == 'SCOPE':
                    if pending is not None:
                        break
                    pending = e
                elif e.kind == 'DELIM':
                    pending = None
                elif e.kind in ('fail', 'except'):
                    pending = None    # the attempt raised and was abandoned (parse() rewinds the token index and starts over)
            if pending is not None:
                open_paths.append(pending)
        verdicts[f.key] = (f, npaths, open_paths)
    nsites = 0
    for key, (f, npaths, open_paths) in sorted(verdicts.items()):
        nsites += 1
        if f.name in wrappers:
            rep.ob('R19.6', f.key, f.where(), True, f'{f.name} returns the parsed scope to its caller ({WRAPPERS[f.name]}): the delimiter obligation is checked at its call sites', statement='scope-wrapper')
            continue
        ok = not open_paths
        rep.ob('R19.6', f.key, f.where(open_paths[0].node) if open_paths else f.where(), ok,
               f'on all {npaths} returning paths the delimiter of every parsed scope is asserted (_consume_assert_equal) after the scope was parsed' if ok else
               f'`{stmt_text(open_paths[0].node)[:70]}` parses a scope and the function returns without asserting at which delimiter the scope ended: parse_subexpression stops at any of | EOF _ ) ] }} > , '
               'so whatever follows the first such token is silently ignored', statement='scope-delimiter-asserted')
    # partial(self.<scope parser>) may only be handed to parse_comma_separated as parse_item
    for f in funcs:
        for c in ast.walk(f.node):
            if isinstance(c, ast.Call) and src(c.func) == 'functools.partial' and c.args and method_name(ast.Call(func=c.args[0], args=[], keywords=[])) in (SCOPE | set(wrappers)):
                parent_ok = any(isinstance(pc, ast.Call) and method_name(pc) == 'parse_comma_separated' and any(k.arg == 'parse_item' and k.value is c for k in pc.keywords) for pc in ast.walk(f.node))
                rep.ob('R19.6', f.key, f.where(c), parent_ok, 'a scope parser is passed as callback only to parse_comma_separated (which asserts `,` or the end token after each item)' if parent_ok else
                       f'`{src(c)[:60]}` hands a scope parser to something other than parse_comma_separated: nobody asserts the delimiter', statement='scope-callback')
    if nsites < 5 or 'expression_v1:parse' not in verdicts:
        raise AnalysisError(f'R19.6: only {nsites} functions obtaining scopes found, or the entry `parse` is not among them')


def check_v1_alignment(model, rep):
    """R19.7 (v1) alignment discipline.  _Array values are positional; their `indices` string says which axis is which.  Wherever two
    (or a group of) arrays are tested for equal index SETS, they are about to be combined position by position, so one must be
    transposed to the other's index ORDER before anything else happens (sibling agreement of _add_sub, align, stack, parse_substitution)."""
    mod = model.module('expression_v1')
    n = 0
    for f in model.functions.values():
        if f.module is not mod or isinstance(f.node, ast.Lambda):
            continue
        for s_ in ast.walk(f.node):
            if not (isinstance(s_, ast.If) and any(isinstance(b, ast.Raise) for b in s_.body)):
                continue
            t = s_.test
            pair = None
            group = None
            if isinstance(t, ast.Compare) and len(t.ops) == 1 and isinstance(t.ops[0], ast.NotEq):
                sides = [t.left, t.comparators[0]]
                names = []
                for e in sides:
                    if isinstance(e, ast.Call) and src(e.func) in ('set', 'frozenset') and len(e.args) == 1 and isinstance(e.args[0], ast.Attribute) and e.args[0].attr == 'indices' and isinstance(e.args[0].value, ast.Name):
                        names.append(e.args[0].value.id)
                if len(names) == 2:
                    pair = names
                elif src(t.comparators[0]) == '1' and isinstance(t.left, ast.Call) and src(t.left.func) == 'len' and '.indices' in src(t.left) and 'set(' in src(t.left):
                    gens = [g for g in ast.walk(t.left) if isinstance(g, ast.comprehension)]
                    if gens:
                        group = src(gens[0].iter)
            if pair is None and group is None:
                continue
            n += 1
            later = [a for a in ast.walk(f.node) if isinstance(a, ast.Assign) and a.lineno > s_.lineno]
            ok = False
            if pair is not None:
                x, y = pair
                for a in later:
                    v = a.value
                    if isinstance(v, ast.Call) and method_name(v) == 'transpose' and isinstance(v.func, ast.Attribute) and isinstance(v.func.value, ast.Name) and len(v.args) == 1:
                        moved, ref = v.func.value.id, src(v.args[0])
                        if {moved, ref.replace('.indices', '')} == {x, y} and ref.endswith('.indices') and src(a.targets[0]) == moved:
                            ok = True
                what = f'`{x}` and `{y}`'
            else:
                for a in later:
                    v = a.value
                    if isinstance(v, ast.ListComp) and isinstance(v.elt, ast.Call) and method_name(v.elt) == 'transpose' and src(v.generators[0].iter) == group and src(a.targets[0]) == group:
                        ok = True
                what = f'the arrays in `{group}`'
            rep.ob('R19.7', f.key, f.where(s_), ok, f'after the index-set test {what} are transposed to one index order before they are combined' if ok else
                   f'{what} pass the test `{src(t)[:70]}` (equal index sets) but are then combined without transposing one to the other\'s index order: `?x_ij(x_ji = A_ij)`-style operands are matched axis by axis '
                   'in the order written, not by index', statement=f'aligned-after-set-test@{f.name}')
    if n < 4:
        raise AnalysisError(f'R19.7: only {n} index-set tests found in expression_v1 (_add_sub, align, stack, parse_substitution expected)')


def check_v1_summed_and_names(model, rep):
    """R19.8 (v1): (a) `_Array.summed` records the indices a value has already summed over; "an index occurs more than twice" is decided
    from it when values are multiplied.  Every operation that combines two _Array values must pass on the union of both `summed` sets -
    an operation that keeps only its left operand's set forgets what the right operand summed ((a + b_i b_i) b_i is then accepted).
    (b) names that reach _eval_ast are looked up in tables supplied at evaluation time; a name that is not there must leave as
    ExpressionSyntaxError, not as the KeyError of the lookup.  (c) a string literal with {placeholders} that is neither an f-string nor
    .format()ted is passed on literally (Namespace.copy_ built the keyword 'length_{i}')."""
    mod = model.module('expression_v1')
    A = mod.classes.get('_Array')
    if A is None:
        raise AnalysisError('expression_v1._Array not found')
    n = 0
    for mem in A.members.values():
        f = mem.func
        if f is None or isinstance(f.node, ast.Lambda):
            continue
        pos = params(f.node)[0]
        if len(pos) < 2 or pos[0] != 'self' or pos[1] != 'other':
            continue
        for c in ast.walk(f.node):
            if isinstance(c, ast.Call) and src(c.func) == '_Array' and (len(c.args) >= 4 or any(k.arg == 'summed' for k in c.keywords)):
                summed = c.args[3] if len(c.args) >= 4 else next(k.value for k in c.keywords if k.arg == 'summed')
                n += 1
                names = {x.value.id for x in ast.walk(summed) if isinstance(x, ast.Attribute) and x.attr == 'summed' and isinstance(x.value, ast.Name)}
                local = {x.id for x in ast.walk(summed) if isinstance(x, ast.Name)} - {'self', 'other', 'frozenset', 'set'}
                ok = {'self', 'other'} <= names or bool(local)    # a local that was assembled from both is accepted (checked below)
                if local and not {'self', 'other'} <= names:
                    defs = [a for a in ast.walk(f.node) if isinstance(a, (ast.Assign, ast.AugAssign)) and any(isinstance(t, ast.Name) and t.id in local for t in ast.walk(a.targets[0] if isinstance(a, ast.Assign) else a.target))]
                    seen = {x.value.id for a in defs for x in ast.walk(a) if isinstance(x, ast.Attribute) and x.attr == 'summed' and isinstance(x.value, ast.Name)}
                    ok = {'self', 'other'} <= seen
                rep.ob('R19.8', f.key, f.where(c), ok, f'_Array.{f.name} passes on the summed indices of both operands' if ok else
                       f'`{src(c)[:70]}` passes on `{src(summed)}` only: what the other operand has already summed over is forgotten, so an index that occurs a third time in a later product is no longer rejected '
                       '((a + b_i b_i) b_i)', statement=f'summed-union@{f.name}')
    if n < 2:
        raise AnalysisError(f'only {n} binary _Array constructions found')
    ea = mod.functions.get('_eval_ast')
    if ea is None:
        raise AnalysisError('expression_v1._eval_ast not found')
    lookups = [x for x in ast.walk(ea.node) if isinstance(x, ast.Subscript) and isinstance(x.value, ast.Name) and x.value.id == 'functions' and isinstance(x.ctx, ast.Load)]
    for lk in lookups:
        key = src(lk.slice)
        guards = [g for g in ast.walk(ea.node) if isinstance(g, ast.If) and g.lineno < lk.lineno and f'{key} not in functions' in src(g.test) and any(isinstance(b, ast.Raise) and 'ExpressionSyntaxError' in src(b) for b in g.body)]
        tries = [t for t in ast.walk(ea.node) if isinstance(t, ast.Try) and any(x is lk for b in t.body for x in ast.walk(b)) and any('KeyError' in src(h.type or ast.Constant(value='')) for h in t.handlers)]
        ok = bool(guards) or bool(tries)
        rep.ob('R19.8', ea.key, ea.where(lk), ok, f'`functions[{key}]` is preceded by a membership test that raises ExpressionSyntaxError' if ok else
               f'`functions[{key}]` is looked up without a membership test: an unknown function name in an expression leaves as KeyError instead of the module\'s ExpressionSyntaxError', statement='unknown-function')
    if not lookups:
        raise AnalysisError('_eval_ast: no lookup in the function table found')
    # (c) unformatted placeholders
    import re
    for m_ in (model.module('expression_v1'), model.module('expression_v2')):
        nlit = 0
        for f in model.functions.values():
            if f.module is not m_ or isinstance(f.node, ast.Lambda):
                continue
            formatted = {id(c.func.value) for c in ast.walk(f.node) if isinstance(c, ast.Call) and isinstance(c.func, ast.Attribute) and c.func.attr in ('format', 'format_map')}
            infstr = {id(v) for j in ast.walk(f.node) if isinstance(j, ast.JoinedStr) for v in ast.walk(j)}
            doc = ast.get_docstring(f.node, clean=False)
            localnames = {x.id for x in ast.walk(f.node) if isinstance(x, ast.Name)} | {a.arg for a in ast.walk(f.node) if isinstance(a, ast.arg)}
            for c in ast.walk(f.node):
                if isinstance(c, ast.Constant) and isinstance(c.value, str) and c.value != doc and id(c) not in formatted and id(c) not in infstr:
                    nlit += 1
                    ph = [p_ for p_ in re.findall(r'\{([A-Za-z_][A-Za-z_0-9]*)\}', c.value) if p_ in localnames]
                    if ph:
                        rep.ob('R19.8', f.key, f.where(c), False, f'the string literal {c.value!r} contains the placeholder {{{ph[0]}}} of a local name but is neither an f-string nor .format()ted: it is used literally',
                               statement=f'unformatted-placeholder {c.value[:30]}')
        rep.ob('R19.8', f'{m_.short}:literals', m_.relpath + ':1', True, f'{nlit} string literals inspected for unformatted placeholders of local names', statement='placeholders-inspected')


def run(model, rep, tier):
    rep.explanation = (
        'R19.1 error discipline of expression_v2._Parser: every explicit raise raises ExpressionSyntaxError (or a local bound to one), every int()/float() of user text sits under a '
        'ValueError->ExpressionSyntaxError handler or a digit-range test, all names resolve. R19.2 must-check-before-action: on every structurally enumerated path to the semantic actions '
        'divide/power/add/trace/get_element/scope recursion the documented rejections were tested (dimensionless denominator/exponent, merged+verified summed indices, index-set equality and per-axis '
        'lengths between terms, not-more-than-twice and equal lengths for a trace, numeral within range, balanced brackets, nothing after a scope). R19.3 tables: bracket table, array operations '
        '(mean, jump, trace, true_divide, power, take, transpose, outer product, align) and the namespace\'s default functions are what the documentation names. R19.4 v1: call-graph fixpoint of '
        '"may raise _IntermediateError"; no entry point (parse, Namespace methods, helper functions) may let it escape, grammar methods are @highlight-wrapped. R19.5 v1: every opcode tuple the parser/'
        '_Array algebra constructs has a branch in _eval_ast of compatible arity and each branch calls the function the opcode names. Decides rejection discipline and table agreement; that an accepted '
        'string evaluates to its index-notation reading and v1 length linking are NOT decided.')
    rep.rule('R19.1', 'v2 parser raises only ExpressionSyntaxError; number conversions guarded; names resolve')
    rep.rule('R19.2', 'v2 semantic actions are dominated by the documented rejections')
    rep.rule('R19.3', 'v2 tables: brackets, array operations, default functions')
    rep.rule('R19.4', 'v1: _IntermediateError never escapes; grammar methods @highlight')
    rep.rule('R19.5', 'v1: opcode writer/reader agreement')
    rep.rule('R19.8', 'v1: binary _Array operations pass on the summed indices of both operands; unknown function names leave as ExpressionSyntaxError; no unformatted {placeholders}')
    rep.rule('R19.7', 'v1: arrays that passed an index-set equality test are transposed to a common index order before they are combined')
    rep.rule('R19.6', 'v1: the delimiter of every parsed scope is asserted by whoever obtained the scope (whole-input consumption at the entry)')
    check_v2_errors(model, rep)
    check_v2_guards(model, rep)
    check_v2_tables(model, rep)
    check_v1_escape(model, rep)
    check_v1_opcodes(model, rep)
    check_v1_scopes(model, rep)
    check_v1_alignment(model, rep)
    check_v1_summed_and_names(model, rep)
    rep.rule('R19.9', 'every name loaded in expression_v1.py and expression_v2.py resolves (symtable)')
    from rules import names as _names
    _names.check(model, rep, 'R19.9', ('expression_v1', 'expression_v2'), 100)
    from rules import round4 as _r4
    rep.rule('R19.10', 'v1: index-adding methods refuse indices that are free OR summed; every axis created in a loop gets its own unknown length')
    _r4.check_v1_duplicate_guards(model, rep, 'R19.10')
    _r4.check_v1_length_identity(model, rep, 'R19.10')
    rep.require('R19.1', 35)
    rep.require('R19.2', 20)
    rep.require('R19.3', 30)
    rep.require('R19.4', 12)
    rep.require('R19.5', 40)
