'''Shared rule: every name a function loads is bound in some enclosing scope (symtable).

A load of a name that no scope binds is a NameError on the path that reaches it: the caller gets NameError instead of the result, or instead
of the documented exception when the load sits in an error path (e.g. `except KeyError(e):`).  Loads inside the operand of a `raise` are reported
as information only by the property checks that care about the kind of error (R13.1, R19.1); here every other load counts.
'''

import ast

from sa import AnalysisError, scopes


def check(model, rep, rule, modules, minimum):
    n = 0
    for short in modules:
        m = model.modules.get(short)
        if m is None:
            continue
        unres = [u for u in scopes.unresolved(m) if not u.in_error_operand]
        byscope = {}
        for u in unres:
            byscope.setdefault(u.scope, []).append(u)
        for f in [f for f in model.functions.values() if f.module is m and not isinstance(f.node, ast.Lambda)]:
            n += 1
            bad = byscope.get(f.qualname, [])
            if bad:
                for u in bad:
                    rep.ob(rule, f.key, f'{m.relpath}:{u.lineno}', False, f'name `{u.name}` is bound in no enclosing scope: {f.qualname} raises NameError when control gets here', statement=f'unresolved {u.name}')
            else:
                rep.ob(rule, f.key, f.where(), True, 'every name loaded resolves (symtable)', statement='names-resolve')
    if n < minimum:
        raise AnalysisError(f'{rule} covered only {n} functions of {modules}')
    return n
