'''C06 Static array metadata is sound - consumers of integer ranges and argument bookkeeping.

Decided: R06.1 at every place where an inferred integer range licenses dropping a node or a check, the
path condition of that return IMPLIES (order closure over lo/hi terms) the inequality the node's meaning
requires; R06.4 the elementary transfer functions equal interval arithmetic; R06.2 what a node compiles is
reachable from what it announces as dependencies; R06.3 isconstant/arguments overrides only in the
conservative direction.  Not decided: soundness of the remaining (non-elementary) transfer functions,
shape/dtype of every node class, function.Array metadata.
'''

import ast

from sa import AnalysisError
from sa.astutil import dotted, src, stmt_text, params, find_stmts, calls_in, method_name, walk_no_nested, const, strip_docstring
from sa.facts import Order
from sa.guards import paths_to, decompose, as_compare, path_returns, enclosing_conditions


def range_aliases(fn):
    '''name -> 'X.lo' / 'X.hi' for `a, b = self.X._intbounds` (also self.X.shape[-1]) and direct subscripts.'''
    al = {}
    for s in ast.walk(fn):
        if isinstance(s, ast.Assign) and isinstance(s.targets[0], ast.Tuple) and len(s.targets[0].elts) == 2 and isinstance(s.value, ast.Attribute) and s.value.attr == '_intbounds':
            base = _base_name(s.value.value)
            lo, hi = s.targets[0].elts
            if isinstance(lo, ast.Name) and isinstance(hi, ast.Name):
                al[lo.id] = f'{base}.lo'
                al[hi.id] = f'{base}.hi'
    return al


def _base_name(e):
    t = src(e)
    if t.startswith('self.'):
        t = t[5:]
    if t == 'self':
        t = 'self'
    return t.replace('[', '_').replace(']', '').replace('-', 'm').replace('.', '_')


class _Sub(ast.NodeTransformer):
    def __init__(self, al):
        self.al = al

    def visit_Name(self, n):
        if n.id in self.al and isinstance(n.ctx, ast.Load):
            return ast.Name(id=self.al[n.id].replace('.', '__'), ctx=ast.Load())
        return n

    def visit_Subscript(self, n):
        self.generic_visit(n)
        if isinstance(n.value, ast.Attribute) and n.value.attr == '_intbounds' and const(n.slice) in (0, 1):
            return ast.Name(id=f'{_base_name(n.value.value)}__{"lo" if const(n.slice) == 0 else "hi"}', ctx=ast.Load())
        return n


def norm_term(e, al):
    e2 = _Sub(al).visit(ast.parse(src(e), mode='eval').body)
    return src(e2).replace('__', '.')


def _property_facts(cls_node, name):
    """For a private property of the class that answers a range question (`self._is_identity`): the (comparison, truth, aliases) facts that hold whenever it is
    True - the tests on the one path that can return something else than False, and the conjuncts of what that path returns."""
    if cls_node is None:
        return []
    props = [d for d in cls_node.body if isinstance(d, ast.FunctionDef) and d.name == name and any(src(x) in ('property', 'cached_property', 'functools.cached_property') for x in d.decorator_list)]
    if len(props) != 1:
        return []
    cand = [(f_, r_) for f_, r_ in path_returns(props[0]) if not (isinstance(r_, ast.Constant) and r_.value is False)]
    if len(cand) != 1:
        return []
    al2 = range_aliases(props[0])
    out = []
    for text, val in cand[0][0].items():
        try:
            out.append((ast.parse(text, mode='eval').body, val, al2))
        except SyntaxError:
            pass
    out.append((cand[0][1], True, al2))
    return out


def order_at(fn, al, target, cls_node=None):
    '''Order closure of the facts common to all paths reaching `target`, plus lo<=hi for every range term.'''
    ps = paths_to(fn, lambda s: s is target)
    if not ps:
        raise AnalysisError(f'target `{stmt_text(target)}` not reached')
    orders = []
    for p, idx, _ in ps:
        o = Order()
        bases = set()
        isint = set()
        for e in p.events[:idx]:
            if e.kind != 'cond':
                continue
            items = [(n_, v_, al) for n_, v_ in decompose(e.node, e.data[0])]
            for n_, v_, _ in list(items):
                if v_ and isinstance(n_, ast.Attribute) and src(n_.value) == 'self' and n_.attr.startswith('_'):
                    for pn, pv, pal in _property_facts(cls_node, n_.attr):
                        items += [(x_, y_, pal) for x_, y_ in decompose(pn, pv)]
            for node, val, al_ in items:
                if isinstance(node, ast.Compare) and len(node.ops) > 1 and val:
                    ops_ = [node.left] + list(node.comparators)
                    parts = [ast.Compare(left=a, ops=[op], comparators=[b]) for a, op, b in zip(ops_, node.ops, ops_[1:])]
                else:
                    parts = [node]
                for part in parts:
                    c = as_compare(part, val)
                    if c and c[1] in ('<', '<=', '>', '>=', '=='):
                        a = norm_term(part.left if isinstance(part, ast.Compare) else part.args[0], al_)
                        b = norm_term(part.comparators[0] if isinstance(part, ast.Compare) else part.args[1], al_)
                        o.add(a, c[1], b)
                        for t in (a, b):
                            if t.endswith(('.lo', '.hi')):
                                bases.add(t[:-3])
                    if isinstance(part, ast.Call) and src(part.func) == 'isinstance' and val and src(part.args[1]) == 'int':
                        isint.add(norm_term(part.args[0], al))
        for b in bases:
            o.add(f'{b}.lo', '<=', f'{b}.hi')
        orders.append((o, isint))
    return orders


def require(rep, f, target, al, needs, what, rule='R06.1', finite=()):
    cls_node = next((c_ for c_ in ast.walk(f.module.tree) if isinstance(c_, ast.ClassDef) and any(d_ is f.node for d_ in c_.body)), None)
    orders = order_at(f.node, al, target, cls_node)
    missing = []
    for o, isint in orders:
        for a, op, b in needs:
            if not o.implies(a, op, b):
                missing.append(f'{a} {op} {b}')
        for t in finite:
            if t not in isint:
                missing.append(f'{t} finite (isinstance int)')
    missing = sorted(set(missing))
    rep.ob(rule, f.key, f.where(target), not missing,
           f'`{stmt_text(target)[:50]}` is licensed: the path condition implies {", ".join(f"{a} {op} {b}" for a, op, b in needs)} on all {len(orders)} path(s)' if not missing else
           f'`{stmt_text(target)[:50]}` ({what}) is taken although the path condition does not imply {"; ".join(missing)}: the node is dropped for values outside the range in which it is the identity',
           statement=f'{what}')


def _ret(f, text):
    rs = [s for s in find_stmts(f.body, lambda s: isinstance(s, ast.Return)) if s.value is not None and src(s.value) == text]
    if len(rs) != 1:
        raise AnalysisError(f'{f.key}: expected exactly one `return {text}`, found {len(rs)}')
    return rs[0]


def check_consumers(model, rep):
    def fn(key):
        return model.func(key)
    f = fn('evaluable:InRange._simplified')
    al = range_aliases(f.node)
    require(rep, f, _ret(f, 'self.index'), al, [('0', '<=', 'index.lo'), ('index.hi', '<', 'length.lo')], 'InRange -> index')
    f = fn('evaluable:Mod._simplified')
    al = range_aliases(f.node)
    require(rep, f, _ret(f, 'self.dividend'), al, [('0', '<', 'divisor.lo'), ('0', '<=', 'dividend.lo'), ('dividend.hi', '<', 'divisor.lo')], 'Mod -> dividend')
    f = fn('evaluable:Minimum._simplified')
    al = range_aliases(f.node)
    require(rep, f, _ret(f, 'self.x'), al, [('x.hi', '<=', 'y.lo')], 'Minimum -> x')
    require(rep, f, _ret(f, 'self.y'), al, [('y.hi', '<=', 'x.lo')], 'Minimum -> y')
    f = fn('evaluable:Maximum._simplified')
    al = range_aliases(f.node)
    require(rep, f, _ret(f, 'self.x'), al, [('y.hi', '<=', 'x.lo')], 'Maximum -> x')
    require(rep, f, _ret(f, 'self.y'), al, [('x.hi', '<=', 'y.lo')], 'Maximum -> y')
    f = fn('evaluable:NormDim._simplified')
    al = range_aliases(f.node)
    require(rep, f, _ret(f, 'self.index'), al, [('0', '<=', 'index.lo'), ('index.hi', '<', 'length.lo')], 'NormDim -> index')
    shifted = [s for s in find_stmts(f.body, lambda s: isinstance(s, ast.Return)) if s.value is not None and norm_term(s.value, al) in ('self.index + length.lo', 'self.index + length.hi', 'length.lo + self.index')]
    if len(shifted) != 1:
        raise AnalysisError('NormDim._simplified: the `index + length` rewrite was not found')
    require(rep, f, shifted[0], al, [('length.lo', '==', 'length.hi'), ('-length.lo', '<=', 'index.lo'), ('index.hi', '<', '0')], 'NormDim -> index + length', finite=('length.lo',))
    # integer-only guards of Minimum/Maximum
    for key in ('evaluable:Minimum._simplified', 'evaluable:Maximum._simplified'):
        f = fn(key)
        ps = paths_to(f.node, lambda s: isinstance(s, ast.Return) and s.value is not None and src(s.value) in ('self.x', 'self.y'))
        ok = all(facts.get('self.dtype == int') is True for _, _, facts in ps) and bool(ps)
        rep.ob('R06.1', f.key, f.where(), ok, 'ranges are consulted for integer data only' if ok else 'the range shortcut is taken for non-integer data, whose _intbounds is meaningless', statement='int-only')
    # InsertAxis._inverse -> singular
    f = fn('evaluable:InsertAxis._inverse')
    rs = [s for s in find_stmts(f.body, lambda s: isinstance(s, ast.Return)) if s.value is not None and 'singular_like' in src(s.value)]
    if len(rs) != 1:
        raise AnalysisError('InsertAxis._inverse: singular_like return not found')
    require(rep, f, rs[0], {}, [('length.lo', '>', '1')], 'InsertAxis._inverse -> singular')
    # _isindex / Power.__post_init__ / _SizesToOffsets
    f = fn('evaluable:_isindex')
    r = find_stmts(f.body, lambda s: isinstance(s, ast.Return))[0]
    atoms = [norm_term(n, {}) for n, v in decompose(r.value, True)]
    ok = 'arg.lo >= 0' in atoms and 'arg.dtype == int' in atoms and 'arg.ndim == 0' in atoms
    rep.ob('R06.1', f.key, f.where(r), ok, 'an index is a scalar integer array with lower bound >= 0' if ok else '_isindex no longer requires ndim 0, dtype int and _intbounds[0] >= 0', statement='_isindex')
    f = fn('evaluable:Power.__post_init__')
    asserts = [a for a in find_stmts(f.body, lambda s: isinstance(s, ast.Assert)) if 'self.power' in src(a.test) and '_intbounds' in src(a.test)]
    ok = len(asserts) == 1 and 'power.lo >= 0' in norm_term(asserts[0].test, {})
    rep.ob('R06.1', f.key, f.where(asserts[0]) if asserts else f.where(), ok, 'integer exponents are required to be non-negative' if ok else 'the non-negativity requirement on integer exponents changed', statement='power-nonnegative')
    # Array._const_uniform: value only when lo == hi
    f = fn('evaluable:Array._const_uniform')
    al = range_aliases(f.node)
    r = [s for s in find_stmts(f.body, lambda s: isinstance(s, ast.Return))]
    ok = len(r) == 1 and norm_term(r[0].value, al).replace(' ', '') in ('self.loifself.lo==self.hielseNone', 'self.hiifself.lo==self.hielseNone', 'self.loifself.hi==self.loelseNone')
    ps = paths_to(f.node, lambda s: s is r[0]) if r else []
    ok = ok and all(facts.get('self.dtype == int') is True for _, _, facts in ps)
    rep.ob('R06.1', f.key, f.where(), ok, '_const_uniform reports a value only when lower == upper, for integer data' if ok else
           '_const_uniform reports a uniform value although lower and upper bound may differ: Multiply/Power drop or negate factors on it', statement='const-uniform')
    # _intbounds wrapper asserts lower <= upper
    f = fn('evaluable:Array._intbounds')
    ok = any(isinstance(a, ast.Assert) and src(a.test) == 'lower <= upper' for a in f.body)
    rep.ob('R06.1', f.key, f.where(), ok, 'every inferred range is asserted to be non-empty and int/inf typed', statement='range-wellformed')
    # new readers are reported, not judged
    known = {'evaluable:Array._const_uniform', 'evaluable:Array._node', 'evaluable:Cast._const_uniform', 'evaluable:InRange._simplified', 'evaluable:InsertAxis._const_uniform', 'evaluable:InsertAxis._inverse',
             'evaluable:Maximum._simplified', 'evaluable:Minimum._simplified', 'evaluable:Mod._simplified', 'evaluable:Multiply._add', 'evaluable:Multiply._optimized_for_numpy', 'evaluable:Multiply._simplified',
             'evaluable:NormDim.__post_init__', 'evaluable:NormDim._simplified', 'evaluable:Polyval._simplified', 'evaluable:Power.__post_init__', 'evaluable:Power._optimized_for_numpy', 'evaluable:Power._simplified',
             'evaluable:Transpose._const_uniform', 'evaluable:Tuple._intbounds_tuple', 'evaluable:_SizesToOffsets.__post_init__', 'evaluable:_isindex', 'evaluable:Array._intbounds'}
    for k, g in sorted(model.functions.items()):
        if isinstance(g.node, ast.Lambda) or g.name == '_intbounds_impl':
            continue
        if any(isinstance(n, ast.Attribute) and n.attr in ('_intbounds', '_const_uniform') for n in ast.walk(g.node)) and k not in known and not g.module.short.startswith('testing'):
            rep.info(f'R06.1 new reader of inferred ranges, not in the consumer table (not judged): {k} at {g.where()}')


# elementary transfer functions: class -> accepted normalised return texts
ELEMENTARY = {
    '_LoopIndex': ['(0, max(0, length.hi - 1))'],
    # index-producing nodes (NumPy semantics): insertion points of searchsorted lie in [0, n]; positions of argsort/nonzero/arange in [0, n-1]
    'SearchSorted': ['(0, array_shape_0.hi)'],
    'ArgSort': ['(0, max(0, array_shape_m1.hi - 1))'],
    'Find': ['(0, max(0, where_shape_0.hi - 1))'],
    'Range': ['(0, max(0, length.hi - 1))'],
}
PASS_THROUGH_OK = {'InsertAxis': 'repeats values', 'Transpose': 'permutes values', 'TakeDiag': 'selects values', 'Take': 'selects values', '_TakeSlice': 'selects values', '_Get': 'selects values',
                   'Unravel': 'reshapes', 'Ravel': 'reshapes', 'LoopConcatenate': 'concatenates values of func over iterations', 'Cast': 'int->int casts only', 'Guard': 'identity', 'Diagonalize': None}


def sum_over_terms(fn):
    """Abstract evaluation of an `_intbounds_impl` that adds up the ranges of `self._terms`: returns the pair of what is
    returned, each ('sum', k) = sum over all terms of component k of the term's range, or None when the body is not of that kind.
    Spellings understood: `lowers, uppers = zip(*[f._intbounds for f in self._terms])` + sum(...); sum(f._intbounds[k] for f in
    self._terms); and the accumulation loop `lo = hi = 0; for t in self._terms: a, b = t._intbounds; lo += a; hi += b`."""
    env = {}

    def terms_iter(it):
        return src(it) == 'self._terms'

    def comp_of(e, termvar, tenv):
        """k when e denotes component k of the current term's range."""
        if isinstance(e, ast.Name) and e.id in tenv:
            return tenv[e.id]
        if isinstance(e, ast.Subscript) and isinstance(e.value, ast.Attribute) and e.value.attr == '_intbounds' \
                and isinstance(e.value.value, ast.Name) and e.value.value.id == termvar and const(e.slice) in (0, 1):
            return const(e.slice)
        return None

    def ev(e):
        if isinstance(e, ast.Name):
            return env.get(e.id)
        if const(e) == 0:
            return ('const', 0)
        if isinstance(e, ast.Call) and src(e.func) in ('sum', 'builtins.sum') and len(e.args) == 1 and not e.keywords:
            a = e.args[0]
            if isinstance(a, ast.Name) and isinstance(env.get(a.id), tuple) and env[a.id][0] == 'seq':
                return ('sum', env[a.id][1])
            if isinstance(a, (ast.GeneratorExp, ast.ListComp)) and len(a.generators) == 1 and not a.generators[0].ifs \
                    and isinstance(a.generators[0].target, ast.Name) and terms_iter(a.generators[0].iter):
                k = comp_of(a.elt, a.generators[0].target.id, {})
                if k is not None:
                    return ('sum', k)
        return None

    for s in strip_docstring(fn.body):
        if isinstance(s, ast.Assign) and len(s.targets) == 1 and isinstance(s.targets[0], ast.Tuple) and len(s.targets[0].elts) == 2 \
                and all(isinstance(t, ast.Name) for t in s.targets[0].elts) and isinstance(s.value, ast.Call) and src(s.value.func) == 'zip' \
                and len(s.value.args) == 1 and isinstance(s.value.args[0], ast.Starred):
            c = s.value.args[0].value
            if isinstance(c, (ast.ListComp, ast.GeneratorExp)) and len(c.generators) == 1 and not c.generators[0].ifs and terms_iter(c.generators[0].iter) \
                    and isinstance(c.generators[0].target, ast.Name) and isinstance(c.elt, ast.Attribute) and c.elt.attr == '_intbounds' \
                    and isinstance(c.elt.value, ast.Name) and c.elt.value.id == c.generators[0].target.id:
                env[s.targets[0].elts[0].id] = ('seq', 0)
                env[s.targets[0].elts[1].id] = ('seq', 1)
                continue
            return None
        if isinstance(s, ast.Assign) and all(isinstance(t, ast.Name) for t in s.targets):
            v = ev(s.value)
            if v is None:
                return None
            for t in s.targets:
                env[t.id] = v
            continue
        if isinstance(s, ast.For) and isinstance(s.target, ast.Name) and terms_iter(s.iter) and not s.orelse:
            tenv, added = {}, {}
            for b in s.body:
                if isinstance(b, ast.Assign) and len(b.targets) == 1 and isinstance(b.targets[0], ast.Tuple) and len(b.targets[0].elts) == 2 \
                        and all(isinstance(t, ast.Name) for t in b.targets[0].elts) and isinstance(b.value, ast.Attribute) and b.value.attr == '_intbounds' \
                        and isinstance(b.value.value, ast.Name) and b.value.value.id == s.target.id:
                    tenv[b.targets[0].elts[0].id], tenv[b.targets[0].elts[1].id] = 0, 1
                elif isinstance(b, ast.AugAssign) and isinstance(b.op, ast.Add) and isinstance(b.target, ast.Name) and env.get(b.target.id) == ('const', 0) \
                        and b.target.id not in added and comp_of(b.value, s.target.id, tenv) is not None:
                    added[b.target.id] = comp_of(b.value, s.target.id, tenv)
                else:
                    return None
            for name, k in added.items():
                env[name] = ('sum', k)
            continue
        if isinstance(s, ast.Return) and isinstance(s.value, ast.Tuple) and len(s.value.elts) == 2:
            return tuple(ev(e) for e in s.value.elts)
        return None
    return None


def check_transfer(model, rep):
    A = model.cls('evaluable:Array')
    n = 0
    for c in model.subclasses(A, strict=True):
        mem = c.members.get('_intbounds_impl')
        if mem is None or mem.func is None:
            continue
        f = mem.func
        al = range_aliases(f.node)
        rets = find_stmts(f.body, lambda s: isinstance(s, ast.Return))
        if c.name in ELEMENTARY:
            n += 1
            got = [norm_term(r.value, al) for r in rets]
            ok = len(got) == 1 and got[0] in ELEMENTARY[c.name]
            rep.ob('R06.4', f.key, f.where(), ok, f'{c.name} range = {got[0]} (interval arithmetic)' if ok else
                   f'{c.name}._intbounds_impl returns {got}, interval arithmetic gives {ELEMENTARY[c.name][0]}: the announced range no longer contains all values', statement='elementary-transfer')
        elif len(rets) == 1 and isinstance(rets[0].value, ast.Attribute) and rets[0].value.attr == '_intbounds' and src(rets[0].value.value).startswith('self.'):
            n += 1
            ok = c.name in PASS_THROUGH_OK and PASS_THROUGH_OK[c.name] is not None
            rep.ob('R06.4', f.key, f.where(), ok, f'{c.name} passes the range of its operand through ({PASS_THROUGH_OK.get(c.name)})' if ok else
                   f'{c.name} passes the range of its operand through, but it is not a pure selection/rearrangement of that operand\'s values', statement='pass-through-transfer')
    if n < 8:
        raise AnalysisError(f'only {n} elementary transfer functions recognised')
    # Sum: the four products
    f = model.func('evaluable:Sum._intbounds_impl')
    al = range_aliases(f.node)
    # decided per path (sa.guards.path_returns): whichever way the three cases are laid out (returns in an if/elif/else, or named lower/upper with one return)
    want = {'(0, 0)': {'func_shape_m1.hi == 0': True},
            '(min(0, func.lo * func_shape_m1.hi), max(0, func.hi * func_shape_m1.hi))': {'func_shape_m1.hi == 0': False, 'func_shape_m1.lo == 0': True},
            '(min(func.lo * func_shape_m1.lo, func.lo * func_shape_m1.hi), max(func.hi * func_shape_m1.lo, func.hi * func_shape_m1.hi))': {'func_shape_m1.hi == 0': False, 'func_shape_m1.lo == 0': False}}
    got = {}
    for facts, val in path_returns(f.node):
        nf = {norm_term(ast.parse(k, mode='eval').body, al): v for k, v in facts.items()}
        got.setdefault(norm_term(val, al), []).append(nf)
    rets = sorted(got)
    ok = set(got) == set(want) and all(all(nf.get(k) == v for k, v in want[r].items()) for r in got for nf in got[r])
    rep.ob('R06.4', f.key, f.where(), ok, 'Sum range = value range times length range (all sign cases, empty axis -> 0)' if ok else f'Sum._intbounds_impl returns {rets}', statement='sum-transfer')


def check_inflate_transfer(model, rep):
    """R06.4 (Inflate): entries of the operand that are mapped to the same dof are SUMMED, so the announced range of an integer Inflate is the
    range of the operand (and 0) only for a dof map known to be free of repetitions (a Range, or a constant with unique entries); otherwise it is scaled by the
    number of entries of the dof map.  Decided on the structure of _intbounds_impl: a count that is the product of the upper bounds of self.dofmap.shape,
    returns that scale both bounds with it, and the unscaled count 1 only under a repetition-freeness test."""
    f = model.func('evaluable:Inflate._intbounds_impl')
    al = range_aliases(f.node)
    loops = [l for l in ast.walk(f.node) if isinstance(l, ast.For) and src(l.iter) in ('self.dofmap.shape', 'dofmap.shape')]
    cname = None
    for l in loops:
        for b in l.body:
            if isinstance(b, ast.AugAssign) and isinstance(b.op, ast.Mult) and isinstance(b.target, ast.Name) and '_intbounds[1]' in src(b.value) and src(l.target) in src(b.value):
                cname = b.target.id
    rets = [r for r in find_stmts(f.body, lambda s_: isinstance(s_, ast.Return) and s_.value is not None)]
    scaled = cname is not None and all(src(r.value).replace(' ', '') == '(0,0)' or (isinstance(r.value, ast.Tuple) and len(r.value.elts) == 2 and all(
        any(isinstance(x, ast.BinOp) and isinstance(x.op, ast.Mult) and cname in {n_.id for n_ in ast.walk(x) if isinstance(n_, ast.Name)} for x in ast.walk(e)) for e in r.value.elts)) for r in rets)
    ones = [s_ for s_ in ast.walk(f.node) if isinstance(s_, ast.Assign) and cname is not None and src(s_.targets[0]) == cname and const(s_.value) == 1]
    # the unscaled count is licensed by a test that establishes repetition-freeness: a Range, or a constant whose unique entries are as many as its entries
    from sa.boolnf import equivalent
    free = True
    for s_ in ones:
        guards = [i_ for i_ in ast.walk(f.node) if isinstance(i_, ast.If) and any(x is s_ for b in i_.body for x in ast.walk(b))]
        lic = False
        for g in guards:
            for D in ('dofmap', 'self.dofmap'):
                if equivalent(g.test, f'isinstance({D}, Range) or isinstance({D}, Constant) and len(numpy.unique({D}.value)) == {D}.value.size') or equivalent(g.test, f'isinstance({D}, Range)'):
                    lic = True
        in_else_with_loop = any(isinstance(p_, ast.If) and any(x is s_ for b in p_.orelse for x in ast.walk(b)) and any(y is l for l in loops for b in p_.orelse for y in ast.walk(b)) for p_ in ast.walk(f.node))
        free = free and (lic or in_else_with_loop)
    ok = bool(rets) and scaled and free
    rep.ob('R06.4', f.key, f.where(), ok, 'Inflate scales the range of its operand by the number of dof map entries unless the dof map is known to be free of repetitions' if ok else
           f'Inflate._intbounds_impl returns {[norm_term(r.value, al) for r in rets]}: entries that share a dof are summed, so the announced range must be scaled by the number of entries of the dof map '
           'unless it is known to be free of repetitions - otherwise Mod/InRange/NormDim shortcuts drop operations for values outside the announced range', statement='inflate-transfer')


def check_einsum_transfer(model, rep):
    """R06.4 (Einsum): a contraction sums as many terms as the summed axes are long; for axes of variable length the count lies between the product of the
    LOWER and the product of the UPPER bounds of those lengths.  The transfer function must read both bounds of the summed lengths - using the upper bound for
    both ends announces e.g. [12, 12] for a value that is 4, 8 or 12."""
    import itertools
    from sa.miniexec import MiniExec, Sym, Returned, AssertionFailed
    from sa.algebra import Unsupported
    f = model.func('evaluable:Einsum._intbounds_impl')

    def product(seq, start=1):
        r = start
        for x in seq:
            r = r * x
        return r
    bad = None
    n = 0
    # interpreted (sa.miniexec) for contractions sum_k a_k b_k over an axis whose length has the bounds (nlo, nhi) and operands with the given ranges;
    # the announced range must contain every value n*p with nlo <= n <= nhi and p a product of values of the operands
    try:
        for (nlo, nhi), ra, rb in itertools.product(((1, 3), (0, 2), (2, 2), (0, 0)), ((2, 2), (-2, -1), (-1, 2), (0, 3)), ((1, 1), (-3, 2))):
            length = Sym(_intbounds=(nlo, nhi))
            args = (Sym(shape=(length,), _intbounds=ra), Sym(shape=(length,), _intbounds=rb))
            ex = MiniExec({'self': Sym(args=args, args_idx=((0,), (0,)), out_idx=()), 'util': Sym(product=product), 'min': min, 'max': max})
            try:
                ex.run(f.node.body)
                got = None
            except Returned as r:
                got = tuple(r.value)
            vals = [k * a * b for k in range(nlo, nhi + 1) for a in range(ra[0], ra[1] + 1) for b in range(rb[0], rb[1] + 1)]
            # a sum of k products: between k*min(p) and k*max(p)
            ps = [a * b for a in range(ra[0], ra[1] + 1) for b in range(rb[0], rb[1] + 1)]
            true_lo = min(k * min(ps) for k in range(nlo, nhi + 1))
            true_hi = max(k * max(ps) for k in range(nlo, nhi + 1))
            n += 1
            if got is None or not (got[0] <= true_lo and true_hi <= got[1]):
                bad = bad or ((nlo, nhi), ra, rb, got, (true_lo, true_hi))
    except (Unsupported, AssertionFailed) as e:
        raise AnalysisError(f'Einsum._intbounds_impl uses a construct the evaluator does not know: {e}')
    ok = bad is None and n >= 30
    rep.ob('R06.4', f.key, f.where(), ok, 'the number of summed terms enters the range of an Einsum with its lower and its upper bound' if ok else
           (f'Einsum._intbounds_impl announces {bad[3]} for a contraction over an axis of length {bad[0][0]}..{bad[0][1]} of operands in {list(bad[1])} and {list(bad[2])}; the values lie in {list(bad[4])}: '
            'the announced range excludes values the node can take' if bad else 'Einsum._intbounds_impl could not be interpreted'), statement='einsum-transfer')


def _sign(v):
    return (v > 0) - (v < 0)


# what the node computes for integer operands (value semantics, from the class docstrings / NumPy), and which operand combinations are valid inputs
TRANSFER_SPECS = {
    'Negative': (('arg',), lambda a: -a, None),
    'Absolute': (('arg',), abs, None),
    'Sign': (('func',), _sign, None),
    'Minimum': (('x', 'y'), min, None),
    'Maximum': (('x', 'y'), max, None),
    # a list names fields that all hold the operand tuple (Add.funcs and its flattening Add._terms; Multiply.funcs / _factors)
    'Add': (['_terms', 'funcs'], lambda a, b: a + b, None),
    'Multiply': (['funcs', '_factors'], lambda a, b: a * b, None),
    'Mod': (('dividend', 'divisor'), lambda a, b: a % b, lambda a, b: b > 0),
    'FloorDivide': (('dividend', 'divisor'), lambda a, b: a // b, lambda a, b: b != 0),
    'NormDim': (('length', 'index'), lambda n, i: i if i >= 0 else i + n, lambda n, i: n >= 1 and -n <= i < n),
}
SMALL_RANGES = ((0, 0), (1, 1), (-1, -1), (0, 2), (-2, 3), (2, 4), (-3, -1), (1, 3))


from sa.miniexec import Sym as _Sym


class _SelfWithProperties(_Sym):
    """The abstract node handed to an interpreted `_intbounds_impl`: the operand fields, and private properties of the class interpreted on demand."""

    def __init__(self, model, cls_key, ex, attrs):
        self.__dict__.update(attrs)
        self.__dict__['_SelfWithProperties__ctx'] = (model, cls_key, ex)

    def __getattr__(self, name):
        from sa.miniexec import Closure
        model, cls_key, ex = self.__dict__['_SelfWithProperties__ctx']
        c = model.classes.get(cls_key)
        mem = c.members.get(name) if c is not None else None
        if name.startswith('_') and not name.startswith('__') and mem is not None and mem.func is not None and not isinstance(mem.func.node, ast.Lambda) \
                and any(src(d) in ('property', 'cached_property', 'functools.cached_property') for d in mem.func.node.decorator_list):
            return Closure(mem.func.node, ex)(self)
        raise AttributeError(name)


def check_transfer_sound(model, rep, rule='R06.4'):
    """R06.4 (soundness by interpretation): for the nodes whose integer semantics is a plain function of their operands, `_intbounds_impl` is interpreted
    (sa.miniexec) for every combination of small operand ranges, and the announced range must contain every value the node takes on valid operand values
    in those ranges.  This decides soundness of the transfer function itself, however it is written."""
    import itertools
    from sa.miniexec import MiniExec, Sym, Returned, AssertionFailed
    from sa.algebra import Unsupported
    inf = float('inf')
    numpy_ = Sym(sign=_sign)
    for cname, (fields, sem, valid) in TRANSFER_SPECS.items():
        f = model.functions.get(f'evaluable:{cname}._intbounds_impl')
        if f is None:
            raise AnalysisError(f'{cname}._intbounds_impl not found')
        arity = len(fields) if isinstance(fields, tuple) else 2
        bad, n = None, 0
        try:
            for ranges in itertools.product(SMALL_RANGES, repeat=arity):
                vals = [sem(*v) for v in itertools.product(*[range(lo, hi + 1) for lo, hi in ranges]) if valid is None or valid(*v)]
                if not vals:
                    continue
                operands = [Sym(_intbounds=r, dtype=int) for r in ranges]
                attrs = dict(zip(fields, operands)) if isinstance(fields, tuple) else {fld_: tuple(operands) for fld_ in fields}
                base = Sym(_intbounds_impl=lambda: (-inf, inf))
                ex = MiniExec({'numpy': numpy_, 'min': min, 'max': max, 'super': (lambda base=base: base), 'int': int, 'bool': bool})
                ex.env['self'] = _SelfWithProperties(model, f'evaluable:{cname}', ex, attrs)
                try:
                    ex.run(f.node.body)
                    got = None
                except Returned as r:
                    got = tuple(r.value)
                n += 1
                if got is None or len(got) != 2 or not (got[0] <= min(vals) and max(vals) <= got[1]):
                    bad = bad or (ranges, got, (min(vals), max(vals)))
        except (Unsupported, AssertionFailed, TypeError, ValueError, ZeroDivisionError) as e:
            raise AnalysisError(f'{cname}._intbounds_impl uses a construct the evaluator does not know: {type(e).__name__}: {e}')
        rep.ob(rule, f.key, f.where(), bad is None and n > 0, f'{cname}: the announced range contains every value for all {n} combinations of small operand ranges (interpreted)' if bad is None and n > 0 else
               (f'{cname}._intbounds_impl announces {bad[1]} for operands in {[list(r) for r in bad[0]]}; the node takes values in {list(bad[2])}: a value outside the announced range lets range-based rewrites drop or alter operations'
                if bad else f'{cname}._intbounds_impl could not be interpreted'), statement='transfer-sound')


def check_constancy(model, rep):
    E = model.cls('evaluable:Evaluable')
    ic = E.members.get('isconstant')
    if ic is None or ic.func is None:
        raise AnalysisError('Evaluable.isconstant not found')
    r = find_stmts(ic.func.body, lambda s: isinstance(s, ast.Return))
    ok = len(r) == 1 and src(r[0].value) == 'not self.arguments'
    rep.ob('R06.3', ic.func.key, ic.func.where(), ok, 'isconstant == not self.arguments' if ok else 'Evaluable.isconstant is no longer `not self.arguments`', statement='isconstant-def')
    ar = E.members.get('arguments')
    txt = src(ar.func.node) if ar and ar.func else ''
    ok = 'for arg in self.dependencies' in txt.replace('dep', 'arg') or 'self.dependencies' in txt
    rep.ob('R06.3', ar.func.key, ar.func.where(), ok, 'arguments is the union over the dependencies', statement='arguments-def')
    allowed_isconstant = {'Guard': 'False', 'DerivativeTargetBase': 'False'}
    allowed_arguments = {
        'Loop': ['super().arguments - frozenset({self.index})'],
        '_LoopIndex': ['frozenset({self})', 'frozenset([self])'],
        'Argument': ['frozenset({self})', 'frozenset([self])'],
        'DerivativeTargetBase': ['frozenset({self})', 'frozenset([self])'],
        'WithDerivative': ['self.func.arguments | {self.var}', 'self.func.arguments | frozenset({self.var})'],
    }
    for c in model.subclasses(E, strict=True):
        m = c.members.get('isconstant')
        if m is not None:
            val = None
            if m.func is not None:
                rr = find_stmts(m.func.body, lambda s: isinstance(s, ast.Return))
                val = src(rr[0].value) if len(rr) == 1 else None
            elif m.kind == 'value':
                val = src(m.value)
            ok = val == 'False'
            rep.ob('R06.3', f'{c.key}.isconstant', f'{c.module.relpath}:{m.node.lineno}', ok, f'{c.name}.isconstant is overridden conservatively (False)' if ok else
                   f'{c.name}.isconstant is overridden with `{val}`: only `False` (never cache) is sound without knowing the arguments', statement='isconstant-override')
        m = c.members.get('arguments')
        if m is not None and m.func is not None:
            rr = find_stmts(m.func.body, lambda s: isinstance(s, ast.Return))
            val = src(rr[-1].value) if rr else None
            acc = allowed_arguments.get(c.name)
            if acc is None:
                rep.ob('R06.3', m.func.key, m.func.where(), False, f'{c.name} overrides `arguments` with `{val}`, which is not one of the confirmed overrides (Loop removes exactly its own index; targets announce themselves; WithDerivative adds its target)',
                       statement='arguments-override')
            else:
                ok = val in acc
                if c.name == 'Loop' and rr:
                    v = rr[-1].value
                    ok = isinstance(v, ast.BinOp) and isinstance(v.op, ast.Sub) and src(v.left) == 'super().arguments' and \
                        src(v.right).replace(' ', '') in ('frozenset({self.index})', 'frozenset([self.index])', '{self.index}', 'frozenset((self.index,))')
                rep.ob('R06.3', m.func.key, m.func.where(), ok, f'{c.name}.arguments = {val}' if ok else
                       f'{c.name}.arguments returns `{val}`; expected {acc[0]}: an argument the node depends on would not be announced (or a foreign one removed)', statement='arguments-override')


def check_bounds_inputs(model, rep):
    """R06.7: the integer range a node announces (_intbounds_impl) may only be computed from what the node's value is computed from.
    For a node with its own `evalf` the value is a function of `dependencies`; a range derived from a field that is not among them
    (`self.na` where the value uses `self.nb`) describes another quantity."""
    ev = model.module('evaluable')
    n = 0
    for c in ev.classes.values():
        mem = c.members.get('_intbounds_impl')
        dep = c.members.get('dependencies')
        if mem is None or mem.func is None or dep is None or dep.func is None or 'evalf' not in c.members:
            continue
        rets = [r for r in ast.walk(dep.func.node) if isinstance(r, ast.Return) and r.value is not None]
        if len(rets) != 1:
            continue   # conditional dependency tuples: not decided
        deps = {src(x) for x in ast.walk(rets[0].value) if isinstance(x, ast.Attribute) and isinstance(x.value, ast.Name) and x.value.id == 'self'}
        if not deps:
            continue
        n += 1
        fields = {st.target.id for st in c.node.body if isinstance(st, ast.AnnAssign) and isinstance(st.target, ast.Name)}
        read = {src(x) for x in ast.walk(mem.func.node) if isinstance(x, ast.Attribute) and isinstance(x.value, ast.Name) and x.value.id == 'self' and x.attr in fields}
        extra = sorted(read - deps)
        ok = not extra
        rep.ob('R06.7', mem.func.key, mem.func.where(), ok, f'{c.name}: the announced range is computed from the dependencies of the value ({", ".join(sorted(read)) or "none"})' if ok else
               f'{c.name}._intbounds_impl reads {", ".join(extra)}, which is not among the dependencies ({", ".join(sorted(deps))}) the value is computed from: the announced range describes another quantity, and bounds '
               'checks or integer rewrites that rely on it are dropped wrongly', statement='bounds-from-dependencies')
    if n < 8:
        raise AnalysisError(f'only {n} classes with evalf, dependencies and _intbounds_impl found')


def check_wrapper_shapes(model, rep):
    """R06.8: a function-level `_Wrapper(evaluable.X, operands..., shape=S)` ANNOUNCES the shape S; what evaluation DELIVERS is the shape
    property of the node X built from the lowered operands (operands are lowered with the point axes *P in front unless wrapped in
    _WithoutPoints).  Both expressions are interpreted over labelled shapes for generic operands: delivered must be (*P,) + announced.
    This is local to the call site and also checks that the node is right relative to the leading point axes."""
    from sa.shapes import ShapeExec, Arr, Scal, Obj, ShapeError, lab
    from sa.algebra import Unsupported
    ev = model.module('evaluable')
    fm = model.module('function')
    n = nskip = 0
    for f in model.functions.values():
        if f.module is not fm or isinstance(f.node, ast.Lambda):
            continue
        for c in calls_in(f.node, nested=False):
            if src(c.func) != '_Wrapper' or not c.args:
                continue
            t = src(c.args[0])
            kw = {k.arg: k.value for k in c.keywords}
            if not (t.startswith('evaluable.') and t[10:11].isupper()) or 'shape' not in kw:
                continue
            cls = ev.classes.get(t[10:])
            shp = cls.members.get('shape') if cls is not None else None
            if cls is None or shp is None or shp.func is None:
                continue
            fields = [st.target.id for st in cls.node.body if isinstance(st, ast.AnnAssign) and isinstance(st.target, ast.Name)]
            if isinstance(kw['shape'], ast.Name):   # the announced shape was given a name first: use its (nearest preceding) definition
                defs = [a for a in ast.walk(f.node) if isinstance(a, ast.Assign) and len(a.targets) == 1 and src(a.targets[0]) == kw['shape'].id and a.lineno < c.lineno]
                if not defs:
                    nskip += 1
                    rep.info(f'R06.8 {f.key}:{c.lineno}: the announced shape `{kw["shape"].id}` has no definition in this function; not decided')
                    continue
                kw['shape'] = max(defs, key=lambda a: a.lineno).value
            announced_names = {x.id for x in ast.walk(kw['shape']) if isinstance(x, ast.Name)}
            env, attrs, withpts, skip = {}, {}, False, None
            for fld, a in zip(fields, c.args[1:]):
                wp = isinstance(a, ast.Call) and src(a.func) == '_WithoutPoints'
                inner = a.args[0] if wp else a
                if isinstance(inner, ast.Call) and src(inner.func) in ('Array.cast', '_Constant') and len(inner.args) == 1 and isinstance(inner.args[0], (ast.Name, ast.Constant)):
                    v = inner.args[0]
                    val = v.id if isinstance(v, ast.Name) else str(v.value)
                    attrs[fld] = Scal(val)
                    if isinstance(v, ast.Name):
                        env[v.id] = val
                elif isinstance(inner, ast.Name):
                    nd = 3 if not wp else (2 if inner.id in announced_names else 1)
                    arr = Arr([f'{inner.id}{k}' for k in range(nd)])
                    env[inner.id] = arr
                    attrs[fld] = Arr((['*P'] if not wp else []) + arr.shape)
                    withpts |= not wp
                else:
                    skip = src(a)[:40]
                    break
            if skip is not None or len(c.args) - 1 > len(fields):
                nskip += 1
                rep.info(f'R06.8 {f.key}:{c.lineno}: operand `{skip}` of evaluable.{cls.name} is built in place; announced versus delivered shape is not decided for this site')
                continue
            for nme in announced_names - set(env):
                env[nme] = nme     # a length known by name (n, s, length)
            try:
                announced = [lab(x) for x in ShapeExec(env).ev(kw['shape'])]
                delivered = [lab(x) for x in ShapeExec({'self': Obj(**attrs)}).call(shp.func.node)]
            except (Unsupported, ShapeError) as e:
                nskip += 1
                rep.info(f'R06.8 {f.key}:{c.lineno}: shape expressions of evaluable.{cls.name} use a construct the interpreter does not know ({e}); not decided')
                continue
            # element kind: announced dtype=D against the node's dtype for every operand kind the node accepts
            if 'dtype' in kw:
                dmem = cls.members.get('dtype')
                pre = cls.members.get('__post_init__')
                for kind in ('bool', 'int', 'float', 'complex'):
                    kattrs = {k_: (Arr(v.shape, dtype=kind) if isinstance(v, Arr) and not isinstance(v, Scal) else v) for k_, v in attrs.items()}
                    kenv = {k_: (Arr(v.shape, dtype=kind) if isinstance(v, Arr) else v) for k_, v in env.items()}
                    for p_ in params(f.node)[0]:
                        kenv.setdefault(p_, Arr(['x0', 'x1', 'x2'], dtype=kind))   # the caller's operands have the kind under consideration
                    try:
                        if pre is not None and pre.func is not None:
                            accepted = True
                            for a_ in ast.walk(pre.func.node):
                                if isinstance(a_, ast.Assert):
                                    for cmp_ in ast.walk(a_.test):
                                        if isinstance(cmp_, ast.Compare) and 'dtype' in src(cmp_) and src(cmp_).startswith('self.') and 'isinstance' not in src(cmp_):
                                            try:
                                                if ShapeExec({'self': Obj(**kattrs)}).ev(cmp_) is False:
                                                    accepted = False
                                            except (Unsupported, ShapeError, KeyError, TypeError):
                                                pass
                            if not accepted:
                                continue
                        # kinds that cannot reach the site: an earlier `if <test on a dtype>:` that is true for this kind and returns, raises or converts
                        reach = True
                        for g in ast.walk(f.node):
                            if isinstance(g, ast.If) and g.lineno < c.lineno and 'dtype' in src(g.test) and not any(x is c for x in ast.walk(g)):
                                try:
                                    hit = ShapeExec(kenv).ev(g.test)
                                except (Unsupported, ShapeError, KeyError, TypeError):
                                    reach = False   # cannot tell: do not judge this kind
                                    break
                                if hit and any(isinstance(b, (ast.Return, ast.Raise)) or (isinstance(b, ast.Assign) and isinstance(b.value, ast.Call) and method_name(b.value) == 'astype') for b in g.body):
                                    reach = False
                                    break
                        if not reach:
                            continue
                        ann = ShapeExec(kenv).ev(kw['dtype'])
                        if dmem is not None and dmem.func is not None:
                            dlv = ShapeExec({'self': Obj(**kattrs)}).call(dmem.func.node)
                        elif dmem is not None and isinstance(dmem.node, ast.Assign):
                            dlv = ShapeExec({}).ev(dmem.node.value)
                        else:
                            break
                    except (Unsupported, ShapeError, KeyError, TypeError):
                        continue
                    except Exception as e_:
                        if type(e_).__name__ in ('Raised',):
                            continue
                        raise
                    okd = ann == dlv
                    rep.ob('R06.8', f.key, f.where(c), okd, f'evaluable.{cls.name}: the announced element kind `{src(kw["dtype"])[:40]}` is the node\'s for {kind} operands' if okd else
                           f'`{src(c)[:60]}` announces element kind {ann} for {kind} operands, evaluable.{cls.name}.dtype is {dlv}: the function array reports another kind than its evaluation delivers',
                           statement=f'announced-kind {cls.name}@{f.name}/{kind}')
            n += 1
            want = (['*P'] if withpts else []) + announced
            ok = delivered == want
            rep.ob('R06.8', f.key, f.where(c), ok, f'evaluable.{cls.name}: the announced shape `{src(kw["shape"])[:50]}` is what the node delivers behind the point axes' if ok else
                   f'`{src(c)[:70]}` announces the shape ({", ".join(announced)}) but evaluable.{cls.name}.shape delivers ({", ".join(delivered)}) for operands lowered with the point axes *P in front: '
                   'the function array reports another shape than its evaluation has', statement=f'announced-shape {cls.name}@{f.name}')
    if n < 12:
        raise AnalysisError(f'R06.8: only {n} wrapper sites decided ({nskip} skipped)')


class _OnlyRule:
    """Report proxy: keep the obligations of the listed rules of a shared check (renamed), drop the others."""

    def __init__(self, rep, mapping):
        self._rep, self._map = rep, mapping

    def ob(self, rule, *a, **k):
        if rule in self._map:
            return self._rep.ob(self._map[rule], *a, **k)

    def info(self, *a, **k):
        pass

    def __getattr__(self, name):
        return getattr(self._rep, name)


def run(model, rep, tier):
    from rules.c02 import check_compiled_subset_dependencies, check_fields_announced
    rep.explanation = (
        'R06.1 guard implication: for InRange->index, Mod->dividend, Minimum/Maximum->operand, NormDim->index and ->index+length, InsertAxis._inverse->singular, _isindex, Power exponents and '
        'Array._const_uniform, the facts on every structurally enumerated path to the licensing return are translated to atoms over symbolic lo/hi terms (aliases from `lo, hi = x._intbounds` substituted) and an '
        'order closure (with the implicit lo<=hi, strictness tracked) must prove the inequality that makes the dropped node the identity. R06.4 elementary transfer functions (Negative, Add, Minimum, Maximum, '
        'Inflate, _LoopIndex, Sign, Sum, pass-through selections) equal interval arithmetic. R06.2 every field a node hands to builder.compile is reachable from its announced dependencies. R06.3 '
        'isconstant/arguments are overridden only conservatively. These decide the consumers and the simplest producers of range information; soundness of the other ~25 transfer functions, of shape/dtype '
        'for every node and of function.Array metadata is NOT decided (that needs evaluating the functions, another technique family).')
    rep.rule('R06.1', 'path condition implies the inequality required to drop a node (order closure)')
    rep.rule('R06.2', 'compiled fields are reachable from the announced dependencies')
    rep.rule('R06.3', 'isconstant/arguments overrides are conservative')
    rep.rule('R06.4', 'elementary transfer functions equal interval arithmetic')
    rep.rule('R06.6', 'rewrite rules fire on certain, not merely possible, equality of run-time lengths (= R01.7): the simplified expression keeps the announced shape')
    rep.rule('R06.9', 'linear-algebra wrappers announce an inexact element kind (= R07.4)')
    rep.rule('R06.8', 'function-level wrappers announce the shape their evaluable node delivers behind the point axes (labelled-shape interpretation of both expressions)')
    rep.rule('R06.7', 'announced integer ranges are computed from the dependencies of the value only')
    rep.rule('R06.5', 'function.Array wrappers announce exactly the arguments their lowering depends on (= R13.5)')
    check_consumers(model, rep)
    check_transfer(model, rep)
    check_inflate_transfer(model, rep)
    check_einsum_transfer(model, rep)
    check_transfer_sound(model, rep)
    check_constancy(model, rep)
    from rules.c13 import check_announced
    from rules.c03 import _Rename
    check_announced(model, _Rename(rep, {'R13.5': 'R06.5'}))   # function.Array metadata: announced argument tables
    from rules.c01 import check_certain_equality
    check_certain_equality(model, _Rename(rep, {'R01.7': 'R06.6'}))
    check_bounds_inputs(model, rep)
    check_wrapper_shapes(model, rep)
    from rules.c07 import check_composites
    check_composites(model, _OnlyRule(rep, {'R07.4': 'R06.9'}))   # element kind announced by the linear-algebra wrappers that go through functools.partial (not reachable for R06.8)
    check_compiled_subset_dependencies(model, rep, rule='R06.2')
    check_fields_announced(model, rep, rule='R06.2')
    from rules import round4 as _r4
    rep.rule('R06.11', 'multi-operand function arrays announce the arguments of all operands; InRange guards index.max() < length')
    _r4.check_arguments_of_all_operands(model, rep, 'R06.11')
    _r4.check_inrange_guard(model, rep, 'R06.11')
    rep.require('R06.1', 14)
    rep.rule('R06.10', 'every name loaded in evaluable.py resolves (symtable)')
    from rules import names as _names
    _names.check(model, rep, 'R06.10', ('evaluable',), 850)
    rep.require('R06.4', 12)
    rep.require('R06.3', 6)
