'''C15 Matrix objects are faithful to the data they were assembled from.

Decided: the single gateway to the backends (assemble_csr) is dominated by guards for every
obligation a CSR triple must satisfy to denote exactly one matrix; all constructors reach a
backend only through it; the sibling backends agree on the assemble signature, the export
contract (forms and tuple order) and its consumers; constructor arities; the base-class operator
identities; MKL's one-based index discipline.  Not decided: numerical agreement of products.
'''

import ast

from sa import AnalysisError
from sa.boolnf import equivalent
from sa.pattern import pmatch
from sa.astutil import dotted, src, stmt_text, params, arity, find_stmts, calls_in, method_name, walk_no_nested, const, deep_resolved, if_branches
from sa.guards import facts_at, holds_compare, strip_all, as_compare, decompose


def _is_backend_call(s):
    for c in calls_in(s):
        if isinstance(c.func, ast.Attribute) and c.func.attr == 'assemble' and 'backend' in src(c.func.value):
            return True
    return False


def _slice_kind(node, base):
    '''('hi', base) for base[1:], ('lo', base) for base[:-1]'''
    if isinstance(node, ast.Subscript) and src(node.value) == base and isinstance(node.slice, ast.Slice) and node.slice.step is None:
        lo, hi = node.slice.lower, node.slice.upper
        if lo is not None and const(lo) == 1 and hi is None:
            return 'hi'
        if lo is None and hi is not None and const(hi) == -1:
            return 'lo'
    return None


def adjacent_order(node, base):
    '''For a comparison of base[1:] with base[:-1] (any spelling) return '<' (strictly increasing),
    '<=' (non-decreasing), '>' / '>=' (decreasing), else None.'''
    c = as_compare(node, True)
    if c is None:
        # numpy.diff(base) > 0
        return None
    if isinstance(node, ast.Compare):
        a, b = node.left, node.comparators[0]
    else:
        a, b = node.args[0], node.args[1]
    ka, kb = _slice_kind(a, base), _slice_kind(b, base)
    op = c[1]
    if ka == 'hi' and kb == 'lo':      # next OP prev
        return {'>': '<', '>=': '<=', '<': '>', '<=': '>='}.get(op)
    if ka == 'lo' and kb == 'hi':      # prev OP next
        return {'<': '<', '<=': '<=', '>': '>', '>=': '>='}.get(op)
    # numpy.diff(base) OP 0
    if isinstance(a, ast.Call) and src(a.func).endswith('diff') and a.args and src(a.args[0]) == base and const(b) == 0:
        return {'>': '<', '>=': '<=', '<': '>', '<=': '>='}.get(op)
    return None


def check_validation(model, rep):
    f = model.func('matrix:assemble_csr')
    pos, _, _, _ = params(f.node)
    if pos[:4] != ['values', 'rowptr', 'colidx', 'ncols']:
        raise AnalysisError(f'assemble_csr signature changed to {pos}: re-anchor R15.2')
    facts = facts_at(f.node, _is_backend_call)
    rep.unit('assemble_csr_paths_reaching_backend', facts.npaths)
    rep.unit('assemble_csr_dominating_facts', len(facts.facts))
    where = f.where(next(s for s in ast.walk(f.node) if isinstance(s, ast.stmt) and _is_backend_call(s) and not isinstance(s, (ast.FunctionDef,))))

    def ob(oid, ok, text, bad, node=None):
        exc = None
        if ok and node is not None:
            exc = facts.raising.get(src(node))
            if exc is not None and exc != 'MatrixError':
                ok, bad = False, f'the guard for "{text}" raises {exc}, not MatrixError'
        rep.ob('R15.2', f.key, f.where(node) if node is not None else where, ok,
               (f'{oid} {text}: guard `{src(node)}` dominates the backend call' if ok else f'{oid} {bad}'), statement=oid)

    def cmp_(lhs, op, rhs, elementwise=False):
        return holds_compare(facts, lhs, op, rhs, elementwise)

    n = cmp_('values.ndim', '==', '1')
    ob('O1', n is not None, 'values is one-dimensional', 'no guard `values.ndim == 1` dominates the backend call', n)
    n = cmp_('rowptr.ndim', '==', '1')
    ob('O2', n is not None, 'rowptr is one-dimensional', 'no guard `rowptr.ndim == 1` dominates the backend call', n)
    n = _kind_fact(facts, 'rowptr')
    ob('O3', n is not None, 'rowptr is integer', 'no guard on rowptr.dtype.kind dominates the backend call', n)
    n = cmp_('rowptr[0]', '==', '0')
    ob('O4', n is not None, 'rowptr starts at 0', 'no guard `rowptr[0] == 0`', n)
    n, kind = _adjacent_fact(facts, 'rowptr')
    ob('O5', n is not None and kind in ('<', '<='), 'rowptr is non-decreasing',
       'no guard that rowptr is non-decreasing' if n is None else f'`{src(n)}` does not state that rowptr is non-decreasing', n)
    n = cmp_('rowptr[-1]', '==', 'len(values)')
    ob('O6', n is not None, 'rowptr ends at len(values)', 'no guard `rowptr[-1] == len(values)`', n)
    n = cmp_('colidx.ndim', '==', '1')
    ob('O7', n is not None, 'colidx is one-dimensional', 'no guard `colidx.ndim == 1`', n)
    n = _kind_fact(facts, 'colidx')
    ob('O8', n is not None, 'colidx is integer', 'no guard on colidx.dtype.kind', n)
    n = cmp_('len(colidx)', '==', 'rowptr[-1]') or cmp_('len(colidx)', '==', 'len(values)')
    ob('O9', n is not None, 'colidx has one entry per value', 'no guard `len(colidx) == rowptr[-1]`', n)
    n = cmp_('colidx', '<', 'ncols', elementwise=True)
    ob('O10', n is not None, 'every column index is below ncols', 'no guard `all(colidx < ncols)`' +
       (' (found a non-strict `<=` comparison instead)' if cmp_('colidx', '<=', 'ncols', elementwise=True) is not None else ''), n)
    n = cmp_('colidx', '>=', '0', elementwise=True) or cmp_('colidx', '>', '-1', elementwise=True)
    ob('O11', n is not None, 'every column index is non-negative',
       'no guard `all(colidx >= 0)`: a negative column index wraps around in the backend', n)
    # O12 strict increase within rows
    _strict_rows(model, rep, f, facts, where)


def _kind_fact(facts, name):
    for node, val in facts.facts.values():
        if isinstance(node, ast.Compare) and len(node.ops) == 1 and src(node.left) == f'{name}.dtype.kind' and \
                ((val and isinstance(node.ops[0], ast.In)) or (not val and isinstance(node.ops[0], ast.NotIn))):
            kinds = const(node.comparators[0])
            if isinstance(kinds, str) and set(kinds) <= set('ui') and kinds:
                return node
            if isinstance(node.comparators[0], (ast.Tuple, ast.List, ast.Set)) and {const(e) for e in node.comparators[0].elts} <= {'u', 'i'}:
                return node
        if val and isinstance(node, ast.Call) and src(node.func).endswith('issubdtype') and len(node.args) == 2 and src(node.args[0]) == f'{name}.dtype' and src(node.args[1]).endswith('integer'):
            return node
    return None


def _adjacent_fact(facts, base):
    for node, val in facts.facts.values():
        if not val:
            continue
        inner = strip_all(node)
        if inner is None:
            continue
        k = adjacent_order(inner, base)
        if k is not None:
            return node, k
    return None, None


def _strict_rows(model, rep, f, facts, where):
    # spelling 1: a boolean work array X, `X.all()` dominating, filled by an adjacent comparison and exempted at row starts
    cands = []
    for node, val in facts.facts.values():
        inner = strip_all(node)
        if val and isinstance(inner, ast.Name):
            cands.append((node, inner.id))
    verdicts = []
    for node, X in cands:
        writes = []
        for s in find_stmts(f.body, lambda s: isinstance(s, (ast.Assign, ast.AugAssign, ast.Expr))):
            if isinstance(s, ast.Assign):
                for t in s.targets:
                    if isinstance(t, ast.Name) and t.id == X:
                        writes.append(('create', s))
                    elif isinstance(t, ast.Subscript) and src(t.value) == X:
                        writes.append(('store', s))
            elif isinstance(s, ast.AugAssign) and (src(s.target) == X or (isinstance(s.target, ast.Subscript) and src(s.target.value) == X)):
                writes.append(('aug', s))
            elif isinstance(s, ast.Expr) and isinstance(s.value, ast.Call):
                for k in s.value.keywords:
                    if k.arg == 'out' and X in {n.id for n in ast.walk(k.value) if isinstance(n, ast.Name)}:
                        writes.append(('out', s))
        order = None
        exempt = False
        unknown = []
        for kind, s in writes:
            if kind == 'create':
                continue
            if kind == 'out':
                k = adjacent_order(s.value, 'colidx')
                outk = next(k_ for k_ in s.value.keywords if k_.arg == 'out')
                if k is not None and src(outk.value) == f'{X}[1:-1]':
                    order = (k, s)
                    continue
            if kind == 'store':
                t = s.targets[0]
                if src(t) == f'{X}[rowptr]' and const(s.value) is True:
                    exempt = True
                    continue
                if src(t) == f'{X}[1:-1]':
                    k = adjacent_order(s.value, 'colidx')
                    if k is not None:
                        order = (k, s)
                        continue
                if src(t) in (f'{X}[0]', f'{X}[-1]') and const(s.value) is True:
                    continue
            unknown.append(s)
        if order is None:
            continue
        if unknown:
            raise AnalysisError(f'assemble_csr: cannot classify `{stmt_text(unknown[0])}` writing the row-order work array {X}')
        verdicts.append((node, order, exempt))
    # spelling 2: a per-row loop or direct fact is not used today; fail closed if nothing recognised
    if not verdicts:
        n, k = _adjacent_fact(facts, 'colidx')
        if n is not None:
            raise AnalysisError('assemble_csr: a global adjacent comparison of colidx dominates the backend call; the per-row exemption is not recognisable')
        rep.ob('R15.2', f.key, where, False, 'O12 no guard that column indices strictly increase within each row dominates the backend call: '
               'unsorted or repeated columns would be silently reordered or dropped by the backend', statement='O12')
        return
    node, (k, s), exempt = verdicts[0]
    ok = k == '<' and exempt
    if ok:
        det = f'O12 column indices strictly increase within each row: `{stmt_text(s)}` with row starts exempted, checked by `{src(node)}`'
    elif k == '<=':
        det = f'O12 `{stmt_text(s)}` only checks NON-strict increase: a repeated column index within a row is accepted and the backend keeps one of the values'
    elif not exempt:
        det = f'O12 the row starts are not exempted (`X[rowptr] = True` missing): valid multi-row input would be rejected / order across rows enforced'
    else:
        det = f'O12 `{stmt_text(s)}` checks decreasing order'
    rep.ob('R15.2', f.key, f.where(s), ok, det, statement='O12')


def check_blocks(model, rep):
    """R15.9: assemble_block_csr re-bases the column indices of every block by the widths of the blocks to its left and splices the
    row pointers, then hands the concatenation to the gateway.  After re-basing, an index beyond a block's own width is a valid
    index of the neighbouring block, and the splice drops each block's first row pointer - so the gateway cannot see either:
    the per-block obligations must be established (raise) before the block's data is used."""
    f = model.func('matrix:assemble_block_csr')
    loops = [l for l in ast.walk(f.node) if isinstance(l, ast.For) and isinstance(l.target, ast.Tuple) and len(l.target.elts) == 4 and all(isinstance(e, ast.Name) for e in l.target.elts)]
    # the loop over the blocks of one block-row: its iterable is the variable of the loop over `blocks`
    outer = {l.target.id for l in ast.walk(f.node) if isinstance(l, ast.For) and isinstance(l.target, ast.Name) and src(l.iter) == 'blocks'}
    if len(loops) != 1:
        loops = [l for l in loops if isinstance(l.iter, ast.Name) and l.iter.id in outer]
    if len(loops) != 1:
        raise AnalysisError('assemble_block_csr: the loop over (values, rowptr, colidx, ncols) blocks was not found')
    loop = loops[0]
    v, r, c, n = (e.id for e in loop.target.elts)
    # first use of the block's data: the statement that re-bases the column indices or stores the block
    def uses(s):
        return isinstance(s, (ast.Expr, ast.Assign, ast.AugAssign)) and not isinstance(s, ast.If) and any(isinstance(x, ast.BinOp) and isinstance(x.op, ast.Add) and c in {y.id for y in ast.walk(x) if isinstance(y, ast.Name)} for x in ast.walk(s))
    fake = ast.FunctionDef(name='_block_loop_body', args=ast.arguments(posonlyargs=[], args=[], kwonlyargs=[], kw_defaults=[], defaults=[]), body=loop.body, decorator_list=[], lineno=loop.lineno)
    facts = facts_at(fake, uses)
    # expand chained comparisons a == b == c into their adjacent pairs
    pairs = []
    for node, val in facts.facts.values():
        inner = strip_all(node) if val else None
        e = inner if inner is not None else node
        if isinstance(e, ast.Compare) and (val or len(e.ops) == 1):
            terms = [e.left] + list(e.comparators)
            for a, op, b in zip(terms, e.ops, terms[1:]):
                cmp1 = ast.Compare(left=a, ops=[op], comparators=[b])
                cc = as_compare(cmp1, val if len(e.ops) == 1 else True)
                if cc is not None:
                    pairs.append((cc, inner is not None, node))

    def has(lhs, op, rhs, elementwise=False):
        flip = {'<': '>', '>': '<', '<=': '>=', '>=': '<=', '==': '==', '!=': '!='}
        for (a, o, b), elem, node in pairs:
            if elem == elementwise and ((a, o, b) == (lhs, op, rhs) or (b, flip.get(o), a) == (lhs, op, rhs)):
                return node
        return None
    raising = set(facts.raising.values())
    obs = [
        ('B1', 'the block row pointers start at 0 (the splice drops the first pointer)', has(f'{r}[0]', '==', '0')),
        ('B2', 'the block row pointers end at the number of block values', has(f'{r}[-1]', '==', f'len({v})')),
        ('B3', 'every block column index is below the block width (beyond it lies the neighbouring block)', has(c, '<', n, True) or has(f'{c}.max()', '<', n) or has(f'max({c})', '<', n)),
        ('B4', 'every block column index is non-negative', has(c, '>=', '0', True) or has(c, '>', '-1', True) or has(f'{c}.min()', '>=', '0') or has(f'min({c})', '>=', '0')),
    ]
    # the all-empty shortcut must describe the same matrix as the general path: its row count may not be a per-block-row value
    emp = [c_ for c_ in ast.walk(f.node) if isinstance(c_, ast.Call) and src(c_.func) == 'empty' and c_.args and isinstance(c_.args[0], ast.Tuple) and len(c_.args[0].elts) == 2]
    if len(emp) != 1:
        raise AnalysisError('assemble_block_csr: the shortcut for blocks without stored values was not found')
    rows_e = emp[0].args[0].elts[0]
    per_iter = set()
    for l in ast.walk(f.node):
        if isinstance(l, ast.For):
            assigned = {t.id for s_ in ast.walk(l) if isinstance(s_, ast.Assign) for tt in s_.targets for t in ast.walk(tt) if isinstance(t, ast.Name)}
            accumulated = {s_.target.id for s_ in ast.walk(l) if isinstance(s_, ast.AugAssign) and isinstance(s_.target, ast.Name)}
            per_iter |= assigned - accumulated
    bad_names = sorted({x.id for x in ast.walk(rows_e) if isinstance(x, ast.Name)} & per_iter)
    rep.ob('R15.9', f.key, f.where(emp[0]), not bad_names, f'the all-empty shortcut takes its row count `{src(rows_e)}` from the accumulated row pointers, like the general path' if not bad_names else
           f'the all-empty shortcut builds `{src(emp[0])[:60]}` with `{bad_names[0]}`, which is re-assigned for every block row (it holds the height of the LAST block row): with two or more block rows the matrix has too few rows, '
           'silently', statement='empty-shortcut-rows')
    for oid, text, node in obs:
        ok = node is not None
        exc = facts.raising.get(src(node)) if ok else None
        if ok and exc is not None and exc != 'MatrixError':
            ok = False
        rep.ob('R15.9', f.key, f.where(node) if node is not None else f.where(loop), ok, f'{oid} {text}: guard `{src(node)[:70]}` precedes the use of the block' if ok else
               f'{oid} not established per block: {text}; assemble_csr only sees the concatenation, in which the defect is no longer visible, so the input is silently altered instead of rejected', statement=oid)


def check_rebased(model, rep, rule='R15.9'):
    """Every column-index array that assemble_block_csr hands to the gateway is re-based by the width of the blocks to its left, on EVERY route from a
    collected block to the concatenation (the single-block fast path as well as the row-by-row interleaving): what is appended to the list that is finally
    concatenated into the column indices must contain both the block's own column indices and the running offset - directly, or through the tuple in
    which the block was collected."""
    f = model.func('matrix:assemble_block_csr')
    ret = [r for r in ast.walk(f.node) if isinstance(r, ast.Return) and isinstance(r.value, ast.Call) and src(r.value.func) == 'assemble_csr']
    if len(ret) != 1:
        raise AnalysisError('assemble_block_csr: the call of the gateway assemble_csr was not found')
    call = ret[0].value
    colarg = call.args[2] if len(call.args) >= 3 else next((k.value for k in call.keywords if k.arg == 'colidx'), None)   # assemble_csr(values, rowptr, colidx, ncols)
    if colarg is None:
        raise AnalysisError('assemble_block_csr: the column indices handed to assemble_csr were not found')
    m = pmatch('numpy.concatenate(L_)', colarg)
    if m is None or not isinstance(m['L_'], ast.Name):
        raise AnalysisError('assemble_block_csr: the column indices handed to assemble_csr are not numpy.concatenate(<list>)')
    lst = m['L_'].id
    loops = [l for l in ast.walk(f.node) if isinstance(l, ast.For) and isinstance(l.target, ast.Tuple) and len(l.target.elts) == 4 and all(isinstance(e, ast.Name) for e in l.target.elts)
             and isinstance(l.iter, ast.Name)]
    outer = {l.target.id for l in ast.walk(f.node) if isinstance(l, ast.For) and isinstance(l.target, ast.Name) and src(l.iter) == 'blocks'}
    loops = [l for l in loops if l.iter.id in outer] if len(loops) != 1 else loops
    if len(loops) != 1:
        raise AnalysisError('assemble_block_csr: the loop over the blocks of a block-row was not found')
    cname = loops[0].target.elts[2].id
    offs = [s_.target.id for s_ in ast.walk(loops[0]) if isinstance(s_, ast.AugAssign) and isinstance(s_.op, ast.Add) and isinstance(s_.target, ast.Name) and src(s_.value) == loops[0].target.elts[3].id]
    if len(offs) != 1:
        raise AnalysisError('assemble_block_csr: the running column offset was not found')
    off = offs[0]
    # the tuples in which blocks are collected, and the names later bound to their elements by position
    coll = [c for c in ast.walk(loops[0]) if isinstance(c, ast.Call) and isinstance(c.func, ast.Attribute) and c.func.attr == 'append' and isinstance(c.func.value, ast.Name)
            and len(c.args) == 1 and isinstance(c.args[0], ast.Tuple)]
    appends = [c for c in ast.walk(f.node) if isinstance(c, ast.Call) and src(c.func) in (f'{lst}.append', f'{lst}.extend') and len(c.args) == 1]
    if not appends:
        raise AnalysisError(f'assemble_block_csr: nothing is appended to `{lst}`')
    for a in appends:
        names = {n_.id for n_ in ast.walk(a.args[0]) if isinstance(n_, ast.Name)}
        # names bound by unpacking a collected tuple (for ... in store / (..), = store) stand for the element at that position
        resolved = set(names)
        for c in coll:
            store = c.func.value.id
            for t in ast.walk(f.node):
                tgt = None
                if isinstance(t, ast.For) and src(t.iter) == store:
                    tgt = t.target
                elif isinstance(t, ast.Assign) and src(t.value) == store and isinstance(t.targets[0], ast.Tuple) and len(t.targets[0].elts) == 1:
                    tgt = t.targets[0].elts[0]
                if not (isinstance(tgt, ast.Tuple) and len(tgt.elts) == len(c.args[0].elts)):
                    continue
                if isinstance(t, ast.For):
                    in_scope = any(n_ is a for n_ in ast.walk(t))
                else:   # `(v, r, c), = store`: binds for the statements that follow it in the same block
                    in_scope = any(t in blk and any(any(n_ is a for n_ in ast.walk(x)) for x in blk[blk.index(t) + 1:])
                                   for holder in ast.walk(f.node) for blk in (getattr(holder, 'body', None), getattr(holder, 'orelse', None)) if isinstance(blk, list))
                if in_scope:
                    for e_t, e_v in zip(tgt.elts, c.args[0].elts):
                        if isinstance(e_t, ast.Name) and e_t.id in names:
                            resolved |= {n_.id for n_ in ast.walk(e_v) if isinstance(n_, ast.Name)}
        ok = cname in resolved and off in resolved
        rep.ob(rule, f.key, f.where(a), ok, f'`{src(a)[:60]}` carries the block\'s column indices re-based by `{off}`' if ok else
               f'`{src(a)[:60]}` hands column indices to the gateway that were not re-based by the running offset `{off}`: a block that is the only non-empty one of its block-row '
               'and does not start at column 0 silently lands at column 0', statement='rebased ' + src(a.args[0])[:40])


def check_row_search(model, rep):
    """R15.10: a column is looked up in one row of CSR data by searchsorted over the row's slice A[lo:hi]; the result equals the
    length of the slice when the column is absent, and (offset by lo) is then the first position of the NEXT row.  Every read
    A[pos] / S[pos] at that position must therefore be guarded by a comparison of the position with the end of the searched slice
    (pos < len(S), or lo-offset pos < hi) - a comparison with any other length lets the next row's entry pass for this row's."""
    n = 0
    cands = [f for f in model.functions.values() if f.module.short.startswith('matrix') and not isinstance(f.node, ast.Lambda)]
    # The rule has no fixed set of instances (a row search may be rewritten into a vectorised comparison, which has no position to guard), so its
    # power is shown on every run by two built-in examples: the guarded lookup must be accepted and the unguarded one reported.
    probe = _RowSearchProbe()
    cands = [probe.fn('good', 'idiag = numpy.searchsorted(icols, irow)\n    return data[lo + idiag] if idiag < len(icols) and icols[idiag] == irow else 0'),
             probe.fn('bad', 'idiag = numpy.searchsorted(icols, irow)\n    return data[lo + idiag] if idiag < len(data) and icols[idiag] == irow else 0')] + cands
    real_rep = rep
    for f in cands:
        rep = probe if f.key.startswith('<probe>') else real_rep
        assigns = {}
        for s_ in ast.walk(f.node):
            if isinstance(s_, ast.Assign) and len(s_.targets) == 1:
                t = s_.targets[0]
                if isinstance(t, ast.Name):
                    assigns.setdefault(t.id, []).append(s_.value)
                elif isinstance(t, ast.Tuple) and all(isinstance(e, ast.Name) for e in t.elts):
                    for k, e in enumerate(t.elts):
                        assigns.setdefault(e.id, []).append(('unpack', k, s_.value))
            elif isinstance(s_, ast.For) and isinstance(s_.target, ast.Tuple):
                for e in ast.walk(s_.target):
                    if isinstance(e, ast.Name):
                        assigns.setdefault(e.id, []).append(('loop', s_.iter))
        for name, vals in assigns.items():
            for v in vals:
                if isinstance(v, tuple):
                    continue
                # pos = [lo +] searchsorted(S, x)  |  [lo +] S.searchsorted(x)
                off, call = None, v
                if isinstance(v, ast.BinOp) and isinstance(v.op, ast.Add):
                    for a, b in ((v.left, v.right), (v.right, v.left)):
                        if isinstance(b, ast.Call) and method_name(b) == 'searchsorted':
                            off, call = a, b
                if not (isinstance(call, ast.Call) and method_name(call) == 'searchsorted'):
                    continue
                S = call.args[0] if src(call.func) in ('numpy.searchsorted', 'searchsorted') else call.func.value
                if isinstance(S, ast.Name) and len(assigns.get(S.id, [])) == 1 and isinstance(assigns[S.id][0], ast.Subscript):
                    Sname, S = S.id, assigns[S.id][0]
                else:
                    Sname = None
                if not (isinstance(S, ast.Subscript) and isinstance(S.slice, ast.Slice)):
                    continue   # a search over a whole array: no neighbouring row behind its end
                A, lo, hi = src(S.value), S.slice.lower, S.slice.upper
                if lo is None or hi is None:
                    continue
                n += 1
                ends = set()
                if off is not None:
                    if src(off) != src(lo):
                        rep.ob('R15.10', f.key, f.where(v), False, f'`{src(v)}`: the offset `{src(off)}` is not the start `{src(lo)}` of the searched slice', statement=f'row-search {name}')
                        continue
                    ends = {src(hi)}
                    reads = [x for x in ast.walk(f.node) if isinstance(x, ast.Subscript) and isinstance(x.ctx, ast.Load) and not isinstance(x.slice, ast.Slice) and src(x.slice) == name]
                else:
                    ends = {f'len({Sname})'} if Sname else set()
                    ends |= {f'len({src(S)})', f'{src(hi)} - {src(lo)}'}
                    reads = [x for x in ast.walk(f.node) if isinstance(x, ast.Subscript) and isinstance(x.ctx, ast.Load) and not isinstance(x.slice, ast.Slice) and
                             name in {y.id for y in ast.walk(x.slice) if isinstance(y, ast.Name)}]
                bad = None
                for r in reads:
                    conds = _short_circuit_conditions(f.node, r)
                    if not any(isinstance(c, ast.Compare) and len(c.ops) == 1 and (
                            (isinstance(c.ops[0], ast.Lt) and src(c.left) == name and src(c.comparators[0]) in ends) or
                            (isinstance(c.ops[0], ast.Gt) and src(c.comparators[0]) == name and src(c.left) in ends)) for c in conds):
                        bad = r
                        break
                ok = bad is None and bool(reads)
                if not reads:
                    continue
                rep.ob('R15.10', f.key, f.where(bad if bad is not None else v), ok,
                       f'`{name}` = position of a column within the row slice {src(S)}: every read at that position is guarded by `{name} < {sorted(ends)[0]}`' if ok else
                       f'`{src(bad)}` reads at the searchsorted position `{name}` of the row slice {src(S)} without `{name} < {" / ".join(sorted(ends))}` holding: when the column is absent from the row the position is '
                       'the first entry of the next row, whose value is then taken for this row', statement=f'row-search {name}')
    rep = real_rep
    if probe.results != {'<probe>:good': [True], '<probe>:bad': [False]}:
        raise AnalysisError(f'R15.10: the built-in examples are not decided as expected ({probe.results}): the rule is broken')
    model.func('matrix._base:Matrix.diagonal')     # anchor: the function exists (its row search may have been vectorised away)
    rep.info(f'R15.10: {n - 2} row searches by searchsorted found in the matrix modules (plus 2 built-in examples)')


class _RowSearchProbe:
    """Two synthetic functions through which R15.10 shows on every run that it accepts a guarded and reports an unguarded row lookup."""

    def __init__(self):
        self.results = {}

    def fn(self, name, text):
        node = ast.parse(f'def {name}(data, indices, lo, hi, irow):\n    icols = indices[lo:hi]\n    {text}\n').body[0]

        class F:
            pass
        f = F()
        f.node, f.key, f.name = node, f'<probe>:{name}', name
        f.where = lambda n=None: f'<probe>:{name}'
        return f

    def ob(self, rule, construct, where, ok, detail, **kw):
        self.results.setdefault(construct, []).append(bool(ok))




def _short_circuit_conditions(fn, node):
    """Conditions known to hold when `node` is evaluated: earlier operands of enclosing `and`s, tests of enclosing IfExp bodies
    and of enclosing if statements (body side), decomposed over `and`."""
    parents = {}
    for p_ in ast.walk(fn):
        for c in ast.iter_child_nodes(p_):
            parents[c] = p_
    out = []

    def add(t):
        if isinstance(t, ast.BoolOp) and isinstance(t.op, ast.And):
            for v in t.values:
                add(v)
        else:
            out.append(t)
    cur = node
    while cur in parents:
        par = parents[cur]
        if isinstance(par, ast.BoolOp) and isinstance(par.op, ast.And):
            for v in par.values:
                if v is cur:
                    break
                add(v)
        elif isinstance(par, ast.IfExp) and cur is par.body:
            add(par.test)
        elif isinstance(par, ast.If) and cur in par.body:
            add(par.test)
        elif isinstance(par, (ast.FunctionDef, ast.Lambda)):
            break
        cur = par
    return out


CONSTRUCTORS = ['assemble_coo', 'assemble', 'assemble_block_csr', 'fromsparse', 'empty', 'diag', 'eye']


def check_gateway(model, rep):
    mat = model.module('matrix')
    # 1. backend.current.assemble only in assemble_csr; Matrix subclasses constructed only in their own backend module
    backend_classes = {}
    base = model.cls('matrix._base:Matrix')
    for c in model.subclasses(base, strict=True):
        backend_classes[c.name] = c
    ncalls = 0
    for f in model.functions.values():
        for c in calls_in(f.node, nested=False):
            if isinstance(c.func, ast.Attribute) and c.func.attr == 'assemble' and 'backend' in src(c.func.value):
                ncalls += 1
                ok = f.key == 'matrix:assemble_csr'
                rep.ob('R15.1', f.key, f.where(c), ok, 'the backend is entered from the validating gateway assemble_csr' if ok else
                       f'`{src(c)[:70]}` enters the backend without the validation of assemble_csr', statement=src(c.func))
            nm = method_name(c)
            if nm in backend_classes and isinstance(c.func, (ast.Name, ast.Attribute)):
                owner = backend_classes[nm].module.short
                if f.module.short != owner and not f.module.short.startswith('testing'):
                    rep.ob('R15.1', f.key, f.where(c), False, f'{nm} is constructed outside its backend module {owner}: data bypasses assemble_csr',
                           statement=f'{nm}(...)')
    if ncalls == 0:
        raise AnalysisError('no call of backend.current.assemble found at all')
    # 2. every public constructor reaches assemble_csr (call graph inside matrix/__init__)
    reach = {}

    def reaches(name, seen=()):
        if name == 'assemble_csr':
            return True
        if name in seen or name not in mat.functions:
            return False
        if name in reach:
            return reach[name]
        r = any(reaches(method_name(c), seen + (name,)) for c in calls_in(mat.functions[name].node) if isinstance(c.func, ast.Name))
        reach[name] = r
        return r
    for name in CONSTRUCTORS:
        if name not in mat.functions:
            raise AnalysisError(f'matrix.{name} not found')
        ok = reaches(name)
        rep.ob('R15.1', f'matrix:{name}', mat.functions[name].where(), ok, 'reaches a backend only through assemble_csr' if ok else
               'does not go through assemble_csr', statement='reaches-gateway')
    red = model.func('matrix._base:Matrix.__reduce__')
    rets = find_stmts(red.body, lambda s: isinstance(s, ast.Return))
    ok = len(rets) == 1 and isinstance(rets[0].value, ast.Tuple) and src(rets[0].value.elts[0]) == 'assemble_csr'
    rep.ob('R15.1', red.key, red.where(), ok, 'pickling reconstructs through assemble_csr' if ok else 'pickling does not reconstruct through assemble_csr', statement='reduce-gateway')


ROLE_COL = ('colidx', 'indices', 'cols', 'col', 'ja', 'icols')
ROLE_ROW = ('rowptr', 'indptr', 'ia')


def _role(text):
    t = text.replace('self.', '').replace('csr.', '').replace('coo.', '')
    for k in ROLE_ROW:
        if k in t:
            return 'rowptr'
    if 'rows.searchsorted' in t or 'searchsorted' in t and 'rows' in t:
        return 'rowptr'
    if 'bincount' in t and 'cumsum' in t:   # row pointers from per-row counts: complete only if the counts cover every row
        return 'rowptr' if 'minlength' in t else 'rowptr-short'
    for k in ROLE_COL:
        if t.startswith(k) or t == k:
            return 'colidx'
    if t in ('_',):
        return 'any'
    return None


def check_siblings(model, rep):
    base = model.cls('matrix._base:Matrix')
    backends = [m for k, m in model.modules.items() if k in ('matrix._numpy', 'matrix._scipy', 'matrix._mkl')]
    if len(backends) != 3:
        raise AnalysisError('expected the three backend modules _numpy, _scipy, _mkl')
    for m in backends:
        f = m.functions.get('assemble')
        if f is None:
            rep.ob('R15.3', f'{m.short}:assemble', m.relpath + ':1', False, 'backend module has no assemble()', statement='assemble-signature')
            continue
        pos, _, _, _ = params(f.node)
        ok = pos == ['data', 'rowptr', 'colidx', 'ncols']
        rep.ob('R15.3', f.key, f.where(), ok, f'assemble{tuple(pos)} matches the gateway call order (values, rowptr, colidx, ncols)' if ok else
               f'assemble{tuple(pos)} disagrees with the gateway call backend.current.assemble(values, rowptr, colidx, ncols)', statement='assemble-signature')
    gw = model.func('matrix:assemble_csr')
    call = next(c for c in calls_in(gw.node) if isinstance(c.func, ast.Attribute) and c.func.attr == 'assemble' and 'backend' in src(c.func.value))
    ok = [src(a) for a in call.args] == ['values', 'rowptr', 'colidx', 'ncols'] and not call.keywords
    rep.ob('R15.3', gw.key, gw.where(call), ok, 'gateway passes (values, rowptr, colidx, ncols)' if ok else f'gateway passes {[src(a) for a in call.args]}', statement='gateway-args')

    required = ['__add__', '__mul__', '__matmul__', '__neg__', 'T', '_submatrix', 'export', 'convert']
    for c in model.subclasses(base, strict=True):
        for name in required:
            ok = name in c.members
            rep.ob('R15.3', c.key, f'{c.module.relpath}:{c.node.lineno}', ok, f'defines {name}' if ok else f'{c.name} lacks {name} (abstract in Matrix)', statement=f'defines {name}')
        ex = c.members.get('export')
        if ex is None or ex.func is None:
            continue
        ef = ex.func
        forms = {}
        for s in find_stmts(ef.body, lambda s: isinstance(s, ast.If)):
            t = s.test
            if isinstance(t, ast.Compare) and src(t.left) == 'form' and isinstance(t.ops[0], ast.Eq) and isinstance(const(t.comparators[0]), str):
                forms[const(t.comparators[0])] = s
        ok = set(forms) == {'dense', 'csr', 'coo'}
        rep.ob('R15.3', ef.key, ef.where(), ok, 'export handles exactly dense, csr, coo' if ok else f'export handles {sorted(forms)}', statement='export-forms')
        last = ef.body[-1]
        ok = isinstance(last, ast.Raise) and last.exc is not None and 'NotImplementedError' in src(last.exc)
        rep.ob('R15.3', ef.key, ef.where(last), ok, 'unknown forms raise NotImplementedError' if ok else 'unknown export forms do not raise NotImplementedError', statement='export-else')
        if 'csr' in forms:
            rets = find_stmts(forms['csr'].body, lambda s: isinstance(s, ast.Return))
            for r in rets:
                ok = isinstance(r.value, ast.Tuple) and len(r.value.elts) == 3 and _role(src(r.value.elts[1])) == 'colidx' and _role(src(r.value.elts[2])) == 'rowptr'
                short = isinstance(r.value, ast.Tuple) and len(r.value.elts) == 3 and _role(src(r.value.elts[2])) == 'rowptr-short'
                rep.ob('R15.3', ef.key, ef.where(r), ok, 'csr export is (data, column indices, row pointers)' if ok else
                       (f'`{stmt_text(r)[:90]}` builds the row pointers from numpy.bincount without minlength: structurally empty trailing rows get no pointer, so the exported triple (and a pickle made from it) '
                        'describes a matrix with fewer rows' if short else f'`{stmt_text(r)}` does not return (data, colidx, rowptr) in this order'), statement='export-csr-order')
        if 'coo' in forms:
            rets = find_stmts(forms['coo'].body, lambda s: isinstance(s, ast.Return))
            for r in rets:
                ok = isinstance(r.value, ast.Tuple) and len(r.value.elts) == 2
                if ok:
                    idx = r.value.elts[1]
                    if isinstance(idx, ast.Tuple):
                        ok = len(idx.elts) == 2 and 'col' in src(idx.elts[1]).lower() and 'col' not in src(idx.elts[0]).lower()
                    else:
                        ok = isinstance(idx, ast.Name)  # ij = core.nonzero(): (rows, cols) by numpy's contract
                rep.ob('R15.3', ef.key, ef.where(r), ok, 'coo export is (data, (row, col))' if ok else f'`{stmt_text(r)}` does not return (data, (row, col))', statement='export-coo-order')
    # consumers of export('csr') / export('coo')
    ncons = 0
    for f in model.functions.values():
        for s in find_stmts(f.body if not isinstance(f.node, ast.Lambda) else [], lambda s: isinstance(s, ast.Assign)):
            v = s.value
            if isinstance(v, ast.Call) and method_name(v) == 'export' and v.args and const(v.args[0]) in ('csr', 'coo') and isinstance(s.targets[0], ast.Tuple):
                names = [src(e) for e in s.targets[0].elts]
                form = const(v.args[0])
                ncons += 1
                if form == 'csr':
                    ok = len(names) == 3 and _role(names[1]) in ('colidx', 'any') and _role(names[2]) in ('rowptr', 'any')
                    det = f'unpacks csr export as (data, colidx, rowptr): {names}' if ok else f'unpacks csr export as {names}: the contract is (data, colidx, rowptr)'
                else:
                    ok = len(names) == 2 and isinstance(s.targets[0].elts[1], ast.Tuple) and len(s.targets[0].elts[1].elts) == 2 and \
                        'col' in src(s.targets[0].elts[1].elts[1]) and 'col' not in src(s.targets[0].elts[1].elts[0])
                    det = f'unpacks coo export as (data, (row, col)): {names}' if ok else f'unpacks coo export as {names}: the contract is (data, (row, col))'
                rep.ob('R15.3', f.key, f.where(s), ok, det, statement=stmt_text(s))
    if ncons < 4:
        raise AnalysisError(f'only {ncons} consumers of export(csr/coo) found, expected at least 4')
    red = model.func('matrix._base:Matrix.__reduce__')
    r = find_stmts(red.body, lambda s: isinstance(s, ast.Return))[0]
    un = next(s for s in find_stmts(red.body, lambda s: isinstance(s, ast.Assign)) if isinstance(s.value, ast.Call) and method_name(s.value) == 'export')
    names = [src(e) for e in un.targets[0].elts]
    args = [src(e) for e in r.value.elts[1].elts] if isinstance(r.value, ast.Tuple) and isinstance(r.value.elts[1], ast.Tuple) else []
    ok = len(names) == 3 and args == [names[0], names[2], names[1], 'self.shape[1]']
    rep.ob('R15.3', red.key, red.where(r), ok, 'pickling passes (data, rowptr, colidx, ncols) to assemble_csr' if ok else
           f'pickling passes {args} built from export names {names}: rowptr/colidx swapped or ncols wrong', statement='reduce-args')


def check_arity(model, rep):
    base = model.cls('matrix._base:Matrix')
    subs = {c.name: c for c in model.subclasses(base, strict=True)}
    n = 0
    for f in model.functions.values():
        if not f.module.short.startswith('matrix'):
            continue
        for c in calls_in(f.node, nested=False):
            nm = method_name(c)
            if nm in subs and isinstance(c.func, ast.Name):
                init = model.lookup(subs[nm], '__init__')
                if init is None or init[1].func is None:
                    continue
                lo, hi = arity(init[1].func.node)
                lo -= 1
                hi = None if hi is None else hi - 1
                pos, kwonly, _, kwarg = params(init[1].func.node)
                if any(isinstance(a, ast.Starred) for a in c.args) or any(k.arg is None for k in c.keywords):
                    continue
                given = len(c.args)
                kw = {k.arg for k in c.keywords}
                total = given + len(kw & set(pos[1:]))
                ok = (hi is None or given <= hi) and total >= lo and (kwarg is not None or kw <= set(pos[1:]) | set(kwonly))
                n += 1
                if ok or f.module.short == 'matrix._numpy' or True:
                    # scipy / mkl cannot be imported here: an arity mismatch there cannot be reproduced -> INFO, not a verdict
                    if not ok and f.module.short in ('matrix._scipy', 'matrix._mkl'):
                        rep.info(f'R15.4 unowned-finding (backend not installed, cannot be reproduced): {f.where(c)} {f.key} calls {nm} with {given} positional arguments, __init__ takes {lo}..{hi}')
                        rep.ob('R15.4', f.key, f.where(c), True, f'{nm}(...) arity mismatch in an uninstallable backend: reported as INFO only', statement=src(c)[:80])
                    else:
                        rep.ob('R15.4', f.key, f.where(c), ok, f'{nm}(...) matches __init__ arity {lo}..{hi}' if ok else
                               f'{nm} called with {given} positional / {sorted(kw)} keyword arguments but __init__ takes {lo}..{hi}', statement=src(c)[:80])
    if n < 8:
        raise AnalysisError(f'only {n} backend constructor calls found')


def _norm_ret(e):
    '''Normalise `self.__add__(x)` -> ('add', x), etc.'''
    t = src(e).replace(' ', '')
    return t


def check_base_operators(model, rep):
    base = model.cls('matrix._base:Matrix')
    expect = {
        '__sub__': {'self.__add__(-other)', 'self+-other', 'self+(-other)', 'self.__add__(other.__neg__())', 'self+other.__neg__()'},
        '__rmul__': {'self.__mul__(other)', 'self*other'},
        '__truediv__': {'self.__mul__(1/other)', 'self*(1/other)', 'self.__mul__(1.0/other)', 'self*(1.0/other)', 'self.__mul__(numpy.true_divide(1,other))'},   # NOT numpy.reciprocal: integer reciprocal for integer divisors
    }
    for name, accepted in expect.items():
        mem = base.members.get(name)
        if mem is None or mem.func is None:
            raise AnalysisError(f'Matrix.{name} not found')
        rets = find_stmts(mem.func.body, lambda s: isinstance(s, ast.Return))
        ok = len(rets) == 1 and _norm_ret(rets[0].value) in accepted
        rep.ob('R15.6', mem.func.key, mem.func.where(), ok, f'{name} is derived from the abstract operators as {sorted(accepted)[0]}' if ok else
               f'`{stmt_text(rets[0]) if rets else "?"}` is not one of the accepted spellings {sorted(accepted)}', statement=name)
    # rowsupp: abs(data) > tol over coo rows
    rs = base.members['rowsupp'].func
    ok = any(isinstance(s, ast.Assign) and isinstance(s.targets[0], ast.Subscript) and 'abs(data) > tol' in src(s.targets[0]) and src(s.targets[0]).startswith('supp[row[') and const(s.value) is True
             for s in find_stmts(rs.body, lambda s: isinstance(s, ast.Assign)))
    rep.ob('R15.6', rs.key, rs.where(), ok, 'row support marks rows of entries with |a| > tol' if ok else 'rowsupp no longer marks supp[row[abs(data) > tol]] = True', statement='rowsupp')
    # sibling overrides of rowsupp in the backends: the comparison with tol is per entry (or of the row maximum), never of a row sum or norm
    for c in model.subclasses(base, strict=True):
        mem = c.members.get('rowsupp')
        if mem is None or mem.func is None:
            continue
        cmps = [x for x in ast.walk(mem.func.node) if (isinstance(x, ast.Compare) and 'tol' in src(x)) or (isinstance(x, ast.Call) and src(x.func) in ('numpy.greater', 'numpy.less', 'numpy.greater_equal') and 'tol' in src(x))]
        if not cmps:
            rep.info(f'R15.6 {mem.func.key}: comparison with tol not recognised; the override is not decided')
            continue
        operand_red = [y for x in cmps for y in ast.walk(x) if isinstance(y, ast.Call) and (method_name(y) in ('sum', 'norm', 'mean', 'dot') or src(y.func) in ('numpy.sum', 'numpy.linalg.norm', 'numpy.add.reduce', 'numpy.add.reduceat'))]
        okr = not operand_red
        rep.ob('R15.6', mem.func.key, mem.func.where(), okr, f'{c.name}.rowsupp compares every entry (or the row maximum) with tol, as the base class does' if okr else
               f'{c.name}.rowsupp compares `{src(operand_red[0])[:50]}` with tol: the base class marks a row when one ENTRY exceeds tol; a row of several small entries whose sum exceeds tol is now marked as supported', statement='rowsupp-sibling')
    # submatrix cache: key is (rows, cols) compared elementwise, both stored with the cached object
    sm = base.members['submatrix'].func
    # the test may be spelled as a miss or as its negation (a named validity flag, De Morgan): decided by propositional equivalence, the stores
    # of (rows, cols, sub-matrix) must sit in the branch taken on a miss
    MISS = 'self._cached_submatrix is None or (rows != self._cached_rows).any() or (cols != self._cached_cols).any()'
    ok = False
    for i_ in find_stmts(sm.body, lambda s: isinstance(s, ast.If)):
        t_ = deep_resolved(sm.node, i_.test)
        if '_cached_submatrix' not in src(t_):
            continue
        yes, no = if_branches(sm.body, i_)
        if equivalent(t_, MISS):
            miss = yes
        elif equivalent(t_, f'not ({MISS})'):
            miss = no
        else:
            continue
        stores = {src(t) for x in miss for s_ in ast.walk(x) if isinstance(s_, ast.Assign) for t in s_.targets}
        ok = {'self._cached_rows', 'self._cached_cols', 'self._cached_submatrix'} <= stores
    rep.ob('R15.6', sm.key, sm.where(), ok, 'the sub-matrix cache is keyed on both rows and cols' if ok else
           'the sub-matrix cache test/store no longer covers both the row and the column selection: a stale sub-matrix would be served', statement='submatrix-cache')
    gp = base.members['getprecon'].func
    first = next((s for s in gp.body if isinstance(s, ast.If)), None)
    ok = first is not None and src(first.test).replace(' ', '') in ('(precon,args)==self._precon_args', 'self._precon_args==(precon,args)')
    stores = [s for s in find_stmts(gp.body, lambda s: isinstance(s, ast.Assign)) if src(s.targets[0]) == 'self._precon_args']
    ok = ok and len(stores) == 1 and src(stores[0].value).replace(' ', '') in ('precon,args', '(precon,args)')
    rep.ob('R15.6', gp.key, gp.where(), ok, 'the preconditioner cache is keyed on (precon, args) and stored with the same key' if ok else
           'the preconditioner cache key and the stored key differ', statement='precon-cache')


def check_mkl_base(model, rep):
    '''MKL uses one-based index arrays: type every index expression with its base.'''
    c = model.cls('matrix._mkl:MKLMatrix')
    m = c.module

    def base_of(e, env):
        t = src(e)
        if t in ('self.rowptr', 'self.colidx', 'other.rowptr', 'other.colidx', 'mat.rowptr', 'mat.colidx'):
            return 1
        if isinstance(e, ast.Name) and e.id in env:
            return env[e.id]
        if isinstance(e, ast.BinOp) and isinstance(e.op, (ast.Add, ast.Sub)) and isinstance(const(e.right), int):
            b = base_of(e.left, env)
            if b is None:
                return None
            return b + (const(e.right) if isinstance(e.op, ast.Add) else -const(e.right))
        if isinstance(e, ast.Call):
            name = src(e.func)
            if name in ('numpy.add',) and len(e.args) >= 2 and isinstance(const(e.args[1]), int):
                b = base_of(e.args[0], env)
                return None if b is None else b + const(e.args[1])
            if name in ('numpy.subtract',) and len(e.args) >= 2 and isinstance(const(e.args[1]), int):
                b = base_of(e.args[0], env)
                return None if b is None else b - const(e.args[1])
            if name in ('numpy.ascontiguousarray', 'numpy.asarray', 'numpy.array') and e.args:
                return base_of(e.args[0], env)
            if isinstance(e.func, ast.Attribute) and e.func.attr in ('astype', 'copy'):
                return base_of(e.func.value, env)
        if isinstance(e, ast.Subscript):
            return base_of(e.value, env)
        if isinstance(e, ast.IfExp):
            a, b = base_of(e.body, env), base_of(e.orelse, env)
            return a if a == b else None
        return None
    n = 0
    # 1. module-level assemble receives zero-based data
    asm = m.functions['assemble']
    for call in calls_in(asm.node):
        if method_name(call) == 'MKLMatrix':
            for k in call.keywords:
                if k.arg in ('rowptr', 'colidx'):
                    b = base_of(k.value, {'rowptr': 0, 'colidx': 0})
                    n += 1
                    rep.ob('R15.5', asm.key, asm.where(call), b == 1, f'{k.arg} is converted to one-based for MKL' if b == 1 else
                           f'`{src(k.value)}` passes a base-{b} {k.arg} to MKLMatrix, which stores one-based indices', statement=f'assemble:{k.arg}')
    # 2. convert(): export('csr') is zero-based
    cv = c.members['convert'].func
    env = {}
    for s in find_stmts(cv.body, lambda s: isinstance(s, ast.Assign)):
        if isinstance(s.value, ast.Call) and method_name(s.value) == 'export' and isinstance(s.targets[0], ast.Tuple):
            for e in s.targets[0].elts[1:]:
                env[src(e)] = 0
    for call in calls_in(cv.node):
        if method_name(call) == 'MKLMatrix' and len(call.args) >= 3:
            for i, role in ((1, 'rowptr'), (2, 'colidx')):
                b = base_of(call.args[i], env)
                n += 1
                rep.ob('R15.5', cv.key, cv.where(call), b == 1, f'{role} from a zero-based export is shifted to one-based' if b == 1 else
                       f'`{src(call.args[i])}` is base-{b}: MKLMatrix needs one-based {role}', statement=f'convert:{role}')
    # 3. export(): csr and coo hand out zero-based indices
    ex = c.members['export'].func
    for s in find_stmts(ex.body, lambda s: isinstance(s, ast.If)):
        form = const(s.test.comparators[0]) if isinstance(s.test, ast.Compare) else None
        for r in find_stmts(s.body, lambda s: isinstance(s, ast.Return)):
            if form == 'csr' and isinstance(r.value, ast.Tuple):
                for e in r.value.elts[1:]:
                    b = base_of(e, {})
                    n += 1
                    rep.ob('R15.5', ex.key, ex.where(r), b == 0, f'`{src(e)}` is zero-based' if b == 0 else f'`{src(e)}` is base-{b}: export must return zero-based indices', statement=f'export-csr:{src(e)}')
            if form == 'coo' and isinstance(r.value, ast.Tuple) and isinstance(r.value.elts[1], ast.Tuple):
                e = r.value.elts[1].elts[1]
                b = base_of(e, {})
                n += 1
                rep.ob('R15.5', ex.key, ex.where(r), b == 0, f'`{src(e)}` is zero-based' if b == 0 else f'`{src(e)}` is base-{b}: export must return zero-based column indices', statement=f'export-coo:{src(e)}')
    # 4. scalar multiples / negation reuse the stored (one-based) arrays unchanged
    for name in ('__mul__', '__neg__'):
        fn = c.members[name].func
        for call in calls_in(fn.node):
            if method_name(call) == 'MKLMatrix' and len(call.args) >= 3:
                for i, role in ((1, 'rowptr'), (2, 'colidx')):
                    b = base_of(call.args[i], {})
                    n += 1
                    rep.ob('R15.5', fn.key, fn.where(call), b == 1, f'{role} reused one-based' if b == 1 else f'`{src(call.args[i])}` is base-{b}', statement=f'{name}:{role}')
    if n < 10:
        raise AnalysisError(f'MKL index-base typing matched only {n} sites')


def check_products(model, rep):
    '''R15.7: matrix @ array contracts the matrix columns with the FIRST axis of an operand of any dimension
    (Matrix.solve passes multi-column right-hand sides and `@` is documented as "multiply with a dense tensor").'''
    from sa.einsum import canon
    c = model.cls('matrix._numpy:NumpyMatrix')
    f = c.members['__matmul__'].func
    rets = find_stmts(f.body, lambda s: isinstance(s, ast.Return))
    if len(rets) != 1:
        raise AnalysisError('NumpyMatrix.__matmul__: expected one return')
    e = rets[0].value
    verdict, det = None, ''
    if isinstance(e, ast.Call) and src(e.func) in ('numpy.einsum',) and e.args and isinstance(const(e.args[0]), str):
        pat = canon(const(e.args[0]))
        ops = [src(a) for a in e.args[1:]]
        if pat == 'ab,b...->a...' and ops == ['self.core', 'other']:
            verdict, det = True, f"einsum('{const(e.args[0])}') contracts the columns with the first operand axis for any operand dimension"
        elif pat == 'a...,ba->b...' and ops == ['other', 'self.core']:
            verdict, det = True, 'einsum contracts the columns with the first operand axis'
        else:
            verdict, det = False, f"einsum pattern '{const(e.args[0])}' over {ops} is not 'ij,j...->i...' over (self.core, other)"
    elif isinstance(e, ast.Call) and src(e.func) == 'numpy.tensordot' and [src(a) for a in e.args[:2]] == ['self.core', 'other'] and \
            (len(e.args) > 2 and src(e.args[2]) in ('1', '(1, 0)', '([1], [0])') or any(k.arg == 'axes' and src(k.value) in ('1', '(1, 0)', '([1], [0])') for k in e.keywords)):
        verdict, det = True, 'tensordot(self.core, other, 1) contracts the columns with the first operand axis'
    elif (isinstance(e, ast.BinOp) and isinstance(e.op, ast.MatMult)) or (isinstance(e, ast.Call) and src(e.func) in ('numpy.matmul', 'numpy.dot', 'self.core.dot', 'self.core.__matmul__')):
        verdict, det = False, (f'`{src(e)}` uses matmul/dot semantics: for an operand with three or more axes NumPy treats it as a stack of matrices and contracts '
                               'its second-to-last axis, not the first one; vectors and 2-D operands (all the tests use) are unaffected')
    if verdict is None:
        raise AnalysisError(f'NumpyMatrix.__matmul__: cannot classify `{src(e)[:80]}`')
    rep.ob('R15.7', f.key, f.where(rets[0]), verdict, det, statement='matmul-contraction')
    # the operand checks in front of the product, identical in the sibling backends
    for key in ('matrix._numpy:NumpyMatrix.__matmul__', 'matrix._scipy:ScipyMatrix.__matmul__', 'matrix._mkl:MKLMatrix.__matmul__'):
        g = model.func(key)
        ifs = [s for s in g.body if isinstance(s, ast.If)]
        ok = any(src(s.test) == 'not isinstance(other, numpy.ndarray)' and any(isinstance(b, ast.Raise) and 'TypeError' in src(b) for b in s.body) for s in ifs) and \
            any(src(s.test) == 'other.shape[0] != self.shape[1]' and any(isinstance(b, ast.Raise) and 'MatrixError' in src(b) for b in s.body) for s in ifs)
        rep.ob('R15.7', g.key, g.where(), ok, 'operands of the wrong type or first-axis length are rejected' if ok else
               'the operand guards (ndarray type, other.shape[0] == ncols) of __matmul__ changed', statement='matmul-guards')


def check_compress_indices(model, rep):
    '''R15.8: assemble_coo turns row indices into row pointers with numeric.compress_indices, which must reject
    unsorted / out-of-range rows for every integer dtype (differences of unsigned indices wrap unless computed in a signed type).'''
    f = model.func('numeric:compress_indices')
    pos, _, _, _ = params(f.node)
    idx, length = pos[0], pos[1]
    from sa.guards import facts_at
    rets = find_stmts(f.body, lambda s: isinstance(s, ast.Return))
    final = [r for r in rets if 'repeat' in src(r)]
    if len(final) != 1:
        raise AnalysisError('compress_indices: final return with numpy.repeat not found')
    facts = facts_at(f.node, lambda s: s is final[0])
    lo = holds_compare(facts, f'{idx}[0]', '>=', '0')
    hi = holds_compare(facts, f'{idx}[-1]', '<', length)
    rep.ob('R15.8', f.key, f.where(final[0]), lo is not None and hi is not None, 'out-of-range row indices are rejected before compression' if lo is not None and hi is not None else
           f'the bounds guard `{idx}[0] < 0 or {idx}[-1] >= {length}` no longer dominates the compression', statement='bounds-guard')
    # every difference written into the step array is computed in the (signed, wide) dtype of that array
    step_defs = [s for s in find_stmts(f.body, lambda s: isinstance(s, ast.Assign)) if isinstance(s.value, ast.Call) and src(s.value.func) in ('numpy.empty', 'numpy.zeros')
                 and any(k.arg == 'dtype' and src(k.value) == 'int' for k in s.value.keywords)]
    if len(step_defs) != 1:
        raise AnalysisError('compress_indices: the signed work array `step` was not found')
    step = src(step_defs[0].targets[0])
    writes = 0
    for s in find_stmts(f.body, lambda s: isinstance(s, (ast.Expr, ast.Assign, ast.AugAssign))):
        if isinstance(s, ast.Expr) and isinstance(s.value, ast.Call) and src(s.value.func) in ('numpy.add', 'numpy.subtract'):
            out = next((k.value for k in s.value.keywords if k.arg == 'out'), None)
            if out is None or not src(out).startswith(step):
                continue
            writes += 1
            dt = next((k.value for k in s.value.keywords if k.arg == 'dtype'), None)
            ok = dt is not None and src(dt) in (f'{step}.dtype', 'int', 'numpy.int64', 'numpy.intp')
            rep.ob('R15.8', f.key, f.where(s), ok, f'`{stmt_text(s)[:70]}` is computed in the signed dtype of {step}' if ok else
                   f'`{stmt_text(s)[:90]}` has out= but no dtype=: NumPy computes in the dtype of the index operands, so differences of unsigned row indices wrap around and unsorted rows pass as sorted',
                   statement=f'signed: {src(s.value.func)} -> {src(out)}')
        elif isinstance(s, ast.Assign) and isinstance(s.targets[0], ast.Subscript) and src(s.targets[0].value) == step:
            writes += 1
            has_idx_arith = any(isinstance(n, ast.BinOp) and isinstance(n.op, (ast.Sub, ast.Add)) and idx in src(n) for n in ast.walk(s.value))
            cast = any(isinstance(c_, ast.Call) and (method_name(c_) == 'astype' or src(c_.func) in ('numpy.asarray', 'numpy.array')) for c_ in ast.walk(s.value))
            ok = not has_idx_arith or cast
            rep.ob('R15.8', f.key, f.where(s), ok, f'`{stmt_text(s)[:70]}` does not subtract raw index arrays' if ok else
                   f'`{stmt_text(s)[:90]}` subtracts the raw index arrays: unsigned indices wrap around', statement=f'signed: {src(s.targets[0])}')
    if writes < 3:
        raise AnalysisError(f'compress_indices: only {writes} writes into {step} recognised')
    # a negative step must surface as ValueError
    tr = [t for t in find_stmts(f.body, lambda s: isinstance(s, ast.Try)) if final[0] in t.body]
    ok = len(tr) == 1 and [src(h.type) for h in tr[0].handlers] == ['ValueError'] and any(isinstance(b, ast.Raise) and 'ValueError' in src(b) for b in tr[0].handlers[0].body)
    rep.ob('R15.8', f.key, f.where(final[0]), ok, 'a negative step (unsorted rows) surfaces as ValueError' if ok else 'the conversion of a negative repeat count into ValueError changed', statement='unsorted-rejected')
    g = model.func('matrix:assemble_coo')
    ok = 'numeric.compress_indices(rowidx, nrows)' in src(g.node) and 'assemble_csr(values, ' in src(g.node)
    rep.ob('R15.8', g.key, g.where(), ok, 'assemble_coo derives rowptr with compress_indices(rowidx, nrows) and hands over to assemble_csr' if ok else
           'assemble_coo no longer validates rows through compress_indices', statement='coo-via-compress')


def check_names_resolve(model, rep):
    """R15.12: every name loaded in the constructor module matrix/__init__.py and in the backends resolves in some enclosing scope (symtable):
    a constructor that refers to a name bound nowhere raises NameError instead of building (or rejecting) the matrix."""
    from sa import scopes
    n = 0
    for short in ('matrix', 'matrix._base', 'matrix._numpy', 'matrix._scipy', 'matrix._mkl', 'numeric'):
        m = model.modules.get(short)
        if m is None:
            continue
        unres = [u for u in scopes.unresolved(m) if not u.in_error_operand]
        byscope = {}
        for u in unres:
            byscope.setdefault(u.scope, []).append(u)
        for f in [f for f in model.functions.values() if f.module is m and not isinstance(f.node, ast.Lambda)]:
            n += 1
            bad = byscope.get(f.qualname, [])
            if bad:
                for u in bad:
                    rep.ob('R15.12', f.key, f'{m.relpath}:{u.lineno}', False, f'name `{u.name}` is bound in no enclosing scope: {f.qualname} raises NameError when it gets here', statement=f'unresolved {u.name}')
            else:
                rep.ob('R15.12', f.key, f.where(), True, 'every name loaded resolves (symtable)', statement='names-resolve')
    if n < 60:
        raise AnalysisError(f'R15.12 covered only {n} functions of the matrix package')


def run(model, rep, tier):
    rep.explanation = (
        'R15.1 who-may-call: backend.current.assemble is called only from assemble_csr, backend matrix classes are constructed only in their own module, '
        'and every public constructor (assemble_coo, assemble, assemble_block_csr, fromsparse, empty, diag, eye, pickling) reaches a backend only through assemble_csr. '
        'R15.2 guard dominance: on every path of assemble_csr that reaches the backend call (structural path enumeration), guards raising MatrixError establish the twelve '
        'obligations that make a CSR triple denote exactly one matrix (dimensions, integer kinds, rowptr starts at 0 / non-decreasing / ends at len(values), colidx length, '
        '0 <= colidx < ncols, strictly increasing columns within each row). R15.3 sibling agreement: the three backends export assemble(data,rowptr,colidx,ncols), every Matrix '
        'subclass defines the abstract operations, export handles exactly dense/csr/coo and returns (data, colidx, rowptr) / (data,(row,col)) as all consumers unpack it. '
        'R15.4 constructor arity. R15.5 one-based index typing of the MKL backend (cannot be run here). R15.6 derived operators and caches of the base class. '
        'Decides input validation, routing and contract agreement; numerical agreement of products/transposes/sub-matrices is NOT decided.')
    rep.rule('R15.1', 'single validating gateway to the backends (call graph)')
    rep.rule('R15.2', 'validation obligations O1-O12 dominate the backend call')
    rep.rule('R15.3', 'sibling backends agree on signatures and the export contract; consumers unpack it consistently')
    rep.rule('R15.4', 'constructor arity of backend matrix classes')
    rep.rule('R15.5', 'MKL one-based index discipline (index-base typing)')
    rep.rule('R15.6', 'derived operators and caches of the Matrix base class')
    rep.rule('R15.7', 'matrix-array product contracts the first operand axis for any operand dimension')
    rep.rule('R15.9', 'assemble_block_csr establishes the per-block CSR obligations before re-basing and splicing')
    rep.rule('R15.10', 'a searchsorted position within a row slice is compared with the end of that slice before it is read')
    rep.rule('R15.8', 'COO row compression rejects unsorted / out-of-range rows for every integer dtype')
    check_validation(model, rep)
    check_gateway(model, rep)
    check_rebased(model, rep)
    check_blocks(model, rep)
    check_row_search(model, rep)
    check_siblings(model, rep)
    check_arity(model, rep)
    check_base_operators(model, rep)
    check_mkl_base(model, rep)
    check_products(model, rep)
    check_compress_indices(model, rep)
    rep.rule('R15.11', 'compress_indices never returns on counts / end points of the row indices alone (= R05.9)')
    from rules import shortcuts
    shortcuts.check(model, rep, 'R15.11', 'numeric:compress_indices', why='the number of stored entries and the first and last row do not determine the row pointers')
    from rules import round5 as _r5
    rep.rule('R15.13', 'the transpose is the plain transpose (no conjugation)')
    _r5.check_transpose_plain(model, rep, 'R15.13')
    rep.rule('R15.12', 'every name loaded in the matrix package resolves (symtable)')
    check_names_resolve(model, rep)
    rep.require('R15.2', 12)
    rep.require('R15.1', 9)
    rep.require('R15.3', 30)
